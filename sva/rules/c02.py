"""C02 - affine maps commute with geometry for every segment, path and shape."""
import ast

from .. import matrixsem as MS
from ..algebra import Alg, Uninterpreted, atom, const
from ..flow import Taint, bindings
from ..typedispatch import follow
from ..model import fresh, AnalysisError, attr_chain, call_name, stmts_in, walk_no_nested

EXPLANATION = (
    "Static rules (no execution). R02.1 field coverage: for every concrete segment class the Point-valued fields "
    "(from the constructors) are exactly the fields multiplied by the matrix in __imul__, each once and each guarded "
    "only by its own None test; the same field set is what __getitem__, __copy__ and __eq__ enumerate. R02.2: a class "
    "with a signed angular extent negates it exactly when the determinant is negative. R02.3: Point *= Matrix stores the "
    "matrix image of the point (the image formula itself is decided in C04). R02.4 lazy transforms: Transformable.__imul__ "
    "post-multiplies the stored transform; Path/SimpleLine/Polyshape.reify map every stored point and then reset the "
    "transform (reset after the loop); Rect/_RoundShape.reify are evaluated symbolically as straight-line code under their "
    "no-skew guard and must leave exactly the image attributes and the identity transform; __mul__ and abs() work on copies. "
    "R02.5: every Shape.segments(transformed) obtains the transformed decomposition by applying the matrix to points or "
    "segments of the untransformed decomposition, never from scalar radii/rotation derived from the matrix. R02.6 "
    "coupled-field invariant: if the arc evaluators use the orthogonal-axes parametrisation (rotation from one axis "
    "vector, radii as lengths), every general-matrix update of the two axis points must be followed by a joint "
    "re-normalisation. "
    "R02.7 distinct point objects: in-place updates (*= on each stored point) are sound only if no two point fields of one "
    "segment are the same object; every constructor branch of a segment class must wrap each stored point in its own Point(...) (a "
    "chained assignment or a bare parameter makes one object be multiplied twice). "
    "Not decided: pointwise equality for arcs (values); R02.6 is the static shadow of that defect."
    ' R02.4 also carries the identity test (shared with C04 R04.5): Matrix.is_identity compares all six entries'
    ' - spelled out or as all(... zip(entries, constants)), where the shorter operand decides - because every'
    ' decomposition skips the multiplication when it answers true.'
    ' R02.9: the direction clause of C06 R06.5 (a transformed round shape is traversed the other way round'
    ' exactly when the determinant is negative; the criterion used is part of the finding key) runs here too.'
)
TECHNIQUE = (
    "static analysis (no execution): field-coverage lint over segment classes (constructor fields vs fields touched by *=, __getitem__, __copy__, __eq__); def-use closure for copy-then-multiply; operator type-dispatch following over the class hierarchy; exact canonical forms for reify algebra"
)
ASSUMPTIONS = [
    "Matrix.point_in_matrix_space / matrix_multiply are the SVG definitions (decided in C04).",
    "Point-valued fields are recognised by assignment from Point(...) in the class's constructors.",
]
FLOORS = {"R02.1": 20, "R02.4": 8, "R02.5": 5, "R02.7": 6}

SEGMENTS = ["Move", "Line", "Close", "QuadraticBezier", "CubicBezier", "Arc"]


def point_fields(ctx, cname):
    """Fields assigned from Point(...) (possibly conditionally) in the __init__ chain of cname."""
    out = set()
    for c in ctx.m.mro(cname):
        ci = ctx.m.classes[c]
        init = ci.methods.get("__init__")
        if init is None:
            continue
        for n in ast.walk(init):
            if isinstance(n, ast.Assign) and isinstance(n.targets[0], ast.Attribute) and isinstance(n.targets[0].value, ast.Name) and n.targets[0].value.id == "self":
                if any(call_name(c2) == "Point" for c2 in ast.walk(n.value) if isinstance(c2, ast.Call)):
                    out.add(n.targets[0].attr)
        # helper initialisers called from __init__ (Arc._svg_parameterize)
        for call in ast.walk(init):
            if isinstance(call, ast.Call) and isinstance(call.func, ast.Attribute) and isinstance(call.func.value, ast.Name) and call.func.value.id == "self" \
                    and call.func.attr in ci.methods and call.func.attr.startswith("_"):
                for n in ast.walk(ci.methods[call.func.attr]):
                    if isinstance(n, ast.Assign) and isinstance(n.targets[0], ast.Attribute) and isinstance(n.targets[0].value, ast.Name) and n.targets[0].value.id == "self":
                        if any(call_name(c2) == "Point" for c2 in ast.walk(n.value) if isinstance(c2, ast.Call)) or (isinstance(n.value, ast.Name)):
                            if n.targets[0].attr in ("start", "end", "center", "prx", "pry", "control", "control1", "control2"):
                                out.add(n.targets[0].attr)
    return out


def run(ctx):
    ctx.rule("R02.1", "Point-field coverage of __imul__/__getitem__/__copy__/__eq__")
    ctx.rule("R02.2", "orientation: signed extent negated iff det < 0")
    ctx.rule("R02.3", "Point *= Matrix")
    ctx.rule("R02.8", "a subpath view is transformed in the space its path is drawn in")
    ctx.rule("R02.4", "lazy transform discipline: post-multiply, apply-then-reset, reify algebra")
    ctx.rule("R02.5", "transformed decomposition by multiplication")
    ctx.rule("R02.6", "coupled-field invariant of Arc axes")
    ctx.rule("R02.7", "each Point field of a segment owns its own Point object")
    ctx.rule("R02.9", "a transformed round shape is traversed the other way round exactly when the matrix reverses orientation (obligations shared with C06 R06.5)")
    subpath_space(ctx)
    coverage(ctx)
    orientation(ctx)
    point_imul(ctx)
    lazy(ctx)
    reify_algebra(ctx)
    transformed_decomposition(ctx)
    coupled(ctx)
    distinct_points(ctx)
    from . import c06

    c06.direction_by_determinant(ctx.renamed("R02.9"))


def coverage(ctx):
    for cname in SEGMENTS:
        fields = point_fields(ctx, cname)
        ctx.need(len(fields) >= 2, "R02.1", "%s: Point fields not recognised" % cname)
        owner = ctx.m.owner("%s.__imul__" % cname)
        fn = ctx.fn("%s.__imul__" % cname, "R02.1")
        mult = []
        bad_guard = []
        for s in ast.walk(fn):
            if isinstance(s, ast.AugAssign) and isinstance(s.op, ast.Mult) and isinstance(s.target, ast.Attribute) and isinstance(s.target.value, ast.Name) \
                    and s.target.value.id == "self" and ast.unparse(s.value) == "other":
                mult.append(s.target.attr)
                g = getattr(s, "_parent", None)
                if isinstance(g, ast.If) and ast.unparse(g.test) not in ("self.%s is not None" % s.target.attr, "isinstance(other, Matrix)"):
                    bad_guard.append("%s guarded by %s" % (s.target.attr, ast.unparse(g.test)))
        # loop form: for name in ("start", ...): setattr / getattr idiom
        for s in ast.walk(fn):
            if isinstance(s, ast.For) and isinstance(s.iter, (ast.Tuple, ast.List)) and all(isinstance(e, ast.Constant) for e in s.iter.elts):
                if any(isinstance(c, ast.Call) and isinstance(c.func, ast.Name) and c.func.id in ("getattr", "setattr") for c in ast.walk(s)):
                    mult.extend(e.value for e in s.iter.elts)
        # getattr / setattr idiom (also what a loop over the field names unrolls to): p = getattr(self, "f"); p *= other; setattr(self, "f", p)
        held = {}
        for s in stmts_in(fn.body):
            if isinstance(s, ast.Assign) and isinstance(s.targets[0], ast.Name) and isinstance(s.value, ast.Call) and call_name(s.value) == "getattr" and len(s.value.args) >= 2 \
                    and isinstance(s.value.args[0], ast.Name) and s.value.args[0].id == "self" and isinstance(s.value.args[1], ast.Constant):
                held[s.targets[0].id] = [s.value.args[1].value, False]
            elif isinstance(s, ast.Assign) and isinstance(s.targets[0], ast.Name) and isinstance(s.value, ast.Attribute) and isinstance(s.value.value, ast.Name) and s.value.value.id == "self":
                held[s.targets[0].id] = [s.value.attr, False]
            elif isinstance(s, ast.Assign) and isinstance(s.targets[0], ast.Attribute) and isinstance(s.targets[0].value, ast.Name) and s.targets[0].value.id == "self" \
                    and isinstance(s.value, ast.Name) and s.value.id in held:
                f, done = held[s.value.id]
                if f == s.targets[0].attr and done:
                    mult.append(f)
            elif isinstance(s, ast.AugAssign) and isinstance(s.op, ast.Mult) and isinstance(s.target, ast.Name) and s.target.id in held and isinstance(s.value, ast.Name) and s.value.id == "other":
                held[s.target.id][1] = True
            elif isinstance(s, ast.Expr) and isinstance(s.value, ast.Call) and call_name(s.value) == "setattr" and len(s.value.args) == 3 and isinstance(s.value.args[1], ast.Constant) \
                    and isinstance(s.value.args[2], ast.Name) and s.value.args[2].id in held:
                f, done = held[s.value.args[2].id]
                if f == s.value.args[1].value and done:
                    mult.append(f)
        ok = sorted(mult) == sorted(fields) and not bad_guard
        ctx.ob("R02.1", "%s.__imul__ (defined in %s)" % (cname, owner), ok,
               "multiplies %s; Point fields %s; %s" % (sorted(mult), sorted(fields), "; ".join(bad_guard)), fn.lineno,
               "a Point field not mapped by the matrix (or mapped twice, or skipped under a foreign guard) leaves part of the segment behind")
        gi = ctx.fn("%s.__getitem__" % cname, "R02.1")
        got = {n.attr for n in ast.walk(gi) if isinstance(n, ast.Attribute) and isinstance(n.value, ast.Name) and n.value.id == "self"}
        ctx.ob("R02.1", "%s.__getitem__" % cname, got == fields, "yields %s; Point fields %s" % (sorted(got), sorted(fields)), gi.lineno,
               "iteration over a segment's points must visit every Point field")
        ln = ctx.fn("%s.__len__" % cname, "R02.1")
        r = [s for s in ln.body if isinstance(s, ast.Return)]
        ctx.ob("R02.1", "%s.__len__" % cname, bool(r) and isinstance(r[0].value, ast.Constant) and r[0].value.value == len(fields), ast.unparse(r[0]) if r else "", ln.lineno,
               "len() must be the number of Point fields")
        cp = ctx.fn("%s.__copy__" % cname, "R02.1")
        got = {n.attr for n in ast.walk(cp) if isinstance(n, ast.Attribute) and isinstance(n.value, ast.Name) and n.value.id == "self"} - {"relative", "smooth", "__class__", "sweep"}
        ctx.ob("R02.1", "%s.__copy__" % cname, got == fields, "copies %s; Point fields %s" % (sorted(got), sorted(fields)), cp.lineno, "a copy must carry every Point field")
        eq = ctx.fn("%s.__eq__" % cname, "R02.1")
        got = {n.attr for n in ast.walk(eq) if isinstance(n, ast.Attribute) and isinstance(n.value, ast.Name) and n.value.id == "self"} - {"__class__", "sweep"}
        ctx.ob("R02.1", "%s.__eq__" % cname, got == fields, "compares %s; Point fields %s" % (sorted(got), sorted(fields)), eq.lineno, "equality must compare every Point field")


def orientation(ctx):
    fn = ctx.fn("Arc.__imul__", "R02.2")
    hits = []
    for s in ast.walk(fn):
        if isinstance(s, ast.If) and "determinant" in ast.unparse(s.test):
            hits.append(s)
    ok = False
    detail = ""
    if len(hits) == 1:
        t = hits[0].test
        detail = ast.unparse(hits[0])
        neg = isinstance(t, ast.Compare) and len(t.ops) == 1 and isinstance(t.ops[0], ast.Lt) and ast.unparse(t.left) == "other.determinant" \
            and isinstance(t.comparators[0], ast.Constant) and t.comparators[0].value == 0
        body = [ast.unparse(x).replace(" ", "") for x in hits[0].body]
        ok = neg and body in (["self.sweep=-self.sweep"], ["self.sweep*=-1"]) and not hits[0].orelse
    ctx.ob("R02.2", "Arc.__imul__[sweep]", ok, detail[:120], fn.lineno, "an orientation-reversing map reverses the direction of the arc, and only such a map does")
    rev = ctx.fn("Arc.reverse", "R02.2")
    ok = any(ast.unparse(s).replace(" ", "") in ("self.sweep=-self.sweep", "self.sweep*=-1") for s in rev.body)
    ctx.ob("R02.2", "Arc.reverse[sweep]", ok, "", rev.lineno, "reversal negates the sweep")


def point_imul(ctx):
    fn = ctx.fn("Point.__imul__", "R02.3")
    ok = False
    for s in fn.body:
        if isinstance(s, ast.If) and ast.unparse(s.test) == "isinstance(other, Matrix)":
            src = [ast.unparse(x) for x in s.body]
            v = [x for x in s.body if isinstance(x, ast.Assign) and isinstance(x.value, ast.Call) and ast.unparse(x.value.func) == "other.point_in_matrix_space"
                 and ast.unparse(x.value.args[0]) == "self"]
            if v:
                name = v[0].targets[0].id
                ok = "self.x = %s.x" % name in src and "self.y = %s.y" % name in src and src[-1] == "return self"
    ctx.ob("R02.3", "Point.__imul__[Matrix]", ok, "", fn.lineno, "point *= matrix must store the image (x from x, y from y)")


def _copy_of_self(n):
    return isinstance(n, ast.Call) and ((call_name(n) == "copy" and n.args and isinstance(n.args[0], ast.Name) and n.args[0].id == "self")
                                        or attr_chain(n.func) == ["self", "__copy__"])


def lazy(ctx):
    # the decompositions skip the multiplication when transform.is_identity(): that test is part of "X*M is the M-image"
    from .c04 import identity_test

    identity_test(ctx, "R02.4")
    fn = ctx.fn("Transformable.__imul__", "R02.4")
    other = fn.args.args[1].arg
    aug = [s for s in ast.walk(fn) if isinstance(s, ast.AugAssign)]
    ok = len(aug) == 1 and attr_chain(aug[0].target) == ["self", "transform"] and isinstance(aug[0].op, (ast.Mult, ast.MatMult)) and isinstance(aug[0].value, ast.Name) and aug[0].value.id == other
    ctx.ob("R02.4", "Transformable.__imul__", ok, "; ".join(ast.unparse(a) for a in aug), fn.lineno,
           "X *= M post-multiplies the pending transform, so (X*A)*B = X*(A*B)")
    fn = ctx.fn("Transformable.__mul__", "R02.4")
    other = fn.args.args[1].arg
    pth = follow(ctx, "R02.4", fn, {other: "Matrix"})
    t = Taint(pth.stmts, _copy_of_self, through_containers=False)
    muls = [x for x in pth.stmts if isinstance(x, ast.AugAssign) and isinstance(x.op, (ast.Mult, ast.MatMult)) and isinstance(x.target, ast.Name) and x.target.id in t.names
            and isinstance(x.value, ast.Name) and x.value.id == other]
    ok = bool(muls) and pth.exit == "return" and isinstance(pth.value, ast.Name) and pth.value.id in t.names
    ctx.ob("R02.4", "Transformable.__mul__", ok, "; ".join(ast.unparse(x)[:50] for x in pth.stmts)[:160], fn.lineno, "X * M works on a copy")
    fn = ctx.fn("Transformable.__abs__", "R02.4")
    t = Taint(fn, _copy_of_self, through_containers=False)
    reifies = [c for c in ast.walk(fn) if isinstance(c, ast.Call) and isinstance(c.func, ast.Attribute) and c.func.attr == "reify" and isinstance(c.func.value, ast.Name) and c.func.value.id in t.names]
    rets = [r for r in ast.walk(fn) if isinstance(r, ast.Return)]
    ok = bool(reifies) and bool(rets) and all(isinstance(r.value, ast.Name) and r.value.id in t.names for r in rets)
    ctx.ob("R02.4", "Transformable.__abs__", ok, "", fn.lineno, "abs(X) reifies a copy")
    # apply-then-reset
    for qual, target_pred in (("Path.reify", ["self", "_segments"]), ("_Polyshape.reify", ["self"]), ("SimpleLine.reify", None)):
        fn = ctx.fn(qual, "R02.4")
        body = [x for x in fn.body if not (isinstance(x, ast.Expr) and isinstance(x.value, ast.Constant))]
        mats = set()
        for tg, v, n in bindings(fn):
            if isinstance(tg, ast.Name) and attr_chain(v) == ["self", "transform"]:
                mats.add(tg.id)

        def is_mat(n):
            return attr_chain(n) == ["self", "transform"] or (isinstance(n, ast.Name) and n.id in mats)

        resets = [c for c in ast.walk(fn) if isinstance(c, ast.Call) and isinstance(c.func, ast.Attribute) and c.func.attr == "reset" and is_mat(c.func.value)]
        applied = [n for n in ast.walk(fn) if (isinstance(n, ast.AugAssign) and isinstance(n.op, ast.Mult) and is_mat(n.value))
                   or (isinstance(n, ast.BinOp) and isinstance(n.op, ast.Mult) and is_mat(n.right) and not is_mat(n.left))]
        top_reset = [x for x in body if isinstance(x, ast.Expr) and any(x.value is c for c in resets)]
        ok = len(resets) == 1 and len(top_reset) == 1 and bool(applied) and max(a.lineno for a in applied) < resets[0].lineno
        detail = "applied at lines %s, reset at %s" % ([a.lineno for a in applied], [c.lineno for c in resets])
        if target_pred is not None:
            loops = [x for x in ast.walk(fn) if isinstance(x, ast.For)]
            okl = len(loops) == 1 and (attr_chain(loops[0].iter) == target_pred or (isinstance(loops[0].iter, ast.Name) and loops[0].iter.id == "self" and target_pred == ["self"])) \
                and isinstance(loops[0].target, ast.Name) and any(isinstance(a.target, ast.Name) and a.target.id == loops[0].target.id and any(a is y for y in ast.walk(loops[0])) for a in applied)
            ok = ok and okl
        else:
            # both end points: every coordinate attribute is replaced by the matching coordinate of the transformed end point
            state = {}
            stores = {}
            for x in stmts_in(fn.body):
                if isinstance(x, ast.Assign) and len(x.targets) == 1:
                    pairs = list(zip(x.targets[0].elts, x.value.elts)) if isinstance(x.targets[0], ast.Tuple) and isinstance(x.value, ast.Tuple) and len(x.targets[0].elts) == len(x.value.elts) else [(x.targets[0], x.value)]
                    for tg, v in pairs:
                        mapped = False
                        if isinstance(v, ast.BinOp) and isinstance(v.op, ast.Mult) and is_mat(v.right):
                            v, mapped = v.left, True  # Point(a, b) * M: built and mapped in one expression
                        if isinstance(tg, ast.Name) and call_name(v) == "Point" and len(v.args) == 2:
                            a0, a1 = attr_chain(v.args[0]), attr_chain(v.args[1])
                            state[tg.id] = ("pt", (a0 or ["?"])[-1], (a1 or ["?"])[-1], mapped)
                        elif isinstance(tg, ast.Attribute) and attr_chain(tg) and attr_chain(tg)[0] == "self" and isinstance(v, ast.Attribute) and isinstance(v.value, ast.Name) and v.value.id in state:
                            stores[attr_chain(tg)[1]] = (state[v.value.id], v.attr, x.lineno)
                elif isinstance(x, ast.AugAssign) and isinstance(x.op, ast.Mult) and isinstance(x.target, ast.Name) and x.target.id in state and is_mat(x.value):
                    st = state[x.target.id]
                    state[x.target.id] = (st[0], st[1], st[2], True)
            want = {"x1": ("x1", "y1", "x"), "y1": ("x1", "y1", "y"), "x2": ("x2", "y2", "x"), "y2": ("x2", "y2", "y")}
            okp = set(stores) >= set(want)
            for f, (fx, fy, comp) in want.items():
                if f in stores:
                    (kind, sx, sy, done), attr, ln = stores[f]
                    okp = okp and sx == fx and sy == fy and done and attr == comp and (not resets or ln < resets[0].lineno)
            ok = ok and okp
            detail += "; stores %s" % {k: (v[0][1:], v[1]) for k, v in stores.items()}
        calls = {".".join(attr_chain(c.func) or []) for c in ast.walk(fn) if isinstance(c, ast.Call)}
        ok = ok and "GraphicObject.reify" in calls and "Transformable.reify" in calls
        ctx.ob("R02.4", qual, ok, detail[:200], fn.lineno,
               "reify must map every stored point by the pending transform and then (and only then) reset it; stroke width and caches are handled by the base reify calls")


def reify_algebra(ctx):
    """Rect/_RoundShape.reify: evaluate the guarded block as straight-line code over a symbolic no-skew matrix."""
    mul = MS.multiply_formula(ctx, "R02.4")
    for qual, fields_x, fields_y in (("Rect.reify", ["x", "width", "rx"], ["y", "height", "ry"]), ("_RoundShape.reify", ["cx", "rx"], ["cy", "ry"])):
        fn = ctx.fn(qual, "R02.4")
        T = [atom("T.a"), const(0), const(0), atom("T.d"), atom("T.e"), atom("T.f")]
        alg = Alg()
        state = {"T": list(T)}
        guard = None
        block = None

        def noskew_leaf(n):
            # the reifiable case: both skews are zero, both scales are non-zero
            if isinstance(n, ast.Compare) and len(n.ops) == 1 and isinstance(n.comparators[0], ast.Constant) and n.comparators[0].value == 0:
                if isinstance(n.ops[0], ast.Eq):
                    return any(isinstance(c, ast.Attribute) and c.attr.startswith("value_skew") for c in ast.walk(n.left))
                if isinstance(n.ops[0], ast.NotEq):
                    return not any(isinstance(c, ast.Attribute) and c.attr.startswith("value_skew") for c in ast.walk(n.left))
                if isinstance(n.ops[0], (ast.Gt, ast.GtE)) and not any(isinstance(c, ast.Attribute) and c.attr.startswith("value_skew") for c in ast.walk(n.left)):
                    return True  # a scale of the reifiable case is positive
                if isinstance(n.ops[0], (ast.Lt, ast.LtE)) and not any(isinstance(c, ast.Attribute) and c.attr.startswith("value_skew") for c in ast.walk(n.left)):
                    return False
            return None

        # the guard that admits only skew-free matrices: it has to look at BOTH off-diagonal entries
        skew_ifs = [s_ for s_ in fn.body if isinstance(s_, ast.If) and any(isinstance(c, ast.Attribute) and c.attr.startswith("value_skew") for c in ast.walk(s_.test))]
        names_ = {}
        for st_ in fn.body:
            if isinstance(st_, ast.Assign) and len(st_.targets) == 1 and isinstance(st_.targets[0], ast.Name) and isinstance(st_.value, ast.Call):
                ch_ = attr_chain(st_.value.func)
                if ch_ and ch_[-1].startswith("value_skew"):
                    names_[st_.targets[0].id] = ch_[-1]
        if not skew_ifs:
            skew_ifs = [s_ for s_ in fn.body if isinstance(s_, ast.If) and any(isinstance(c, ast.Name) and c.id in names_ for c in ast.walk(s_.test))]
        if skew_ifs:
            tested = {c.attr for c in ast.walk(skew_ifs[0].test) if isinstance(c, ast.Attribute) and c.attr.startswith("value_skew")} | \
                {names_[c.id] for c in ast.walk(skew_ifs[0].test) if isinstance(c, ast.Name) and c.id in names_}
            ctx.ob("R02.4", "%s[guard looks at both skew entries]" % qual, tested >= {"value_skew_x", "value_skew_y"}, "tests %s" % sorted(tested), skew_ifs[0].lineno,
                   "folding scale and translation into the attributes is only the matrix image when b = c = 0; a guard that tests one of them lets a sheared shape through")
            if not tested >= {"value_skew_x", "value_skew_y"}:
                continue
        for i_, s in enumerate(fn.body):
            if isinstance(s, ast.If) and {c.attr for c in ast.walk(s.test) if isinstance(c, ast.Attribute)} >= {"value_skew_x", "value_skew_y"}:
                from ..segeval import boolean as _boolean
                truth = _boolean(s.test, noskew_leaf)
                ctx.need(truth is not None, "R02.4", "%s: no-skew guard not decided: %s" % (qual, ast.unparse(s.test)[:80]))
                guard = s
                if truth:
                    block = s.body
                else:
                    # guard clause: the reifiable case continues after the statement
                    ctx.need(s.body and isinstance(s.body[-1], ast.Return), "R02.4", "%s: negated guard does not leave the function" % qual)
                    block = list(s.orelse) + [x for x in fn.body[i_ + 1:]]
        ctx.need(guard is not None, "R02.4", "%s: no-skew guard not found" % qual)
        # a negative scale on either axis must leave the shape alone: folding it stores negative sizes/radii (scale(-1,-1) has a
        # positive product).  The early exits before the no-skew block are evaluated for the three sign patterns.
        names = {}
        for st in fn.body:
            if isinstance(st, ast.Assign) and len(st.targets) == 1 and isinstance(st.targets[0], ast.Name) and isinstance(st.value, ast.Call):
                ch = attr_chain(st.value.func)
                if ch and ch[-1] in ("value_scale_x", "value_scale_y"):
                    names[st.targets[0].id] = ch[-1][-1]
        exits = [st for st in fn.body[:fn.body.index(guard)] if isinstance(st, ast.If) and st.body and isinstance(st.body[-1], ast.Return)]
        for sx, sy in ((-1.0, 1.0), (1.0, -1.0), (-1.0, -1.0)):
            refused = False
            undecided = False
            for st in exits:
                env = {n: (sx if ax == "x" else sy) for n, ax in names.items()}
                free = {x.id for x in ast.walk(st.test) if isinstance(x, ast.Name)} - set(env)
                if free:
                    continue
                # constant folding of a pure arithmetic/comparison expression over the two named scales (nothing of the module runs)
                if not all(isinstance(x, (ast.Expression, ast.BoolOp, ast.And, ast.Or, ast.Not, ast.UnaryOp, ast.USub, ast.BinOp, ast.Mult, ast.Add, ast.Sub, ast.Compare, ast.Lt, ast.LtE, ast.Gt,
                                          ast.GtE, ast.Eq, ast.NotEq, ast.Name, ast.Load, ast.Constant)) for x in ast.walk(st.test)):
                    undecided = True
                    continue
                try:
                    refused = refused or bool(eval(compile(ast.Expression(body=fresh(st.test)), "<guard>", "eval"), {"__builtins__": {"abs": abs, "min": min, "max": max}}, env))
                except Exception:
                    undecided = True
            # the no-skew guard itself may carry the sign condition (`... and scale_x > 0 and scale_y > 0`): evaluate it with
            # both skews zero and the two scales of the scenario
            if not refused:
                class _Skew(ast.NodeTransformer):
                    def visit_Compare(self, n):
                        if any(isinstance(c, ast.Attribute) and c.attr.startswith("value_skew") for c in ast.walk(n)):
                            return ast.copy_location(ast.Constant(value=isinstance(n.ops[0], ast.Eq)), n)
                        return n

                gt = _Skew().visit(fresh(guard.test))
                env = {n: (sx if ax == "x" else sy) for n, ax in names.items()}
                free = {x.id for x in ast.walk(gt) if isinstance(x, ast.Name)} - set(env)
                if not free and all(isinstance(x, (ast.Expression, ast.BoolOp, ast.And, ast.Or, ast.Not, ast.UnaryOp, ast.USub, ast.BinOp, ast.Mult, ast.Add, ast.Sub, ast.Compare, ast.Lt, ast.LtE,
                                                   ast.Gt, ast.GtE, ast.Eq, ast.NotEq, ast.Name, ast.Load, ast.Constant)) for x in ast.walk(gt)):
                    try:
                        accepts = bool(eval(compile(ast.fix_missing_locations(ast.Expression(body=gt)), "<guard>", "eval"), {"__builtins__": {}}, env))
                        truth_ = _boolean(guard.test, noskew_leaf)
                        refused = (not accepts) if truth_ else accepts
                    except Exception:
                        pass
            ctx.need(not undecided, "R02.4", "%s: sign guard not evaluated" % qual)
            ctx.ob("R02.4", "%s[negative scale (%+d, %+d) is not folded]" % (qual, sx, sy), refused, "early exits: %s" % "; ".join(ast.unparse(st.test)[:50] for st in exits), fn.lineno,
                   "folding a negative scale into the attributes stores negative width/height/radii: scale(-1,-1) passes a test on the product of the two scales")
        # compute-then-commit: `try: <locals> except ...: return self` before anything of self is written - the exceptional exit
        # leaves the shape as it was, the normal path is the try body followed by the rest
        flat = []
        wrote_self = False
        for x in block:
            if isinstance(x, ast.Try) and not x.finalbody and not x.orelse and not wrote_self \
                    and all(len(h.body) == 1 and isinstance(h.body[0], ast.Return) and isinstance(h.body[0].value, ast.Name) and h.body[0].value.id == "self" for h in x.handlers) \
                    and all(isinstance(y, ast.Assign) and all(isinstance(t, ast.Name) for t in y.targets) for y in x.body):
                flat.extend(x.body)
                continue
            if any(isinstance(n, ast.Attribute) and isinstance(n.ctx, ast.Store) and attr_chain(n) and attr_chain(n)[0] == "self" for n in ast.walk(x)) \
                    or (isinstance(x, ast.Expr) and isinstance(x.value, ast.Call)):
                wrote_self = True
            flat.append(x)
        block = flat
        block = [x for x in block if not (isinstance(x, ast.Return) and (x.value is None or (isinstance(x.value, ast.Name) and x.value.id == "self")))]
        acc = {"value_scale_x": 0, "value_skew_x": 1, "value_skew_y": 2, "value_scale_y": 3, "value_trans_x": 4, "value_trans_y": 5}
        # accessor semantics are read from Matrix
        for name, idx in acc.items():
            f = ctx.m.func("Matrix.%s" % name)
            r = [x for x in f.body if isinstance(x, ast.Return)][0]
            fld = [n.attr for n in ast.walk(r) if isinstance(n, ast.Attribute)][0]
            ctx.need(fld == MS.F6[idx], "R02.4", "Matrix.%s reads %s" % (name, fld))

        def hook(a, node):
            ch = attr_chain(node.func)
            if ch and ch[:2] == ["self", "transform"] and len(ch) == 3 and ch[2] in acc:
                return state["T"][acc[ch[2]]]
            return None

        alg.call_hook = hook
        pre = [s for s in fn.body if s is not guard and isinstance(s, ast.Assign) and not any(s is x for x in block)]
        try:
            for s in pre:
                alg.assign(s)
            for s in block:
                if isinstance(s, ast.Expr):
                    continue
                if isinstance(s, ast.AugAssign) and ast.unparse(s.target) == "self.transform":
                    cn = call_name(s.value)
                    ctx.need(cn in ("Matrix.translate", "Matrix.scale") and isinstance(s.op, (ast.Mult, ast.MatMult)), "R02.4", "%s: transform update %s not interpreted" % (qual, ast.unparse(s)))
                    params = [alg.ev(a) for a in s.value.args]
                    E = MS.elementary(ctx, "R02.4", cn.split(".")[1], params)
                    state["T"] = mul(state["T"], E)
                    continue
                if isinstance(s, ast.AugAssign) and isinstance(s.target, ast.Attribute):
                    cur = alg.ev(s.target)
                    val = alg.ev(s.value)
                    new = {ast.Mult: cur * val, ast.Add: cur + val, ast.Sub: cur - val}.get(type(s.op))
                    ctx.need(new is not None, "R02.4", "%s: operator in %s" % (qual, ast.unparse(s)))
                    alg.atom_map[ast.unparse(s.target)] = new
                    continue
                if not alg.assign(s):
                    raise Uninterpreted(ast.unparse(s))
        except Uninterpreted as e:
            raise AnalysisError("R02.4", "%s: %s" % (qual, e))
        ok_T = MS.eq6(state["T"], MS.IDENT)
        ctx.ob("R02.4", "%s[transform becomes identity]" % qual, ok_T, "; ".join(str(c) for c in state["T"]), guard.lineno,
               "after reifying a scale+translate the pending transform must be the identity")
        for f in fields_x + fields_y:
            got = alg.atom_map.get("self.%s" % f, atom("self.%s" % f))
            sc = atom("T.a") if f in fields_x else atom("T.d")
            tr = (atom("T.e") if f in fields_x else atom("T.f")) if f in ("x", "y", "cx", "cy") else const(0)
            want = sc * atom("self.%s" % f) + tr
            ctx.ob("R02.4", "%s[%s]" % (qual, f), got == want, "%s vs %s" % (got, want), guard.lineno, "attribute is not the image under the scale+translate being reified")


def transformed_decomposition(ctx):
    classes = ["Rect", "_RoundShape", "SimpleLine", "_Polyshape", "Path", "Subpath"]
    for cname in classes:
        fn = ctx.fn("%s.segments" % cname, "R02.5")
        src = ast.unparse(fn)
        scalar = sorted({n.attr for n in ast.walk(fn) if isinstance(n, ast.Attribute) and isinstance(n.value, ast.Name) and n.value.id == "self"
                         and (n.attr.startswith("implicit_") or n.attr == "rotation")})
        mult = any(isinstance(n, ast.BinOp) and isinstance(n.op, ast.Mult) and ast.unparse(n.right).endswith(".transform") for n in ast.walk(fn)) \
            or any(isinstance(n, ast.AugAssign) and isinstance(n.op, ast.Mult) and ast.unparse(n.value).endswith(".transform") for n in ast.walk(fn)) \
            or "transform.point_in_matrix_space" in src
        ctx.ob("R02.5", "%s.segments" % cname, mult and not scalar, "scalar quantities derived from the matrix: %s; applies matrix to points/segments: %s" % (scalar, mult), fn.lineno,
               "a decomposition rebuilt from radii/rotation read off the matrix is exact only for similarity-like matrices; under shear or "
               "rotated anisotropic scale the transformed shape is wrong")


def coupled(ctx):
    cls = ctx.m.cls("Arc", "R02.6")
    rot = ctx.fn("Arc.get_rotation", "R02.6")
    rot_reads = {n.attr for n in ast.walk(rot) if isinstance(n, ast.Attribute) and isinstance(n.value, ast.Name) and n.value.id == "self"}
    pt = ctx.fn("Arc.point_at_t", "R02.6")
    pt_reads = {n.attr for n in ast.walk(pt) if isinstance(n, ast.Attribute) and isinstance(n.value, ast.Name) and n.value.id == "self"}
    ry = cls.getters.get("ry")
    ctx.need(ry is not None, "R02.6", "Arc.ry not found")
    ry_src = ast.unparse(ry)
    orthogonal_model = "pry" not in rot_reads and "pry" not in pt_reads and "distance" in ry_src and "get_rotation" in pt_reads
    fn = ctx.fn("Arc.__imul__", "R02.6")
    stmts = list(stmts_in(fn.body))
    upd = [i for i, s in enumerate(stmts) if isinstance(s, ast.AugAssign) and ast.unparse(s.target) in ("self.prx", "self.pry") and ast.unparse(s.value) == "other"]
    renorm = False
    if upd:
        for s in stmts[max(upd) + 1:]:
            names = {ast.unparse(n) for n in ast.walk(s) if isinstance(n, ast.Attribute)}
            if "self.prx" in names and "self.pry" in names:
                renorm = True
            if isinstance(s, ast.Expr) and isinstance(s.value, ast.Call) and isinstance(s.value.func, ast.Attribute) and isinstance(s.value.func.value, ast.Name) \
                    and s.value.func.value.id == "self" and s.value.func.attr in cls.methods:
                callee = cls.methods[s.value.func.attr]
                cn = {ast.unparse(n) for n in ast.walk(callee) if isinstance(n, ast.Attribute)}
                if "self.prx" in cn and "self.pry" in cn:
                    renorm = True
    ok = (not orthogonal_model) or (not upd) or renorm
    ctx.ob("R02.6", "Arc.__imul__[axis points]", ok,
           "evaluators use one axis vector for the rotation and lengths for the radii: %s; axis points mapped independently: %s; joint re-normalisation: %s" % (orthogonal_model, bool(upd), renorm),
           fn.lineno,
           "prx/pry are evaluated as ORTHOGONAL semi-axis end points; a shear or rotated anisotropic scale maps them to conjugate (non-orthogonal) "
           "diameters, so every interior point of the transformed arc is off the true image")


POINT_FIELDS = ("start", "end", "control", "control1", "control2", "center", "prx", "pry")


def distinct_points(ctx):
    """__imul__ maps every Point field in place, once.  If two fields hold the same Point object the object is mapped
    twice (and the 'once' of R02.1 is false).  So wherever a segment class assigns its Point fields, every field must get
    its own object: a Point(...) construction, or a local bound to one that feeds exactly one field."""
    n = 0
    for cname in SEGMENTS + ["Curve", "Linear"]:
        ci = ctx.m.classes.get(cname)
        if ci is None:
            continue
        for mname, fn in ci.methods.items():
            if mname in ("__imul__", "reverse", "__copy__", "__eq__", "__getitem__"):
                continue
            assigns = []  # (fields, value node, line)
            for st in ast.walk(fn):
                if isinstance(st, ast.Assign):
                    flds = []
                    for t in st.targets:
                        for tt in (t.elts if isinstance(t, ast.Tuple) else [t]):
                            if isinstance(tt, ast.Attribute) and isinstance(tt.value, ast.Name) and tt.value.id == "self" and tt.attr in POINT_FIELDS:
                                flds.append(tt.attr)
                    if flds:
                        assigns.append((flds, st.value, st.lineno))
            if not assigns:
                continue
            bad = []
            used_locals = {}
            for flds, v, line in assigns:
                if len(flds) > 1 and not isinstance(v, ast.Tuple):
                    bad.append("fields %s assigned one object (line %d)" % (flds, line))
                    continue
                if isinstance(v, ast.Name):
                    # a local: must itself be bound to a fresh Point and feed one field only
                    used_locals.setdefault(v.id, []).append((flds[0], line))
                elif isinstance(v, ast.Attribute) and isinstance(v.value, ast.Name) and v.value.id == "self" and v.attr in POINT_FIELDS and mname != "reverse":
                    bad.append("self.%s = self.%s shares the object (line %d)" % (flds[0], v.attr, line))
            for nm, uses in used_locals.items():
                flds_u = sorted({f for f, _ in uses})
                if len(flds_u) > 1:
                    bad.append("local %s stored in fields %s" % (nm, flds_u))
            n += 1
            ctx.ob("R02.7", "%s.%s[field objects]" % (cname, mname), not bad, "; ".join(bad) or "%d point-field assignments, each its own object" % len(assigns), fn.lineno,
                   "two Point fields of one segment share an object: an in-place matrix multiplication (arc *= M, path.reify()) maps that point more than once")
    ctx.need(n >= 6, "R02.7", "too few field-assigning methods found (%d)" % n)


def subpath_space(ctx):
    """`subpath *= M` multiplies the stored segments of the backing path.  A path may carry a pending transform T (lazy
    transforms, R02.4); the geometry drawn is T(p).  Multiplying the stored points gives T(M(p)), not M(T(p)): the view has to
    reify the path first, or conjugate M with T, or refuse - in any case it has to look at the path's transform."""
    fn = ctx.fn("Subpath.__imul__", "R02.8")
    consults = any(isinstance(n, ast.Attribute) and n.attr == "transform" and attr_chain(n) and attr_chain(n)[:2] == ["self", "_path"] for n in ast.walk(fn)) \
        or any(isinstance(c, ast.Call) and isinstance(c.func, ast.Attribute) and c.func.attr == "reify" for c in ast.walk(fn))
    applies = any(isinstance(n, ast.AugAssign) and isinstance(n.op, ast.Mult) for n in ast.walk(fn))
    ctx.need(applies, "R02.8", "Subpath.__imul__: multiplication of the segments not found")
    ctx.ob("R02.8", "Subpath.__imul__[pending transform of the path]", consults, "the function never reads self._path.transform", fn.lineno,
           "with a pending path transform T the drawn geometry becomes T(M(p)) instead of M(T(p))")
