"""C16 - reverse() traces the same geometry backwards and is an involution."""
import ast

from .. import cachecoh
from ..algebra import Alg, Uninterpreted, atom, const
from ..flow import Aliases, Taint, bindings, names, split_tuple_assign, strip_list
from ..model import AnalysisError, attr_chain, call_name, stmts_in

EXPLANATION = (
    "Static rules (no execution). R16.1 per-class reversal: the base reverse swaps start and end; a class with two ordered "
    "control fields swaps them; a class with a signed extent negates it; every override calls the base; classes with one "
    "(symmetric) control need no override. R16.2 order: Path.reverse reverses each subpath and re-assembles them in "
    "reversed order, keeps the first segment's start, and returns itself; Subpath.reverse keeps a leading Move and a "
    "trailing Close in place, re-links the Move to the new first segment and the Close to the new last end and subpath "
    "start. R16.3 window confinement: writes issued by Subpath methods through the backing path must address path "
    "indices inside [_start, _end] (small interval analysis over the index arguments). R16.4 cache coherence: shared "
    "with C15 (reverse paths invalidate the cached lengths). Not decided: index arithmetic for all window shapes, "
    "involution and connectivity of the result (history/value dependent)."
    ' The per-class effect is computed on every path through reverse(): an `if` forks the symbolic state and'
    ' each path must be a reversal (an early return that skips the exchange or the negation of the sweep is'
    ' reported with its condition).'
    ' R16.2: the forward scan of Path._validate_subpath (used when reverse re-assembles the subpaths) leaves at'
    ' the first Move, before its Close case.'
)
TECHNIQUE = (
    "static analysis (no execution): field effects of every reverse() evaluated symbolically (swap/negate); alias-aware structural rules for reversal order and re-linking; window confinement of validator indices; cache coherence"
)
ASSUMPTIONS = [
    "Window confinement is decided for the index expressions passed to the backing path's validators; element writes through Subpath.__getitem__ use _numeric_index, whose range is not bounded statically (negative indices) and is reported as not decided.",
]
FLOORS = {"R16.1": 6, "R16.2": 6, "R16.3": 2, "R16.5": 3}

SEGMENTS = ["Move", "Line", "Close", "QuadraticBezier", "CubicBezier", "Arc"]


def run(ctx):
    ctx.rule("R16.1", "per-class reversal completeness")
    ctx.rule("R16.2", "order of subpaths and fixed Move/Close positions")
    ctx.rule("R16.3", "window confinement of subpath writes")
    ctx.rule("R16.4", "cache coherence of reversal")
    ctx.rule("R16.5", "reversal does not assume that a (sub)path begins with its own Move")
    per_class(ctx)
    order(ctx)
    window(ctx)
    moveless(ctx)
    subpath_scan(ctx)
    pinfo, sinfo, inv = cachecoh.invalidating(ctx)
    for cname, name in (("Path", "reverse"), ("Subpath", "reverse"), ("Subpath", "_reverse_segments")):
        ctx.ob("R16.4", "%s.%s" % (cname, name), (cname, name) in inv, "", 0, "reversal changes every fraction of the path: the cached lengths must be dropped")


def field_effect(ctx, cname, depth=0):
    """Final value of every self.<field> after <cname>.reverse(), as canonical forms over the initial values (atom '<field>0'),
    for every path through the method: [(condition text, {field: value})]."""
    fn = ctx.fn("%s.reverse" % cname, "R16.1")
    owner = ctx.m.owner("%s.reverse" % cname)
    fields = set(ctx.m.cls(cname).self_fields())
    for c in ctx.m.mro(cname):
        fields |= set(ctx.m.classes[c].self_fields())
    alg = Alg()
    for f in fields:
        alg.atom_map["self.%s" % f] = atom("%s0" % f)
    paths = run_reverse(ctx, fn.body, owner, [(alg, [], False)], 0)
    return [(" and ".join(conds) or "always", {f: a.atom_map.get("self.%s" % f) for f in fields}) for a, conds, _ in paths], fn, owner


def run_reverse(ctx, stmts, owner, states, depth):
    """states: [(alg, [condition text], returned)] - every statement is applied to every state still running; an `if` forks"""
    import copy as _copy

    for st in stmts:
        live = [x for x in states if not x[2]]
        if not live:
            break
        if isinstance(st, ast.Expr) and isinstance(st.value, ast.Constant):
            continue
        if isinstance(st, ast.If):
            out = [x for x in states if x[2]]
            t = ast.unparse(st.test)[:60]
            for alg, conds, _ in live:
                a2 = _copy.deepcopy(alg)
                out += run_reverse(ctx, st.body, owner, [(alg, conds + [t], False)], depth)
                out += run_reverse(ctx, st.orelse, owner, [(a2, conds + ["not (%s)" % t], False)], depth)
            states = out
            ctx.need(len(states) <= 16, "R16.1", "%s.reverse: too many paths" % owner)
            continue
        if isinstance(st, ast.Expr) and isinstance(st.value, ast.Call):
            c = st.value
            ch = attr_chain(c.func)
            base = None
            if ch and len(ch) == 2 and ch[1] == "reverse" and ch[0] in ctx.m.classes and c.args and isinstance(c.args[0], ast.Name) and c.args[0].id == "self":
                base = ch[0]
            elif isinstance(c.func, ast.Attribute) and c.func.attr == "reverse" and isinstance(c.func.value, ast.Call) and call_name(c.func.value) == "super":
                mro = ctx.m.mro(owner)
                base = next((k for k in mro[1:] if "reverse" in ctx.m.classes[k].methods), None)
            if base is not None and depth < 3:
                done = [x for x in states if x[2]]
                sub = run_reverse(ctx, ctx.m.classes[base].methods["reverse"].body, base, [(a, cs, False) for a, cs, _ in live], depth + 1)
                states = done + [(a, cs, False) for a, cs, _ in sub]  # the callee's return ends the callee only
                continue
            raise AnalysisError("R16.1", "%s.reverse: call not interpreted: %s" % (owner, ast.unparse(st)[:60]))
        if isinstance(st, (ast.Assign, ast.AugAssign)):
            for alg, conds, _ in live:
                try:
                    if isinstance(st, ast.AugAssign) and isinstance(st.target, ast.Attribute):
                        k = ".".join(attr_chain(st.target))
                        cur, val = alg.ev(st.target), alg.ev(st.value)
                        new = cur * val if isinstance(st.op, ast.Mult) else cur + val if isinstance(st.op, ast.Add) else cur - val if isinstance(st.op, ast.Sub) else None
                        if new is None:
                            raise Uninterpreted("operator")
                        alg.atom_map[k] = new
                        continue
                    if not alg.assign(st):
                        raise Uninterpreted("assignment form")
                except Uninterpreted as e:
                    raise AnalysisError("R16.1", "%s.reverse: %s not interpreted (%s)" % (owner, ast.unparse(st)[:60], e))
            continue
        if isinstance(st, ast.Return) and (st.value is None or (isinstance(st.value, ast.Name) and st.value.id == "self")):
            states = [(a, cs, True) for a, cs, _ in states]
            continue
        if isinstance(st, ast.Pass):
            continue
        raise AnalysisError("R16.1", "%s.reverse: statement kind %s not interpreted" % (owner, type(st).__name__))
    return states


def per_class(ctx):
    effs, base, _ = field_effect(ctx, "PathSegment")
    ok = all(eff.get("start") == atom("end0") and eff.get("end") == atom("start0") for _, eff in effs)
    ctx.ob("R16.1", "PathSegment.reverse", ok, "; ".join("%s: start <- %s, end <- %s" % (c, eff.get("start"), eff.get("end")) for c, eff in effs), base.lineno, "reversal exchanges start and end")
    from .c02 import point_fields

    for cname in SEGMENTS:
        fields = point_fields(ctx, cname)
        controls = sorted(f for f in fields if f.startswith("control"))
        effs, fn, owner = field_effect(ctx, cname)
        ok_all = True
        details = []
        for cond, eff in effs:
            ok = eff.get("start") == atom("end0") and eff.get("end") == atom("start0")
            detail = ", ".join("%s <- %s" % (f, eff[f]) for f in sorted(eff) if eff[f] is not None and eff[f] != atom("%s0" % f))
            if len(controls) == 2:
                c1, c2 = controls
                ok = ok and eff.get(c1) == atom("%s0" % c2) and eff.get(c2) == atom("%s0" % c1)
            elif len(controls) == 1:
                ok = ok and eff.get(controls[0]) == atom("%s0" % controls[0])
            if "sweep" in eff:
                ok = ok and eff.get("sweep") == -atom("sweep0")
            for f in fields:
                if f not in ("start", "end") and not f.startswith("control") and f in eff and eff[f] is not None:
                    ok = ok and eff[f] == atom("%s0" % f)
            ok_all = ok_all and ok
            details.append(("" if cond == "always" else "when %s: " % cond) + (detail or "nothing changes") + ("" if ok else " [not a reversal]"))
        ctx.ob("R16.1", "%s.reverse" % cname, ok_all, "defined in %s: " % owner + " | ".join(details), fn.lineno,
               "reversal must exchange start/end (base), exchange ordered control points, and negate a signed extent - on every path through the method")


def order(ctx):
    fn = ctx.fn("Path.reverse", "R16.2")
    al = Aliases(fn)
    loops = [x for x in fn.body if isinstance(x, ast.For)]
    ctx.need(len(loops) == 2, "R16.2", "Path.reverse: two loops expected")
    l1, l2 = loops
    sp_var = None
    for tg, v, n in bindings(fn):
        if isinstance(tg, ast.Name) and any(isinstance(c, ast.Call) and attr_chain(c.func) == ["self", "as_subpaths"] for c in ast.walk(v)):
            sp_var = tg.id
    ctx.need(sp_var is not None, "R16.2", "Path.reverse: subpath list not found")
    it1 = strip_list(l1.iter)
    ok1 = isinstance(it1, ast.Name) and it1.id == sp_var and isinstance(l1.target, ast.Name) and len(l1.body) == 1 and isinstance(l1.body[0], ast.Expr) \
        and isinstance(l1.body[0].value, ast.Call) and attr_chain(l1.body[0].value.func) == [l1.target.id, "reverse"]
    ctx.ob("R16.2", "Path.reverse[each subpath reversed]", ok1, ast.unparse(l1)[:80], l1.lineno, "every subpath is reversed in place")
    it2 = l2.iter
    rev = (isinstance(it2, ast.Call) and call_name(it2) == "reversed" and len(it2.args) == 1 and isinstance(strip_list(it2.args[0]), ast.Name) and strip_list(it2.args[0]).id == sp_var) \
        or (isinstance(it2, ast.Subscript) and isinstance(it2.value, ast.Name) and it2.value.id == sp_var and isinstance(it2.slice, ast.Slice) and it2.slice.lower is None and it2.slice.upper is None
            and isinstance(it2.slice.step, ast.UnaryOp) and isinstance(it2.slice.step.op, ast.USub) and isinstance(it2.slice.step.operand, ast.Constant) and it2.slice.step.operand.value == 1)
    acc = None
    okb = False
    if isinstance(l2.target, ast.Name) and len(l2.body) == 1:
        st = l2.body[0]
        if isinstance(st, ast.AugAssign) and isinstance(st.op, ast.Add) and isinstance(st.target, ast.Name) and isinstance(st.value, ast.Name) and st.value.id == l2.target.id:
            acc, okb = st.target.id, True
        elif isinstance(st, ast.Expr) and isinstance(st.value, ast.Call) and isinstance(st.value.func, ast.Attribute) and st.value.func.attr == "extend" \
                and isinstance(st.value.func.value, ast.Name) and l2.target.id in names(st.value):
            acc, okb = st.value.func.value.id, True
    fresh_acc = any(isinstance(tg, ast.Name) and tg.id == acc and isinstance(v, ast.Call) and call_name(v) == "Path" and not v.args for tg, v, n in bindings(fn))
    ctx.ob("R16.2", "Path.reverse[subpaths in reverse order]", bool(rev) and okb and fresh_acc, ast.unparse(l2)[:80], l2.lineno, "the subpaths are re-assembled last to first")
    # the origin of the first segment is saved before the rebuild and stored into the new first segment after it
    first_start = "self._segments[0].start"
    saved = [tg.id for tg, v, n in bindings(fn) if isinstance(tg, ast.Name) and al.canon(v) == first_start]
    rebinds = [x for x in fn.body if isinstance(x, ast.Assign) and attr_chain(x.targets[0]) == ["self", "_segments"]]
    restores = [x for x in fn.body if isinstance(x, ast.Assign) and ast.unparse(x.targets[0]).replace(" ", "") == first_start and isinstance(x.value, ast.Name) and x.value.id in saved]
    pos = {id(x): k for k, x in enumerate(fn.body)}  # statement order (line numbers of inlined helper statements are not comparable)
    ok = bool(saved) and len(rebinds) == 1 and bool(restores) and all(pos[id(r)] > pos[id(rebinds[0])] for r in restores)
    ctx.ob("R16.2", "Path.reverse[first start kept]", ok, "saved in %s" % saved, fn.lineno, "the start of the first segment (a Move's origin) is carried over")
    takes = len(rebinds) == 1 and acc is not None and attr_chain(rebinds[0].value) == [acc, "_segments"]
    last = fn.body[-1]
    ctx.ob("R16.2", "Path.reverse[takes the rebuilt list]", takes and isinstance(last, ast.Return) and isinstance(last.value, ast.Name) and last.value.id == "self", "", fn.lineno,
           "the path adopts the re-assembled segment list")
    asub = ctx.fn("Path.as_subpaths", "R16.2")
    sub_calls = [c for c in ast.walk(asub) if isinstance(c, ast.Call) and call_name(c) == "Subpath"]
    lp = [x for x in asub.body if isinstance(x, ast.For)]
    ok = False
    if len(lp) == 1 and isinstance(lp[0].target, ast.Tuple) and len(lp[0].target.elts) == 2 and call_name(lp[0].iter) == "enumerate":
        cur, seg = lp[0].target.elts[0].id, lp[0].target.elts[1].id
        starts = [tg.id for tg, v, n in bindings(asub) if isinstance(tg, ast.Name) and isinstance(v, ast.Constant) and v.value == 0]
        if starts:
            st = starts[0]
            sigs = set()
            for c in sub_calls:
                if len(c.args) == 3:
                    try:
                        a1 = Alg().ev(c.args[1])
                        a2 = Alg().ev(c.args[2])
                        sigs.add((str(a1), str(a2), _enclosing_kind(c, seg)))
                    except Uninterpreted:
                        sigs.add(("?", "?", "?"))
            want = {(st, str(atom(cur) - const(1)), "Move"), (st, cur, "Close"), (st, str(Alg().ev(ast.parse("len(self) - 1", mode="eval").body)), None)}
            nxt = set()
            for tg, v, n in bindings(asub):
                if isinstance(tg, ast.Name) and tg.id == st and not (isinstance(v, ast.Constant)):
                    try:
                        nxt.add((str(Alg().ev(v)), _enclosing_kind(n, seg)))
                    except Uninterpreted:
                        nxt.add(("?", None))
            ok = sigs == want and nxt == {(cur, "Move"), (str(atom(cur) + const(1)), "Close")}
    ctx.ob("R16.2", "Path.as_subpaths[boundaries]", ok, "", asub.lineno, "a subpath ends before the next Move or with its Close; the tail forms the last subpath")
    sr = ctx.fn("Subpath.reverse", "R16.2")
    reverse_body(ctx, sr)
    rs = ctx.fn("Subpath._reverse_segments", "R16.2")
    swap_loop(ctx, rs)


def _enclosing_kind(node, seg):
    """segment class tested by the innermost enclosing `if isinstance(<seg>, K)`"""
    p = getattr(node, "_parent", None)
    while p is not None and not isinstance(p, ast.FunctionDef):
        if isinstance(p, ast.If) and isinstance(p.test, ast.Call) and call_name(p.test) == "isinstance" and len(p.test.args) == 2 and isinstance(p.test.args[0], ast.Name) \
                and p.test.args[0].id == seg and isinstance(p.test.args[1], ast.Name):
            return p.test.args[1].id
        p = getattr(p, "_parent", None)
    return None


def _is_kind_test(t, index, kind, al):
    """isinstance(self[index], Kind) (through an alias local as well)"""
    if isinstance(t, ast.Call) and call_name(t) == "isinstance" and len(t.args) == 2 and isinstance(t.args[1], ast.Name) and t.args[1].id == kind:
        return al.canon(t.args[0]) == "self[%s]" % index
    return False


def reverse_body(ctx, sr):
    al = Aliases(sr)
    # window offsets handed to _reverse_segments: start skips a leading Move, end skips a trailing Close
    calls = [c for c in ast.walk(sr) if isinstance(c, ast.Call) and attr_chain(c.func) == ["self", "_reverse_segments"] and len(c.args) == 2]
    ok = False
    if len(calls) == 1 and all(isinstance(a, ast.Name) for a in calls[0].args):
        sv, ev = calls[0].args[0].id, calls[0].args[1].id
        size = [tg.id for tg, v, n in bindings(sr) if isinstance(tg, ast.Name) and isinstance(v, ast.Call) and call_name(v) == "len" and v.args and isinstance(v.args[0], ast.Name) and v.args[0].id == "self"]
        s_init = [v for tg, v, n in bindings(sr) if isinstance(tg, ast.Name) and tg.id == sv and isinstance(n, ast.Assign)]
        e_init = [v for tg, v, n in bindings(sr) if isinstance(tg, ast.Name) and tg.id == ev and isinstance(n, ast.Assign)]
        okinit = len(s_init) == 1 and isinstance(s_init[0], ast.Constant) and s_init[0].value == 0 and len(e_init) == 1
        if okinit:
            try:
                e0 = Alg().ev(e_init[0])
                okinit = any(e0 == atom(z) - const(1) for z in size) or e0 == Alg().ev(ast.parse("len(self) - 1", mode="eval").body)
            except Uninterpreted:
                okinit = False
        adj = {}
        for x in ast.walk(sr):
            if isinstance(x, ast.If) and len(x.body) == 1 and isinstance(x.body[0], ast.AugAssign) and isinstance(x.body[0].target, ast.Name) and isinstance(x.body[0].value, ast.Constant) \
                    and x.body[0].value.value == 1 and x.lineno < calls[0].lineno:
                st = x.body[0]
                if st.target.id == sv and isinstance(st.op, ast.Add) and _is_kind_test(x.test, "0", "Move", al):
                    adj["start"] = True
                if st.target.id == ev and isinstance(st.op, ast.Sub) and _is_kind_test(x.test, "-1", "Close", al):
                    adj["end"] = True
        ok = okinit and adj == {"start": True, "end": True}
    ctx.ob("R16.2", "Subpath.reverse[Move and Close stay in place]", ok, "", sr.lineno, "a leading Move stays first and a trailing Close stays last; only the drawn segments between them are reversed")
    after = calls[0].lineno if calls else 0
    stores = []
    for x in ast.walk(sr):
        if isinstance(x, ast.Assign) and x.lineno > after:
            for tg, v in split_tuple_assign(x):
                if isinstance(tg, ast.Attribute):
                    stores.append((al.canon(tg), al.canon(v), x))
    move_ok = any(t == "self[0].end" and v in ("Point(self[1].start)", "copy(self[1].start)") for t, v, x in stores)
    ctx.ob("R16.2", "Subpath.reverse[Move re-linked]", move_ok, "; ".join("%s=%s" % (t, v) for t, v, _ in stores)[:200], sr.lineno, "the Move must now lead to the start of the new first drawn segment")
    rev_last = any(isinstance(c, ast.Call) and isinstance(c.func, ast.Attribute) and c.func.attr == "reverse" and al.canon(c.func.value) == "self[-1]" and c.lineno > after for c in ast.walk(sr))
    c_ok = rev_last and any(t == "self[-1].start" and v in ("Point(self[-2].end)", "copy(self[-2].end)") for t, v, x in stores) \
        and any(t == "self[-1].end" and v in ("Point(self[0].end)", "copy(self[0].end)") for t, v, x in stores)
    ctx.ob("R16.2", "Subpath.reverse[Close re-linked]", c_ok, "", sr.lineno, "a closed subpath stays closed: the Close runs from the new last end to the subpath start")


def swap_loop(ctx, rs):
    al = Aliases(rs)
    P = [a.arg for a in rs.args.args]
    idx = {}
    for tg, v, n in bindings(rs):
        if isinstance(tg, ast.Name) and isinstance(v, ast.Call) and attr_chain(v.func) == ["self", "index_to_path_index"] and len(v.args) == 1 and isinstance(v.args[0], ast.Name) and v.args[0].id in P[1:3]:
            idx.setdefault(v.args[0].id, []).append(tg.id)
    loops = [x for x in rs.body if isinstance(x, ast.While)]
    ok = False
    detail = ""
    floops = [x for x in rs.body if isinstance(x, ast.For)]
    if not loops and len(floops) == 1:
        # for i, j in zip(range(lo, hi + 1), range(hi, lo - 1, -1)): if i > j: break   -- the two-ended walk as a paired iteration
        fl = floops[0]
        it = fl.iter
        form = isinstance(it, ast.Call) and call_name(it) == "zip" and len(it.args) == 2 and all(isinstance(a, ast.Call) and call_name(a) == "range" for a in it.args) \
            and isinstance(fl.target, ast.Tuple) and len(fl.target.elts) == 2 and all(isinstance(e, ast.Name) for e in fl.target.elts)
        if form:
            up, down = it.args
            i_, j_ = fl.target.elts[0].id, fl.target.elts[1].id
            try:
                lo_v = [nm for nm, names_ in ((nm, idx.get(P[1], [])) for nm in [getattr(up.args[0], "id", None)]) if nm in names_]
                hi_v = [nm for nm, names_ in ((nm, idx.get(P[2], [])) for nm in [getattr(down.args[0], "id", None)]) if nm in names_]
                rng = len(up.args) == 2 and len(down.args) == 3 and bool(lo_v) and bool(hi_v) \
                    and Alg().ev(up.args[1]) == atom(hi_v[0]) + const(1) and Alg().ev(down.args[1]) == atom(lo_v[0]) - const(1) and Alg().ev(down.args[2]) == const(-1)
            except Uninterpreted:
                rng = False
            # the other spelling: the number of rounds is computed up front - n = (hi - lo) // 2 + 1 rounds (0 or fewer when
            # hi < lo), range(lo, lo + n) against range(hi, hi - n, -1) - and no stop test is needed
            counted = False
            if not rng and len(up.args) == 2 and len(down.args) == 3:
                defs_ = {tg.id: v for tg, v, n_ in bindings(rs) if isinstance(tg, ast.Name)}

                def res_(e):
                    return defs_.get(e.id, e) if isinstance(e, ast.Name) and e.id in defs_ and e.id not in idx.get(P[1], []) + idx.get(P[2], []) else e

                lo_n, hi_n = getattr(up.args[0], "id", None), getattr(down.args[0], "id", None)
                if lo_n in idx.get(P[1], []) and hi_n in idx.get(P[2], []):
                    def is_n(e):
                        e = res_(e)
                        return isinstance(e, ast.BinOp) and isinstance(e.op, ast.Add) and isinstance(e.right, ast.Constant) and e.right.value == 1 \
                            and isinstance(e.left, ast.BinOp) and isinstance(e.left.op, ast.FloorDiv) and isinstance(e.left.right, ast.Constant) and e.left.right.value == 2 \
                            and isinstance(e.left.left, ast.BinOp) and isinstance(e.left.left.op, ast.Sub) and getattr(e.left.left.left, "id", None) == hi_n \
                            and getattr(e.left.left.right, "id", None) == lo_n

                    u1, d1, d2 = up.args[1], down.args[1], down.args[2]
                    counted = isinstance(u1, ast.BinOp) and isinstance(u1.op, ast.Add) and getattr(u1.left, "id", None) == lo_n and is_n(u1.right) \
                        and isinstance(d1, ast.BinOp) and isinstance(d1.op, ast.Sub) and getattr(d1.left, "id", None) == hi_n and is_n(d1.right) \
                        and ast.unparse(u1.right) == ast.unparse(d1.right) and isinstance(d2, ast.UnaryOp) and isinstance(d2.op, ast.USub) and getattr(d2.operand, "value", None) == 1
            stop = [x for x in fl.body if isinstance(x, ast.If) and len(x.body) == 1 and isinstance(x.body[0], ast.Break) and isinstance(x.test, ast.Compare) and len(x.test.ops) == 1
                    and isinstance(x.test.left, ast.Name) and isinstance(x.test.comparators[0], ast.Name)
                    and ((x.test.left.id == i_ and x.test.comparators[0].id == j_ and isinstance(x.test.ops[0], ast.Gt)) or (x.test.left.id == j_ and x.test.comparators[0].id == i_ and isinstance(x.test.ops[0], ast.Lt)))]
            body = [x for x in fl.body if x not in stop]
            LST = "self._path._segments"
            front = back = None
            for x in body:
                for tg, v in split_tuple_assign(x):
                    if isinstance(tg, ast.Name) and al.canon(v) == "%s[%s]" % (LST, i_):
                        front = tg.id
                    if isinstance(tg, ast.Name) and al.canon(v) == "%s[%s]" % (LST, j_):
                        back = tg.id

            def rev_call_(x, who):
                return isinstance(x, ast.Expr) and isinstance(x.value, ast.Call) and attr_chain(x.value.func) == [who, "reverse"]

            uncond = any(rev_call_(x, front) for x in body)
            guarded = [x for x in body if isinstance(x, ast.If) and isinstance(x.test, ast.Compare) and len(x.test.ops) == 1 and isinstance(x.test.ops[0], ast.IsNot)
                       and {getattr(x.test.left, "id", None), getattr(x.test.comparators[0], "id", None)} == {front, back}]
            swap = False
            if len(guarded) == 1:
                pairs = [(al.canon(tg), getattr(v, "id", None)) for x in guarded[0].body for tg, v in split_tuple_assign(x)]
                swap = any(rev_call_(x, back) for x in guarded[0].body) and ("%s[%s]" % (LST, i_), back) in pairs and ("%s[%s]" % (LST, j_), front) in pairs
            ok = ((rng and len(stop) == 1) or (counted and not stop)) and front is not None and back is not None and uncond and swap
            detail = "paired ranges ok=%s stop test=%d front=%s back=%s unconditional reverse=%s guarded swap=%s" % (rng, len(stop), front, back, uncond, swap)
    if len(loops) == 1 and isinstance(loops[0].test, ast.Compare) and len(loops[0].test.ops) == 1 and isinstance(loops[0].test.left, ast.Name) and isinstance(loops[0].test.comparators[0], ast.Name):
        t = loops[0].test
        lo, hi = (t.left.id, t.comparators[0].id) if isinstance(t.ops[0], (ast.LtE, ast.Lt)) else (t.comparators[0].id, t.left.id)
        inclusive = isinstance(t.ops[0], (ast.LtE, ast.GtE))
        roles = lo in idx.get(P[1], []) and hi in idx.get(P[2], [])
        body = loops[0].body
        LST = "self._path._segments"
        front = back = None
        for x in body:
            for tg, v in split_tuple_assign(x):
                if isinstance(tg, ast.Name) and al.canon(v) == "%s[%s]" % (LST, lo):
                    front = tg.id
                if isinstance(tg, ast.Name) and al.canon(v) == "%s[%s]" % (LST, hi):
                    back = tg.id

        def rev_call(x, who):
            return isinstance(x, ast.Expr) and isinstance(x.value, ast.Call) and attr_chain(x.value.func) == [who, "reverse"]

        uncond = any(rev_call(x, front) for x in body)
        guarded = [x for x in body if isinstance(x, ast.If) and isinstance(x.test, ast.Compare) and len(x.test.ops) == 1 and isinstance(x.test.ops[0], ast.IsNot)
                   and {getattr(x.test.left, "id", None), getattr(x.test.comparators[0], "id", None)} == {front, back}]
        swap = False
        if len(guarded) == 1:
            g = guarded[0]
            pairs = [(al.canon(tg), getattr(v, "id", None)) for x in g.body for tg, v in split_tuple_assign(x)]
            swap = any(rev_call(x, back) for x in g.body) and ("%s[%s]" % (LST, lo), back) in pairs and ("%s[%s]" % (LST, hi), front) in pairs
        steps = {(x.target.id, type(x.op).__name__) for x in body if isinstance(x, ast.AugAssign) and isinstance(x.target, ast.Name) and isinstance(x.value, ast.Constant) and x.value.value == 1}
        ok = roles and inclusive and front is not None and back is not None and uncond and swap and steps == {(lo, "Add"), (hi, "Sub")}
        detail = "bounds %s..%s front=%s back=%s unconditional reverse=%s guarded swap=%s steps=%s" % (lo, hi, front, back, uncond, swap, sorted(steps))
    ctx.ob("R16.2", "Subpath._reverse_segments[swap and reverse each]", ok, detail, rs.lineno, "segments are exchanged end for end and each is reversed exactly once (the middle one too)")


def window(ctx):
    """Calls <path>._validate_connection(i, ...) from Subpath touch path segments i and i+1.  With the argument
    written as <path index of window offset k> + c, confinement needs _start <= _start + k + c and _start + k + c + 1 <= _end."""
    rs = ctx.fn("Subpath._reverse_segments", "R16.3")
    sr = ctx.fn("Subpath.reverse", "R16.3")
    al = Aliases(rs)
    P = [a.arg for a in rs.args.args]
    # the offsets Subpath.reverse passes: start is 0, raised by one under a guard (a leading Move)
    calls_sr = [c for c in ast.walk(sr) if isinstance(c, ast.Call) and attr_chain(c.func) == ["self", "_reverse_segments"] and len(c.args) == 2]
    ctx.need(len(calls_sr) == 1 and isinstance(calls_sr[0].args[0], ast.Name), "R16.3", "Subpath.reverse: call of _reverse_segments not found")
    sv = calls_sr[0].args[0].id
    inits = [v for tg, v, n in bindings(sr) if isinstance(tg, ast.Name) and tg.id == sv and isinstance(n, ast.Assign)]
    ctx.need(len(inits) == 1 and isinstance(inits[0], ast.Constant) and inits[0].value == 0, "R16.3", "Subpath.reverse: start offset base is not 0")
    deltas = []
    for x in ast.walk(sr):
        if isinstance(x, ast.AugAssign) and isinstance(x.target, ast.Name) and x.target.id == sv and isinstance(x.value, ast.Constant):
            deltas.append(x.value.value if isinstance(x.op, ast.Add) else -x.value.value)
    start_min = 0 + sum(d for d in deltas if d < 0)  # guarded increments may or may not happen
    calls = [c for c in ast.walk(rs) if isinstance(c, ast.Call) and isinstance(c.func, ast.Attribute) and c.func.attr == "_validate_connection" and al.canon(c.func.value) == "self._path"]
    ctx.need(len(calls) >= 1, "R16.3", "_reverse_segments: validator calls not found")
    # which local holds the path index of `start` / `end` at the time of the validator calls (the last definition before the call)
    def role_of(name, line):
        best = None
        for tg, v, n in bindings(rs):
            if isinstance(tg, ast.Name) and tg.id == name and n.lineno < line:
                if best is None or n.lineno > best[1]:
                    best = (v, n.lineno)
        if best is None:
            return name if name in P else None
        v = best[0]
        if isinstance(v, ast.Call) and attr_chain(v.func) == ["self", "index_to_path_index"] and len(v.args) == 1 and isinstance(v.args[0], ast.Name):
            return v.args[0].id
        return None

    for c in calls:
        a = c.args[0]
        off = 0
        name = None
        if isinstance(a, ast.BinOp) and isinstance(a.right, ast.Constant) and isinstance(a.left, ast.Name):
            name = a.left.id
            off = a.right.value if isinstance(a.op, ast.Add) else -a.right.value
        elif isinstance(a, ast.Name):
            name = a.id
        else:
            raise AnalysisError("R16.3", "_reverse_segments: index expression %s not interpreted" % ast.unparse(a))
        which = role_of(name, c.lineno)
        ctx.need(which in P[1:3], "R16.3", "_reverse_segments: index local %s not traced to a window offset" % name)
        label = "%s%s" % ("start" if which == P[1] else "end", (" %s %d" % ("+" if off > 0 else "-", abs(off))) if off else "")
        if which == P[1]:
            lowest = start_min + off  # relative to _start
            ok = lowest >= 0
            guarded = False
            p = getattr(c, "_parent", None)
            while p is not None and p is not rs:
                if isinstance(p, ast.If) and any(attr_chain(n) == ["self", "_start"] or (isinstance(n, ast.Name) and n.id in ("Move", P[1])) for n in ast.walk(p.test)):
                    guarded = True
                p = getattr(p, "_parent", None)
            ctx.ob("R16.3", "Subpath._reverse_segments[validate_connection(%s)]" % label, ok or guarded,
                   "lowest path index addressed = _start %+d (start offset can be %d when the subpath has no leading Move)" % (lowest, start_min), c.lineno,
                   "the connection before the first reversed segment lies outside the window when the subpath starts without its own Move: "
                   "with prefer_second the previous subpath's last segment (its Close) is rewritten")
        else:
            # connection (end, end+1): end+1 is at most the trailing Close (inside) or the next subpath's Move, whose start is not geometry
            ctx.ob("R16.3", "Subpath._reverse_segments[validate_connection(%s)]" % label, off == 0 and not any(k.arg == "prefer_second" for k in c.keywords),
                   "links the segment after the window to the new last end (first-authority)", c.lineno,
                   "the connection after the last reversed segment must give authority to the reversed segment (only the follower's start is adjusted)")


# --------------------------------------------------------------------------- R16.5
def moveless(ctx):
    """The property's domain includes path fragments without a leading move and subpaths that begin right after a close.  Three
    places in the reversal code treat segment 0 of the (sub)path as a Move without asking:
      * Path.reverse parks `segments[0].start` (None-ing it) and writes it back onto whatever is first afterwards;
      * Path.reverse re-joins the reversed subpaths with the linking concatenation (`p += subpath`), which rewrites the start
        of a first segment that is not a Move to the previous end;
      * Subpath.reverse moves the subpath's starting point (the leading Move's end) when the close has non-zero length, and the
        segment that follows the subpath without a Move of its own keeps the old position.
    Each is accepted when an isinstance(..., Move) test dominates it (first two) or the successor is re-linked (third)."""
    from ..flow import dominated

    def is_move_test(test, positive):
        return positive and isinstance(test, ast.Call) and call_name(test) == "isinstance" and len(test.args) == 2 and any(isinstance(x, ast.Name) and x.id == "Move" for x in ast.walk(test.args[1]))

    pr = ctx.fn("Path.reverse", "R16.5")
    stores = [st for st in stmts_in(pr.body) if isinstance(st, ast.Assign) and any(isinstance(t, ast.Attribute) and t.attr == "start" and isinstance(t.value, ast.Subscript)
                                                                                 and isinstance(t.value.slice, ast.Constant) and t.value.slice.value == 0 for t in st.targets)]
    bad = [st for st in stores if not dominated(st, pr, is_move_test)]
    ctx.ob("R16.5", "Path.reverse[first segment's start parked]", not bad, "; ".join("line %d: %s" % (st.lineno, ast.unparse(st)[:50]) for st in bad), pr.lineno,
           "for a fragment whose first segment is not a Move this destroys its first point (the None later becomes an end point) and the saved point is written onto the wrong segment")
    joins = [st for st in stmts_in(pr.body) if (isinstance(st, ast.AugAssign) and isinstance(st.op, ast.Add)) or
             (isinstance(st, ast.Expr) and isinstance(st.value, ast.Call) and isinstance(st.value.func, ast.Attribute) and st.value.func.attr in ("extend", "append"))]
    joins = [st for st in joins if any(isinstance(l, ast.For) and any(st is x for x in ast.walk(l)) for l in ast.walk(pr))]
    badj = [st for st in joins if not dominated(st, pr, is_move_test)]
    ctx.ob("R16.5", "Path.reverse[subpaths re-joined by linking concatenation]", bool(joins) and not badj, "; ".join("line %d: %s" % (st.lineno, ast.unparse(st)[:50]) for st in badj) or "no join found", pr.lineno,
           "a reversed subpath that has no Move of its own is welded onto whatever precedes it now: its far end is lost and a line that was never drawn appears")
    sr = ctx.fn("Subpath.reverse", "R16.5")
    moved = [st for st in stmts_in(sr.body) if isinstance(st, ast.Assign) and any(isinstance(t, ast.Attribute) and t.attr == "end" and isinstance(t.value, ast.Subscript) and isinstance(t.value.value, ast.Name)
                                                                                 and t.value.value.id == "self" and isinstance(t.value.slice, ast.Constant) and t.value.slice.value == 0 for t in st.targets)]
    relinks = [c for c in ast.walk(sr) if isinstance(c, ast.Call) and isinstance(c.func, ast.Attribute) and c.func.attr in ("_validate_connection", "validate_connections") and
               (c.func.attr == "validate_connections" or any("end" in ast.unparse(a) for a in c.args))]
    ctx.ob("R16.5", "Subpath.reverse[start point moved, successor not re-linked]", not moved or bool(relinks), "; ".join("line %d: %s" % (st.lineno, ast.unparse(st)[:50]) for st in moved), sr.lineno,
           "reversing a closed subpath whose close has length moves its starting point; a following subpath without its own Move still starts at the old one and is cut off")


def subpath_scan(ctx):
    """Path.reverse re-assembles the reversed subpaths with `p += subpath`; Path.extend then calls _validate_subpath(index) to
    re-link the Close of the subpath that contains the junction.  The forward scan for that Close must stop at the first Move: a
    Move begins another subpath, whose Close belongs to it and not to the junction."""
    fn = ctx.fn("Path._validate_subpath", "R16.2")
    loops = [x for x in fn.body if isinstance(x, ast.For)]
    ctx.need(loops, "R16.2", "Path._validate_subpath: forward scan not found")
    lp = loops[0]
    stops = []
    close_at = None
    for k, st in enumerate(lp.body):
        if isinstance(st, ast.If) and isinstance(st.test, ast.Call) and call_name(st.test) == "isinstance" and len(st.test.args) == 2:
            cls_ = ast.unparse(st.test.args[1])
            if "Move" in cls_ and st.body and isinstance(st.body[-1], (ast.Return, ast.Break)):
                stops.append(k)
            if "Close" in cls_ and close_at is None:
                close_at = k
    ctx.ob("R16.2", "Path._validate_subpath[the scan stops at the next Move]", bool(stops) and close_at is not None and min(stops) < close_at, "Move exits at %s, Close handled at %s" % (stops, close_at), lp.lineno,
           "without the stop the scan runs into the next subpath and re-links ITS Close to the Move found from the junction: M0,0 L1,0 L1,1 Z M5,5 L6,6 reversed ends with a Close running (0,0)->(6,6)")
