"""C16 - reverse() traces the same geometry backwards and is an involution."""
import ast

from .. import cachecoh
from ..model import AnalysisError, attr_chain, call_name, stmts_in

EXPLANATION = (
    "Static rules (no execution). R16.1 per-class reversal: the base reverse swaps start and end; a class with two ordered "
    "control fields swaps them; a class with a signed extent negates it; every override calls the base; classes with one "
    "(symmetric) control need no override. R16.2 order: Path.reverse reverses each subpath and re-assembles them in "
    "reversed order, keeps the first segment's start, and returns itself; Subpath.reverse keeps a leading Move and a "
    "trailing Close in place, re-links the Move to the new first segment and the Close to the new last end and subpath "
    "start. R16.3 window confinement: writes issued by Subpath methods through the backing path must address path "
    "indices inside [_start, _end] (small interval analysis over the index arguments). R16.4 cache coherence: shared "
    "with C15 (reverse paths invalidate the cached lengths). Not decided: index arithmetic for all window shapes, "
    "involution and connectivity of the result (history/value dependent)."
)
ASSUMPTIONS = [
    "Window confinement is decided for the index expressions passed to the backing path's validators; element writes through Subpath.__getitem__ use _numeric_index, whose range is not bounded statically (negative indices) and is reported as not decided.",
]
FLOORS = {"R16.1": 6, "R16.2": 6, "R16.3": 2}

SEGMENTS = ["Move", "Line", "Close", "QuadraticBezier", "CubicBezier", "Arc"]


def run(ctx):
    ctx.rule("R16.1", "per-class reversal completeness")
    ctx.rule("R16.2", "order of subpaths and fixed Move/Close positions")
    ctx.rule("R16.3", "window confinement of subpath writes")
    ctx.rule("R16.4", "cache coherence of reversal")
    per_class(ctx)
    order(ctx)
    window(ctx)
    pinfo, sinfo, inv = cachecoh.invalidating(ctx)
    for cname, name in (("Path", "reverse"), ("Subpath", "reverse"), ("Subpath", "_reverse_segments")):
        ctx.ob("R16.4", "%s.%s" % (cname, name), (cname, name) in inv, "", 0, "reversal changes every fraction of the path: the cached lengths must be dropped")


def per_class(ctx):
    base = ctx.fn("PathSegment.reverse", "R16.1")
    src = [ast.unparse(s).replace(" ", "") for s in base.body if not (isinstance(s, ast.Expr) and isinstance(s.value, ast.Constant))]
    ok = src in (["end=self.end", "self.end=self.start", "self.start=end"], ["start=self.start", "self.start=self.end", "self.end=start"],
                 ["self.start,self.end=self.end,self.start"], ["self.end,self.start=self.start,self.end"])
    ctx.ob("R16.1", "PathSegment.reverse", ok, "; ".join(src), base.lineno, "reversal exchanges start and end")
    from .c02 import point_fields

    for cname in SEGMENTS:
        fields = point_fields(ctx, cname)
        controls = sorted(f for f in fields if f.startswith("control"))
        owner = ctx.m.owner("%s.reverse" % cname)
        fn = ctx.fn("%s.reverse" % cname, "R16.1")
        src = [ast.unparse(s).replace(" ", "") for s in fn.body if not (isinstance(s, ast.Expr) and isinstance(s.value, ast.Constant))]
        calls_base = owner == "PathSegment" or "PathSegment.reverse(self)" in src or "super().reverse()" in src
        ok = calls_base
        detail = "defined in %s: %s" % (owner, "; ".join(src))
        if len(controls) == 2:
            c1, c2 = controls
            body = "".join(src)
            swap = ("self.%s=self.%s" % (c2, c1) in body and "=self.%s" % c2 in body) or "self.%s,self.%s=self.%s,self.%s" % (c1, c2, c2, c1) in body
            # the temp idiom: c2 = self.control2; self.control2 = self.control1; self.control1 = c2
            tmp_ok = False
            for i, s in enumerate(src):
                if s.endswith("=self.%s" % c2) and not s.startswith("self."):
                    t = s.split("=")[0]
                    tmp_ok = "self.%s=self.%s" % (c2, c1) in src and "self.%s=%s" % (c1, t) in src and src.index("self.%s=self.%s" % (c2, c1)) < src.index("self.%s=%s" % (c1, t))
                if s.endswith("=self.%s" % c1) and not s.startswith("self."):
                    t = s.split("=")[0]
                    tmp_ok = tmp_ok or ("self.%s=self.%s" % (c1, c2) in src and "self.%s=%s" % (c2, t) in src and src.index("self.%s=self.%s" % (c1, c2)) < src.index("self.%s=%s" % (c2, t)))
            ok = ok and owner == cname and (tmp_ok or "self.%s,self.%s=self.%s,self.%s" % (c1, c2, c2, c1) in body or "self.%s,self.%s=self.%s,self.%s" % (c2, c1, c1, c2) in body)
        has_sweep = "sweep" in ctx.m.cls(cname).self_fields()
        if has_sweep:
            ok = ok and owner == cname and any(s in ("self.sweep=-self.sweep", "self.sweep*=-1") for s in src)
        ctx.ob("R16.1", "%s.reverse" % cname, ok, detail, fn.lineno,
               "reversal must exchange start/end (base), exchange ordered control points, and negate a signed extent")


def order(ctx):
    fn = ctx.fn("Path.reverse", "R16.2")
    loops = [s for s in fn.body if isinstance(s, ast.For)]
    ctx.need(len(loops) == 2, "R16.2", "Path.reverse: two loops expected")
    l1, l2 = loops
    sp_var = None
    for s in fn.body:
        if isinstance(s, ast.Assign) and "self.as_subpaths()" in ast.unparse(s.value):
            sp_var = s.targets[0].id
    ctx.need(sp_var is not None, "R16.2", "Path.reverse: subpath list not found")
    ok1 = ast.unparse(l1.iter) == sp_var and [ast.unparse(s).replace(" ", "") for s in l1.body] == ["%s.reverse()" % l1.target.id]
    ctx.ob("R16.2", "Path.reverse[each subpath reversed]", ok1, ast.unparse(l1)[:80], l1.lineno, "every subpath is reversed in place")
    ok2 = ast.unparse(l2.iter).replace(" ", "") in ("reversed(%s)" % sp_var, "%s[::-1]" % sp_var) and [ast.unparse(s).replace(" ", "") for s in l2.body] == ["p+=%s" % l2.target.id]
    ctx.ob("R16.2", "Path.reverse[subpaths in reverse order]", ok2, ast.unparse(l2)[:80], l2.lineno, "the subpaths are re-assembled last to first")
    src = [ast.unparse(s).replace(" ", "") for s in fn.body]
    ok = "prepoint=self._segments[0].start" in src and "self._segments[0].start=prepoint" in src and src.index("self._segments=p._segments") < src.index("self._segments[0].start=prepoint")
    ctx.ob("R16.2", "Path.reverse[first start kept]", ok, "", fn.lineno, "the start of the first segment (a Move's origin) is carried over")
    ctx.ob("R16.2", "Path.reverse[takes the rebuilt list]", "self._segments=p._segments" in src and src[-1] == "returnself", "", fn.lineno, "")
    asub = ctx.fn("Path.as_subpaths", "R16.2")
    s = ast.unparse(asub)
    ok = "isinstance(seg, Move)" in s and "isinstance(seg, Close)" in s and "Subpath(self, start, current - 1)" in s and "Subpath(self, start, current)" in s and "start = current + 1" in s \
        and "Subpath(self, start, len(self) - 1)" in s
    ctx.ob("R16.2", "Path.as_subpaths[boundaries]", ok, "", asub.lineno, "a subpath ends before the next Move or with its Close; the tail forms the last subpath")
    sr = ctx.fn("Subpath.reverse", "R16.2")
    s = ast.unparse(sr)
    ok = "if isinstance(self[-1], Close):\n        end -= 1" in s and "if isinstance(self[0], Move):\n        start += 1" in s and "self._reverse_segments(start, end)" in s
    ctx.ob("R16.2", "Subpath.reverse[Move and Close stay in place]", ok, "", sr.lineno, "a leading Move stays first and a trailing Close stays last; only the drawn segments between them are reversed")
    ok = "self[0].end = Point(self[1].start)" in s
    ctx.ob("R16.2", "Subpath.reverse[Move re-linked]", ok, "", sr.lineno, "the Move must now lead to the start of the new first drawn segment")
    ok = "last.reverse()" in s and "last.start = Point(self[-2].end)" in s and "last.end = Point(self[0].end)" in s
    ctx.ob("R16.2", "Subpath.reverse[Close re-linked]", ok, "", sr.lineno, "a closed subpath stays closed: the Close runs from the new last end to the subpath start")
    rs = ctx.fn("Subpath._reverse_segments", "R16.2")
    s = ast.unparse(rs)
    ok = "start_segment.reverse()" in s and "end_segment.reverse()" in s and "segments[s] = end_segment" in s and "segments[e] = start_segment" in s and "s += 1" in s and "e -= 1" in s \
        and "while s <= e" in s and "if start_segment is not end_segment" in s
    ctx.ob("R16.2", "Subpath._reverse_segments[swap and reverse each]", ok, "", rs.lineno, "segments are exchanged end for end and each is reversed exactly once (the middle one too)")


def window(ctx):
    """Calls self._path._validate_connection(i, ...) from Subpath touch path segments i and i+1.  With the argument
    written as <path index of window offset k> + c, confinement needs _start <= _start + k + c and _start + k + c + 1 <= _end."""
    rs = ctx.fn("Subpath._reverse_segments", "R16.3")
    sr = ctx.fn("Subpath.reverse", "R16.3")
    # interval of the `start` / `end` offsets passed by Subpath.reverse
    lo = {"start": None, "end": None}
    vals = {"start": set(), "end": set()}
    for nm in ("start", "end"):
        base = None
        for s in sr.body:
            if isinstance(s, ast.Assign) and ast.unparse(s.targets[0]) == nm:
                base = ast.unparse(s.value).replace(" ", "")
        deltas = []
        for s in ast.walk(sr):
            if isinstance(s, ast.AugAssign) and ast.unparse(s.target) == nm and isinstance(s.value, ast.Constant):
                deltas.append(s.value.value if isinstance(s.op, ast.Add) else -s.value.value)
        ctx.need(base is not None, "R16.3", "Subpath.reverse: offset %s not found" % nm)
        vals[nm] = (base, deltas)
    start_base, start_deltas = vals["start"]
    ctx.need(start_base == "0", "R16.3", "Subpath.reverse: start offset base is %s" % start_base)
    start_min = 0 + sum(d for d in start_deltas if d < 0)  # guarded increments may or may not happen
    calls = [c for c in ast.walk(rs) if isinstance(c, ast.Call) and ast.unparse(c.func) == "self._path._validate_connection"]
    ctx.need(len(calls) >= 1, "R16.3", "_reverse_segments: validator calls not found")
    # which local holds the path index of `start`
    pidx = {}
    for s in rs.body:
        if isinstance(s, ast.Assign) and isinstance(s.value, ast.Call) and ast.unparse(s.value.func) == "self.index_to_path_index" and isinstance(s.value.args[0], ast.Name):
            pidx[s.targets[0].id] = s.value.args[0].id
    for c in calls:
        a = c.args[0]
        off = 0
        name = None
        if isinstance(a, ast.BinOp) and isinstance(a.right, ast.Constant) and isinstance(a.left, ast.Name):
            name = a.left.id
            off = a.right.value if isinstance(a.op, ast.Add) else -a.right.value
        elif isinstance(a, ast.Name):
            name = a.id
        else:
            raise AnalysisError("R16.3", "_reverse_segments: index expression %s not interpreted" % ast.unparse(a))
        which = pidx.get(name, name)
        if which == "start":
            lowest = start_min + off  # relative to _start
            ok = lowest >= 0
            guarded = False
            p = getattr(c, "_parent", None)
            while p is not None and p is not rs:
                if isinstance(p, ast.If) and ("self._start" in ast.unparse(p.test) or "start >" in ast.unparse(p.test) or "Move" in ast.unparse(p.test)):
                    guarded = True
                p = getattr(p, "_parent", None)
            ctx.ob("R16.3", "Subpath._reverse_segments[validate_connection(%s)]" % ast.unparse(a), ok or guarded,
                   "lowest path index addressed = _start %+d (start offset can be %d when the subpath has no leading Move)" % (lowest, start_min), c.lineno,
                   "the connection before the first reversed segment lies outside the window when the subpath starts without its own Move: "
                   "with prefer_second the previous subpath's last segment (its Close) is rewritten")
        else:
            # connection (end, end+1): end+1 is at most the trailing Close (inside) or the next subpath's Move, whose start is not geometry
            ctx.ob("R16.3", "Subpath._reverse_segments[validate_connection(%s)]" % ast.unparse(a), off == 0 and not any(k.arg == "prefer_second" for k in c.keywords),
                   "links the segment after the window to the new last end (first-authority)", c.lineno,
                   "the connection after the last reversed segment must give authority to the reversed segment (only the follower's start is adjusted)")
