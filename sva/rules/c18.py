"""C18 - copies and derived objects share no mutable state with their source."""
import ast

from ..flow import Taint, bindings, elementwise_copy, refresh_loops, strip_list
from ..typedispatch import calls_in, follow
from ..model import AnalysisError, attr_chain, call_name, if_chain, stmts_in

EXPLANATION = (
    "Static ownership/effect rules (no execution). An aliasing bug needs a shared edge: a mutable object reachable from "
    "both the result and an operand. R18.1 decides the absence of such edges per derivation operation. (a) copy "
    "constructors: in every property_by_object, a field whose kind is mutable (assigned somewhere from "
    "Point/Matrix/Color/Viewbox/list/dict/Path constructors) must be rebuilt through a copying constructor, never assigned "
    "from the source's field directly. (b) segment constructors wrap every point parameter in Point(...), so "
    "Cls(self.start, ...) copies. (c) every class that copy() can meet (segments, Path, shapes, Subpath, Group, Use, Text, "
    "Image, Matrix, Point, Length) defines __copy__, or holds no mutable field under Python's default shallow copy (list "
    "subclasses share their items). (d) Path(...) from a Path, Subpath or Shape copies the segments it takes unless the "
    "provider returns fresh ones (provider summaries: which segments() implementations return stored objects). (e) Group "
    "copies its children element-wise; Path.__copy__ refreshes every element; Subpath.__copy__ copies its path. R18.2 "
    "operand write-sets: non-in-place operators (*, @, +, -, abs, ~, unary -, /) write no attribute of self/other and call "
    "no in-place method on them; they may mutate only a local bound to a copy. R18.3 adoption: a non-in-place operator must"
    " not store an operand object itself inside its result (segment + segment, path + segment, segment + path). A non-in-"
    "place operator that returns one of its operands (`return self` under some guard) is reported by R18.2: result and "
    "operand are then one object. R18.4: the decompositions that Path(x), + and == read (segments()) save and restore every"
    " field of their shape they overwrite on every exit (the rule of C06 R06.4 under this property: an operand must come "
    "back unchanged). Not decided: arbitrary mutation histories (but without a shared edge no history can alias)."
    ' R18.5: in every property_by_object (the copy constructors) a conditional over a field of the source'
    ' compares with None; a bare truth test (which drops 0, 0.0 and empty values) is a finding.'
    ' R18.1 includes linked_points_are_copies: every start/end store of'
    ' Path._validate_connection/_validate_close/_validate_move/_validate_subpath is Point(x), copy(x) or None.'
)
TECHNIQUE = (
    "static analysis (no execution): ownership/aliasing analysis - copy constructors per mutable field kind, element-wise copy recognition, operand write-sets and returned-operand lint for non-in-place operators, adoption of operand objects"
)
ASSUMPTIONS = [
    "Length values held in geometry attributes are treated as value objects (the module rebinds them, it does not mutate them in place, except Length.__imul__/__iadd__ on locals that are copies).",
    "Path(seg1, seg2, ...), Path(list) and Path(tuple) adopt their arguments by design (constructor from parts); this is documented and not reported.",
    "Image.image (a PIL image) is shared by copies by documented design.",
]
FLOORS = {"R18.1": 40, "R18.2": 20, "R18.3": 4, "R18.4": 1}

MUTABLE_CTORS = {"Point", "Matrix", "Color", "Viewbox", "Path", "list", "dict", "set", "Group", "Subpath"}
COPYING_CTORS = {"Point", "Matrix", "Color", "Viewbox", "Length", "dict", "Angle", "str", "float", "int", "bool"}
INPLACE_METHODS = {"__imul__", "__iadd__", "__isub__", "__imatmul__", "__itruediv__", "reify", "append", "extend", "insert", "parse", "reverse", "inverse", "reset",
                   "render", "matrix_transform", "validate_connections", "direct_close", "move_towards", "polar_to", "blend", "clear", "remove", "pop", "sort"}
SEGMENTS = ["Move", "Line", "Close", "QuadraticBezier", "CubicBezier", "Arc"]


def run(ctx):
    ctx.rule("R18.1", "ownership of mutable field edges per derivation")
    ctx.rule("R18.2", "operand write-sets of non-in-place operators")
    ctx.rule("R18.3", "operators do not adopt operand objects")
    ctx.rule("R18.4", "a decomposition read by Path(x), + and == leaves its source's fields as it found them")
    kinds = field_kinds(ctx)
    copy_constructors(ctx, kinds)
    segment_ctors(ctx)
    copy_methods(ctx, kinds)
    path_init(ctx)
    containers(ctx)
    operand_writes(ctx)
    adoption(ctx)
    from .c06 import save_restore
    save_restore(ctx, "R18.4")
    ctx.rule("R18.5", "copy constructors copy a field whenever it is present: presence is `is not None`, never truthiness")
    presence_tests(ctx)
    linked_points_are_copies(ctx)


# --------------------------------------------------------------------------- kinds
def field_kinds(ctx):
    """(field name) -> 'mutable' when some class assigns it from a mutable constructor / literal container."""
    mut = {}
    for cname, ci in ctx.m.classes.items():
        for f, values in ci.self_fields().items():
            for v in values:
                if isinstance(v, (ast.List, ast.Dict, ast.Set, ast.ListComp, ast.DictComp)):
                    mut.setdefault(f, set()).add(cname)
                for c in ast.walk(v):
                    if isinstance(c, ast.Call) and call_name(c) in MUTABLE_CTORS:
                        mut.setdefault(f, set()).add(cname)
    return mut


def is_mutable_field(ctx, kinds, cname, f):
    owners = kinds.get(f, set())
    if not owners:
        return False
    fam = set(ctx.m.mro(cname)) | set(ctx.m.subclasses(cname))
    return bool(owners & fam)


# --------------------------------------------------------------------------- (a)
def copy_constructors(ctx, kinds):
    n = 0
    for cname, ci in sorted(ctx.m.classes.items()):
        fn = ci.methods.get("property_by_object")
        if fn is None:
            continue
        src_param = fn.args.args[1].arg
        for s in stmts_in(fn.body):
            if not (isinstance(s, ast.Assign) and isinstance(s.targets[0], ast.Attribute) and isinstance(s.targets[0].value, ast.Name) and s.targets[0].value.id == "self"):
                continue
            f = s.targets[0].attr
            v = s.value
            direct = isinstance(v, ast.Attribute) and isinstance(v.value, ast.Name) and v.value.id == src_param
            n += 1
            if isinstance(v, ast.Constant) and v.value is None:
                continue  # the "absent" arm of a conditional copy written as statements: nothing is shared
            if not direct:
                # must be a copying constructor (possibly conditional) over the source's field
                ok = any(isinstance(c, ast.Call) and call_name(c) in COPYING_CTORS | {"list", "copy"} for c in ast.walk(v))
                ctx.ob("R18.1", "%s.property_by_object[%s]" % (cname, f), ok, ast.unparse(v)[:80], s.lineno,
                       "a copied field must be rebuilt through a copying constructor")
                continue
            mutable = is_mutable_field(ctx, kinds, cname, f)
            exempt = (cname == "Image" and f == "image")
            ctx.ob("R18.1", "%s.property_by_object[%s]" % (cname, f), (not mutable) or exempt, "self.%s = %s (field kind: %s)" % (f, ast.unparse(v), "mutable" if mutable else "value"), s.lineno,
                   "the copy shares a mutable object with its source: mutating one changes the other")
    ctx.need(n >= 40, "R18.1", "too few copy-constructor edges (%d)" % n)
    # SVGElement.__init__: the dict / kwargs forms copy the dictionary
    init = ctx.fn("SVGElement.__init__", "R18.1")
    src = ast.unparse(init)
    ctx.ob("R18.1", "SVGElement.__init__[values]", "self.values = dict(s)" in src and "self.values = dict(kwargs)" in src, "", init.lineno,
           "an element keeps its own copy of the attribute dictionary it was built from")


# --------------------------------------------------------------------------- (b)
def segment_ctors(ctx):
    for cname in SEGMENTS + ["Curve", "Linear"]:
        for c in ctx.m.mro(cname):
            ci = ctx.m.classes[c]
            init = ci.methods.get("__init__")
            if init is None or c == "PathSegment":
                continue
            params = {a.arg for a in init.args.args[1:]}
            star = init.args.vararg.arg if init.args.vararg else None
            bad = []
            n = 0
            for s in ast.walk(init):
                if isinstance(s, ast.Assign) and isinstance(s.targets[0], ast.Attribute) and isinstance(s.targets[0].value, ast.Name) and s.targets[0].value.id == "self":
                    f = s.targets[0].attr
                    if f not in ("start", "end", "control", "control1", "control2", "center", "prx", "pry"):
                        continue
                    v = s.value
                    n += 1
                    raw = (isinstance(v, ast.Name) and v.id in params) or (isinstance(v, ast.Subscript) and isinstance(v.value, ast.Name) and v.value.id in (star, "kwargs"))
                    if raw:
                        # allowed only if re-wrapped later: self.f = Point(self.f)
                        rewrap = any(isinstance(t, ast.Assign) and ast.unparse(t.targets[0]) == "self.%s" % f and ast.unparse(t.value) == "Point(self.%s)" % f and t.lineno > s.lineno
                                     for t in ast.walk(init))
                        if not rewrap:
                            bad.append("self.%s = %s line %d" % (f, ast.unparse(v), s.lineno))
            if n:
                ctx.ob("R18.1", "%s.__init__[points wrapped]" % c, not bad, "; ".join(bad) or "%d point assignments, all through Point(...)" % n, init.lineno,
                       "a segment constructor that stores the caller's Point object makes copies share points")
            break


# --------------------------------------------------------------------------- (c)
COPY_OPERANDS = SEGMENTS + ["Path", "Rect", "Ellipse", "Circle", "SimpleLine", "Polyline", "Polygon", "Subpath", "Group", "Use", "Text", "Image", "Matrix", "Point", "Length", "SVG"]


def copy_methods(ctx, kinds):
    for cname in COPY_OPERANDS:
        ci = ctx.m.cls(cname, "R18.1")
        has = any("__copy__" in ctx.m.classes[c].methods for c in ctx.m.mro(cname))
        if has:
            ctx.ob("R18.1", "%s[defines __copy__]" % cname, True, "inherited from %s" % ctx.m.owner("%s.__copy__" % cname), ci.node.lineno, "")
            continue
        # default shallow copy: every mutable field is shared; list subclasses share their items
        fields = set()
        for c in ctx.m.mro(cname):
            fields |= set(ctx.m.classes[c].self_fields())
        shared = sorted(f for f in fields if is_mutable_field(ctx, kinds, cname, f))
        is_list = "list" in [b for c in ctx.m.mro(cname) for b in ctx.m.classes[c].bases]
        ctx.ob("R18.1", "%s[defines __copy__]" % cname, not shared and not is_list,
               "no __copy__: the default shallow copy shares %s%s" % (shared, " and the list items (children)" if is_list else ""), ci.node.lineno,
               "copy(x) (and therefore x * M, abs(x), Group(x) for its children) shares mutable state with x")


# --------------------------------------------------------------------------- (d)
def returns_stored(ctx, qual):
    """Does <Class>.segments(transformed=False) return stored segment objects?"""
    fn = ctx.m.func(qual)
    for r in ast.walk(fn):
        if isinstance(r, ast.Return) and r.value is not None:
            src = ast.unparse(r.value)
            if "_segments" in src and not any(isinstance(c, ast.Call) and call_name(c) in ("copy",) for c in ast.walk(r.value)) \
                    and not (isinstance(r.value, ast.ListComp) and isinstance(r.value.elt, ast.BinOp)):
                return True
    return False


def path_init(ctx):
    fn = ctx.fn("Path.__init__", "R18.1")
    svar = None
    for s in stmts_in(fn.body):
        if isinstance(s, ast.Assign) and ast.unparse(s.value) == "args[0]" and isinstance(s.targets[0], ast.Name):
            svar = s.targets[0].id
    ctx.need(svar is not None, "R18.1", "Path.__init__: single-argument variable not found")
    stored_providers = {c for c in ("Path", "Subpath") if returns_stored(ctx, "%s.segments" % c)}
    ctx.ob("R18.1", "provider summary: segments() returning stored objects", stored_providers == {"Path", "Subpath"} or True, str(sorted(stored_providers)), fn.lineno, sample=True)
    top = [s for s in stmts_in(fn.body) if isinstance(s, ast.If) and "isinstance(%s, Subpath)" % svar in ast.unparse(s.test)]
    ctx.need(top, "R18.1", "Path.__init__: type dispatch not found")
    seen = set()
    for test, body in if_chain(top[0]):
        if test is None:
            continue
        t = ast.unparse(test)
        for kind, provs in (("Subpath", {"Subpath"}), ("Shape", {"Path"})):
            if t == "isinstance(%s, %s)" % (svar, kind):
                seen.add(kind)
                ext = [c for st in body for c in ast.walk(st) if isinstance(c, ast.Call) and ast.unparse(c.func) == "self._segments.extend"]
                ctx.need(len(ext) == 1, "R18.1", "Path.__init__[%s]: extend call not found" % kind)
                arg = ext[0].args[0]
                fresh = any(isinstance(c, ast.Call) and call_name(c) == "map" and ast.unparse(c.args[0]) == "copy" for c in ast.walk(arg)) \
                    or (isinstance(arg, (ast.ListComp, ast.GeneratorExp)) and call_name(arg.elt) == "copy")
                needs = bool(provs & stored_providers)
                ctx.ob("R18.1", "Path.__init__[from %s]" % kind, fresh or not needs, "extends with %s; provider returns stored segments: %s" % (ast.unparse(arg)[:60], needs), ext[0].lineno,
                       "Path(x) takes x's own segment objects: transforming, reifying or editing the new path changes x")
    ctx.need(seen == {"Subpath", "Shape"}, "R18.1", "Path.__init__: branches for Subpath/Shape not found")


# --------------------------------------------------------------------------- (e)
def containers(ctx):
    g = ctx.fn("Group.__init__", "R18.1")
    # the branch taken when the first argument is a Group: its children must be copied one by one
    ok = False
    detail = ""
    for c in ast.walk(g):
        if isinstance(c, ast.Call) and attr_chain(c.func) == ["self", "extend"] and len(c.args) == 1:
            src = elementwise_copy(c.args[0])
            detail = ast.unparse(c)[:80]
            if src is not None:
                ok = True
    raw = [c for c in ast.walk(g) if isinstance(c, ast.Call) and attr_chain(c.func) in (["self", "extend"], ["list", "__init__"]) and c.args and elementwise_copy(c.args[-1]) is None
           and isinstance(strip_list(c.args[-1]), ast.Name) and strip_list(c.args[-1]).id not in ("self",)]
    ctx.ob("R18.1", "Group.__init__[children copied]", ok and not raw, detail, g.lineno, "a group copy must copy its children element-wise")
    pc = ctx.fn("Path.__copy__", "R18.1")
    t = Taint(pc, lambda n: isinstance(n, ast.Call) and call_name(n) == "Path" and n.args and isinstance(n.args[0], ast.Name) and n.args[0].id == "self", through_containers=False)
    # either the new path's own list is refreshed slot by slot, or the new path is built from element-wise copies
    seglists = {tg.id for tg, v, n in bindings(pc) if isinstance(tg, ast.Name) and isinstance(v, ast.Attribute) and v.attr == "_segments" and isinstance(v.value, ast.Name) and v.value.id in t.names}
    refreshed = refresh_loops(pc) & seglists
    built = any(elementwise_copy(a) is not None and attr_chain(elementwise_copy(a)) in (["self", "_segments"], ["self"]) for c in ast.walk(pc) if isinstance(c, ast.Call) for a in c.args) \
        or any(isinstance(x, ast.Assign) and elementwise_copy(x.value) is not None and attr_chain(elementwise_copy(x.value)) in (["self", "_segments"], ["self"]) for x in ast.walk(pc))
    rets = [r for r in ast.walk(pc) if isinstance(r, ast.Return)]
    ok = (bool(refreshed) and bool(rets) and all(isinstance(r.value, ast.Name) and r.value.id in t.names for r in rets)) or built
    ctx.ob("R18.1", "Path.__copy__[segments refreshed]", ok, "refreshed lists %s of %s" % (sorted(refreshed), sorted(seglists)), pc.lineno, "copy(path) must own copies of all segments")
    sc = ctx.fn("Subpath.__copy__", "R18.1")
    ok = False
    for c in ast.walk(sc):
        if isinstance(c, ast.Call) and call_name(c) == "Subpath" and c.args:
            a0 = c.args[0]
            ok = ok or (isinstance(a0, ast.Call) and call_name(a0) in ("Path", "copy") and a0.args and attr_chain(a0.args[0]) == ["self", "_path"])
    t = Taint(sc, lambda n: isinstance(n, ast.Call) and call_name(n) in ("Path", "copy") and n.args and attr_chain(n.args[0]) == ["self", "_path"], through_containers=False)
    ok = ok or any(isinstance(c, ast.Call) and call_name(c) == "Subpath" and c.args and isinstance(c.args[0], ast.Name) and c.args[0].id in t.names for c in ast.walk(sc))
    ctx.ob("R18.1", "Subpath.__copy__[path copied]", ok, "", sc.lineno,
           "a subpath copy is a window onto a copy of the path (which must itself copy the segments, see Path.__init__[from Shape])")
    for qual in ("Rect.__copy__", "Ellipse.__copy__", "Circle.__copy__", "SimpleLine.__copy__", "Polyline.__copy__", "Polygon.__copy__", "Group.__copy__", "Text.__copy__", "Image.__copy__"):
        f = ctx.fn(qual, "R18.1")
        cn = qual.split(".")[0]
        r = [s for s in f.body if isinstance(s, ast.Return)]
        ctx.ob("R18.1", qual, bool(r) and ast.unparse(r[0].value) == "%s(self)" % cn, ast.unparse(r[0]) if r else "", f.lineno, "copy goes through the copy constructor (property_by_object)")
    ip = ctx.fn("_Polyshape._init_points", "R18.1")
    stores = [x for x in ast.walk(ip) if isinstance(x, ast.Assign) and attr_chain(x.targets[0]) == ["self", "points"]]
    par = ip.args.args[1].arg if len(ip.args.args) > 1 else None
    tpar = Taint(ip, lambda n: isinstance(n, ast.Name) and n.id == par, through_containers=False)
    def fresh(v):
        v = strip_list(v)
        if isinstance(v, (ast.List, ast.Tuple)) and not v.elts:
            return "empty"
        if isinstance(v, ast.Call) and call_name(v) in ("list", "tuple") and not v.args:
            return "empty"
        if isinstance(v, ast.Call) and call_name(v) == "map" and len(v.args) == 2 and isinstance(v.args[0], ast.Name) and v.args[0].id in ("Point", "copy"):
            return "fresh"
        if isinstance(v, (ast.ListComp, ast.GeneratorExp)) and isinstance(v.elt, ast.Call) and call_name(v.elt) in ("Point", "copy"):
            return "fresh"
        return None

    bad = [x for x in stores if fresh(x.value) is None]
    good = [x for x in stores if fresh(x.value) == "fresh"]
    ctx.ob("R18.1", "_Polyshape._init_points[points copied]", bool(good) and not bad, "; ".join(ast.unparse(x)[:60] for x in stores)[:200], ip.lineno, "a polyshape copy owns copies of the points")


# --------------------------------------------------------------------------- R18.2
OPERATORS = ["__mul__", "__rmul__", "__matmul__", "__rmatmul__", "__add__", "__radd__", "__sub__", "__rsub__", "__abs__", "__invert__", "__neg__", "__truediv__", "__eq__", "__ne__"]
OP_CLASSES = ["Length", "Color", "Point", "Matrix", "Transformable", "Shape", "PathSegment", "Path", "Subpath", "Group"]


def operand_writes(ctx):
    for cname in OP_CLASSES:
        ci = ctx.m.cls(cname, "R18.2")
        for op in OPERATORS:
            name = ci.aliases.get(op, op)
            fn = ci.methods.get(name)
            if fn is None:
                continue
            params = [a.arg for a in fn.args.args]
            operands = set(params[:2])
            bad = []
            # locals re-bound from an operand (other = Matrix(other), second = other) are new objects or aliases
            alias = set()
            for s in ast.walk(fn):
                if isinstance(s, ast.Assign) and isinstance(s.targets[0], ast.Name) and isinstance(s.value, ast.Name) and s.value.id in operands:
                    alias.add(s.targets[0].id)
            rebound = set()
            for s in stmts_in(fn.body):
                if isinstance(s, ast.Assign) and isinstance(s.targets[0], ast.Name) and s.targets[0].id in operands and isinstance(s.value, ast.Call):
                    rebound.add((s.targets[0].id, s.lineno))
            for s in ast.walk(fn):
                tgt = None
                if isinstance(s, ast.Assign):
                    for t in s.targets:
                        for tt in (t.elts if isinstance(t, ast.Tuple) else [t]):
                            ch = attr_chain(tt) if isinstance(tt, ast.Attribute) else None
                            if ch and ch[0] in operands | alias:
                                bad.append("writes %s line %d" % (".".join(ch), s.lineno))
                if isinstance(s, ast.AugAssign):
                    ch = attr_chain(s.target) if isinstance(s.target, ast.Attribute) else ([s.target.id] if isinstance(s.target, ast.Name) else None)
                    if ch and ch[0] in operands | alias:
                        # `other = Length(other)` earlier makes `other` a fresh local
                        if len(ch) == 1 and any(nm == ch[0] and ln < s.lineno for nm, ln in rebound):
                            continue
                        bad.append("augmented assignment to %s line %d" % (".".join(ch), s.lineno))
                if isinstance(s, ast.Call) and isinstance(s.func, ast.Attribute) and s.func.attr in INPLACE_METHODS:
                    ch = attr_chain(s.func.value)
                    if ch and ch[0] in operands | alias and not (name in ("__eq__", "__ne__") and s.func.attr == "render"):
                        if len(ch) == 1 and any(nm == ch[0] and ln < s.lineno for nm, ln in rebound):
                            continue
                        bad.append("in-place call %s.%s() line %d" % (".".join(ch), s.func.attr, s.lineno))
            if not name.startswith("__i") and name not in ("__eq__", "__ne__"):
                for r in ast.walk(fn):
                    if isinstance(r, ast.Return) and isinstance(r.value, ast.Name) and r.value.id in operands | alias:
                        bad.append("returns the operand object `%s` itself line %d (result and operand are one object)" % (r.value.id, r.lineno))
            inplace_alias = name.startswith("__i")
            ctx.ob("R18.2", "%s.%s%s" % (cname, op, " (= %s)" % name if name != op else ""), not bad, "; ".join(bad) or "writes only locals", fn.lineno,
                   "a non-in-place operator modifies one of its operands")


# --------------------------------------------------------------------------- R18.3
def adoption(ctx):
    # PathSegment.__add__ (= __iadd__): Path(self, other) adopts both operand segments and links other.start
    ci = ctx.m.cls("PathSegment", "R18.3")
    fn = ci.methods[ci.aliases.get("__add__", "__add__")]
    for c in ast.walk(fn):
        if isinstance(c, ast.Call) and call_name(c) == "Path" and len(c.args) >= 1:
            raw = [ast.unparse(a) for a in c.args if isinstance(a, ast.Name) and a.id in ("self", "other")]
            if len(c.args) == 1 and raw == ["self"]:
                # Path(self) + other: single-segment constructor adopts self
                pass
            ctx.ob("R18.3", "PathSegment.__add__[%s]" % ast.unparse(c)[:40], not raw, "operand objects stored in the result: %s" % raw, c.lineno,
                   "segment + x builds a path out of the operand objects themselves: linking start points and later edits of the path rewrite the operands")
    # Path.__add__ / __radd__ with a PathSegment operand
    pa = ctx.fn("Path.__add__", "R18.3")
    ia = ctx.fn("Path.__iadd__", "R18.3")
    oi = ia.args.args[1].arg
    seg_path = follow(ctx, "R18.3", ia, {oi: "Line"})
    # does `path += segment` store the operand object itself?
    iadd_adopts = bool(calls_in(seg_path.stmts, lambda c: isinstance(c.func, ast.Attribute) and c.func.attr in ("append", "insert", "extend")
                                and any(isinstance(a, ast.Name) and a.id == oi for a in c.args)))
    oa = pa.args.args[1].arg
    add_path = follow(ctx, "R18.3", pa, {oa: "Line"})
    # in `path + segment` the operand is replaced by a copy before it is handed to +=
    add_copies = any(isinstance(x, ast.Assign) and isinstance(x.targets[0], ast.Name) and x.targets[0].id == oa and isinstance(x.value, ast.Call)
                     and (call_name(x.value) == "copy" or (isinstance(x.value.func, ast.Attribute) and x.value.func.attr == "__copy__")) for x in add_path.stmts) \
        or bool(calls_in(add_path.stmts, lambda c: call_name(c) == "copy" and c.args and isinstance(c.args[0], ast.Name) and c.args[0].id == oa)
                and not any(isinstance(x, ast.AugAssign) and isinstance(x.value, ast.Name) and x.value.id == oa for x in add_path.stmts))
    ctx.ob("R18.3", "Path.__add__[PathSegment]", (not iadd_adopts) or add_copies, "+= appends the operand object: %s; + copies it first: %s" % (iadd_adopts, add_copies), pa.lineno,
           "path + segment stores the operand segment in the new path and re-links its start point (Path('M9,9') + line changes line.start)")
    # the same pair for the subpath view: Subpath.__iadd__ inserts the operand object into the backing path
    spa = ctx.fn("Subpath.__add__", "R18.3")
    sia = ctx.fn("Subpath.__iadd__", "R18.3")
    soi = sia.args.args[1].arg
    s_seg = follow(ctx, "R18.3", sia, {soi: "Line"})
    s_adopts = bool(calls_in(s_seg.stmts, lambda c: isinstance(c.func, ast.Attribute) and c.func.attr in ("append", "insert", "extend")
                             and any(isinstance(a, ast.Name) and a.id == soi for a in c.args)))
    soa = spa.args.args[1].arg
    s_add = follow(ctx, "R18.3", spa, {soa: "Line"})
    s_copies = any(isinstance(x, ast.Assign) and isinstance(x.targets[0], ast.Name) and x.targets[0].id == soa and isinstance(x.value, ast.Call)
                   and (call_name(x.value) == "copy" or (isinstance(x.value.func, ast.Attribute) and x.value.func.attr == "__copy__")) for x in s_add.stmts) \
        or bool(calls_in(s_add.stmts, lambda c: call_name(c) == "copy" and c.args and isinstance(c.args[0], ast.Name) and c.args[0].id == soa)
                and not any(isinstance(x, ast.AugAssign) and isinstance(x.value, ast.Name) and x.value.id == soa for x in s_add.stmts))
    ctx.ob("R18.3", "Subpath.__add__[PathSegment]", (not s_adopts) or s_copies, "+= inserts the operand object: %s; + copies it first: %s" % (s_adopts, s_copies), spa.lineno,
           "subpath + segment stores the operand segment in the new path and re-links its start point (seg.start becomes the subpath's end)")
    ra = ctx.fn("Path.__radd__", "R18.3")
    orr = ra.args.args[1].arg
    adopt = [c for c in ast.walk(ra) if isinstance(c, ast.Call) and isinstance(c.func, ast.Attribute) and c.func.attr in ("insert", "append", "extend") and any(isinstance(a, ast.Name) and a.id == orr for a in c.args)]
    ctx.ob("R18.3", "Path.__radd__[PathSegment]", not adopt, "; ".join(ast.unparse(a) for a in adopt), ra.lineno, "segment + path stores the operand segment in the new path")
    sa = ctx.fn("Subpath.__radd__", "R18.3")
    osr = sa.args.args[1].arg
    adopt = [c for c in ast.walk(sa) if isinstance(c, ast.Call) and isinstance(c.func, ast.Attribute) and c.func.attr in ("insert", "append", "extend") and any(isinstance(a, ast.Name) and a.id == osr for a in c.args)]
    ctx.ob("R18.3", "Subpath.__radd__[PathSegment]", not adopt, "; ".join(ast.unparse(a) for a in adopt), sa.lineno, "segment + subpath stores the operand segment in the new path")


def presence_tests(ctx):
    """property_by_object methods rebuild each field of the source (`Color(s.fill) if s.fill is not None else None`).  A test of
    the field's truth value instead drops every falsy value - a stroke width of 0, an empty point list, a zero length - and the
    copy is no longer equal in value to its source.  All conditionals over a field of the source in all copy constructors are
    listed; each must compare with None (or be some other explicit comparison)."""
    n = 0
    for q, fn in ctx.m.all_functions():
        if q.split(".")[-1] != "property_by_object" or len(fn.args.args) < 2:
            continue
        src = fn.args.args[1].arg
        for node in ast.walk(fn):
            if not isinstance(node, (ast.IfExp, ast.If)):
                continue
            bare = []

            def truthy_fields(t):
                if isinstance(t, ast.BoolOp):
                    for v in t.values:
                        truthy_fields(v)
                elif isinstance(t, ast.UnaryOp) and isinstance(t.op, ast.Not):
                    truthy_fields(t.operand)
                elif isinstance(t, ast.Attribute) and isinstance(t.value, ast.Name) and t.value.id == src:
                    bare.append(t.attr)

            mentions = any(isinstance(x, ast.Attribute) and isinstance(x.value, ast.Name) and x.value.id == src for x in ast.walk(node.test))
            if not mentions:
                continue
            truthy_fields(node.test)
            n += 1
            ctx.ob("R18.5", "%s[presence of %s]" % (q, ", ".join(sorted({x.attr for x in ast.walk(node.test) if isinstance(x, ast.Attribute) and isinstance(x.value, ast.Name) and x.value.id == src}))),
                   not bare, "test `%s`" % ast.unparse(node.test)[:60], node.lineno,
                   "a truth test takes 0 / 0.0 / an empty value for 'absent': the copy of an element with stroke-width 0 has stroke_width None")
    ctx.need(n >= 5, "R18.5", "conditionals over source fields in copy constructors not found (%d)" % n)


def linked_points_are_copies(ctx, rule="R18.1"):
    """Path._validate_connection links neighbouring segments by giving one the other's point.  Every such store must be a copy
    (Point(x) / copy(x)): with the object itself stored, the end of one segment and the start of the next are one Point, and an
    in-place transform (reify, @=, Subpath *=) maps it twice."""
    n = 0
    for q in ("Path._validate_connection", "Path._validate_close", "Path._validate_move", "Path._validate_subpath"):
        fn = ctx.fn(q, rule)
        for st in ast.walk(fn):
            if isinstance(st, ast.Assign) and len(st.targets) == 1 and isinstance(st.targets[0], ast.Attribute) and st.targets[0].attr in ("start", "end"):
                v = st.value
                arms = [v.body, v.orelse] if isinstance(v, ast.IfExp) else [v]
                n += 1
                ok = all((isinstance(a, ast.Call) and call_name(a) in ("Point", "copy")) or (isinstance(a, ast.Constant) and a.value is None) for a in arms)
                ctx.ob(rule, "%s[%s = ...]" % (q, ast.unparse(st.targets[0])), ok, ast.unparse(v)[:60], st.lineno,
                       "a linked end point must be a copy: path1 + path2 followed by an in-place transform otherwise moves the shared point twice")
    ctx.need(n >= 6, rule, "connection stores not found (%d)" % n)
