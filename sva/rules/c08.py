"""C08 - bounding boxes contain the geometry and are tight."""
import ast

from ..algebra import Alg, Uninterpreted, atom, const, opaque_name
from ..model import AnalysisError, attr_chain, call_name, norm, renamed, stmts_in, walk_no_nested

EXPLANATION = (
    "Static rules over every bbox implementation of segments, paths, subpaths, shapes, groups and uses (no execution). "
    "R08.1 ordered box: every returned 4-tuple has low components provably <= high components (min/max over the same "
    "collection, identical expressions, lo - d / hi + d with one d, or a callee summarised as returning an ordered pair). "
    "R08.2 stroke growth: the box is (min - d, min - d, max + d, max + d) with d = half the implicit stroke width when "
    "transformed, half the plain one otherwise, and d = 0 unless with_stroke is set, a width exists and a stroke is painted. "
    "R08.3 union: containers take min of mins / max of maxs position-wise over the boxes of their flattened rendered "
    "descendants and skip empty boxes; Group and Use are each held to the same obligations. R08.4 Bezier extrema: the quadratic root per axis is "
    "(p0 - p1)/(p0 - 2 p1 + p2), kept iff 0 < t < 1, the candidate list contains both end points and the curve point at the "
    "root; for the cubic, denom/tau/delta and both roots are checked against the derivative A t^2 + B t + C through the "
    "identities A = -denom, B = 2 tau, delta = tau^2 - A C, and the near-linear fallback against -C/B. "
    "R08.5 arc candidates: the arc box enumerates the ellipse's axis extrema as angle_inv + k*quarter-turn filtered by the sweep "
    "interval; since the start angle lies in (-pi, pi], |sweep| <= 2 pi and angle_inv in (-pi/2, pi/2), k must cover at least "
    "[-2, 4] or an extremum inside the sweep is never tested (the box then excludes part of the arc). "
    "Not decided: "
    "containment and tightness for arcs (candidate angles are value dependent) and cubics near the 1e-8 threshold."
)
ASSUMPTIONS = [
    "Stroke widths are non-negative (lo - d <= hi + d needs d >= 0).",
    "Arc extremum angles (atan based enumeration over k) are numeric and not decided; only the ordered-box rule covers Arc.bbox.",
]
FLOORS = {"R08.1": 9, "R08.2": 4, "R08.3": 4, "R08.4": 12, "R08.5": 4}

BBOXES = ["PathSegment.bbox", "Move.bbox", "QuadraticBezier.bbox", "CubicBezier.bbox", "Arc.bbox", "Shape.bbox", "Subpath.bbox", "Group.union_bbox", "Use.union_bbox"]


def run(ctx):
    ctx.rule("R08.1", "ordered box")
    ctx.rule("R08.2", "stroke growth")
    ctx.rule("R08.3", "union of descendant boxes")
    ctx.rule("R08.4", "Bezier extremum formulas")
    ctx.rule("R08.5", "arc extremum candidates cover the whole angular range")
    for q in BBOXES:
        ordered_box(ctx, q)
    stroke(ctx)
    union(ctx)
    quadratic(ctx)
    cubic(ctx)
    arc_candidates(ctx)


# --------------------------------------------------------------------------- R08.1
def single_defs(fn):
    """name -> value node for names assigned exactly once in fn (tuple unpacking gives ('unpack', call, index))."""
    counts = {}
    defs = {}
    for s in ast.walk(fn):
        if isinstance(s, ast.Assign):
            for t in s.targets:
                if isinstance(t, ast.Name):
                    counts[t.id] = counts.get(t.id, 0) + 1
                    defs[t.id] = s.value
                elif isinstance(t, ast.Tuple):
                    for i, e in enumerate(t.elts):
                        if isinstance(e, ast.Name):
                            counts[e.id] = counts.get(e.id, 0) + 1
                            defs[e.id] = ("unpack", s.value, i)
        elif isinstance(s, ast.AugAssign) and isinstance(s.target, ast.Name):
            counts[s.target.id] = counts.get(s.target.id, 0) + 2
    return {k: v for k, v in defs.items() if counts.get(k) == 1}


def returns_ordered_pair(ctx, fn):
    defs = single_defs(fn)
    for r in ast.walk(fn):
        if isinstance(r, ast.Return) and isinstance(r.value, ast.Tuple) and len(r.value.elts) == 2:
            if not ordered(ctx, fn, r.value.elts[0], r.value.elts[1], defs):
                return False
    return True


def ordered(ctx, fn, lo, hi, defs, depth=0):
    if depth > 4:
        return False
    if norm(lo) == norm(hi):
        return True
    # resolve simple names
    if isinstance(lo, ast.Name) and isinstance(hi, ast.Name) and lo.id in defs and hi.id in defs:
        dl, dh = defs[lo.id], defs[hi.id]
        if isinstance(dl, tuple) and isinstance(dh, tuple):
            if norm(dl[1]) == norm(dh[1]) and dl[2] == 0 and dh[2] == 1:
                call = dl[1]
                if isinstance(call, ast.Call) and isinstance(call.func, ast.Attribute) and isinstance(call.func.value, ast.Name) and call.func.value.id == "self":
                    cls = getattr(fn, "_class", None)
                    try:
                        callee = ctx.m.func("%s.%s" % (cls, call.func.attr))
                    except AnalysisError:
                        return False
                    return returns_ordered_pair(ctx, callee)
            return False
        if not isinstance(dl, tuple) and not isinstance(dh, tuple):
            return ordered(ctx, fn, dl, dh, defs, depth + 1)
        return False
    if isinstance(lo, ast.Call) and isinstance(hi, ast.Call) and isinstance(lo.func, ast.Name) and isinstance(hi.func, ast.Name) \
            and lo.func.id == "min" and hi.func.id == "max":
        if sorted(norm(a) for a in lo.args) == sorted(norm(a) for a in hi.args):
            return True
        # min over the low column / max over the matching high column of a list of boxes (each box ordered by this same rule)
        if len(lo.args) == 1 and len(hi.args) == 1 and isinstance(lo.args[0], ast.Name) and isinstance(hi.args[0], ast.Name):
            dl, dh = defs.get(lo.args[0].id), defs.get(hi.args[0].id)
            if isinstance(dl, tuple) and isinstance(dh, tuple) and norm(dl[1]) == norm(dh[1]) and "zip(*" in ast.unparse(dl[1]) and dh[2] == dl[2] + 2 and dl[2] in (0, 1):
                return True
        return False
    if isinstance(lo, ast.BinOp) and isinstance(hi, ast.BinOp) and isinstance(lo.op, ast.Sub) and isinstance(hi.op, ast.Add) and norm(lo.right) == norm(hi.right):
        return ordered(ctx, fn, lo.left, hi.left, defs, depth + 1)
    return False


def ordered_box(ctx, qual):
    fn = ctx.fn(qual, "R08.1")
    defs = single_defs(fn)
    n = 0
    for r in sorted((x for x in walk_no_nested(fn) if isinstance(x, ast.Return)), key=lambda x: x.lineno):
        if not isinstance(r, ast.Return) or r.value is None:
            continue
        v = r.value
        if isinstance(v, ast.Constant) and v.value is None:
            continue
        if isinstance(v, ast.Tuple) and len(v.elts) == 4:
            n += 1
            okx = ordered(ctx, fn, v.elts[0], v.elts[2], defs)
            oky = ordered(ctx, fn, v.elts[1], v.elts[3], defs)
            ctx.ob("R08.1", "%s[return line-order %d]" % (qual, n), okx and oky, ast.unparse(v)[:160], r.lineno,
                   "a bounding box must have xmin <= xmax and ymin <= ymax on every path (not provable for this return)")
        elif isinstance(v, ast.Call):
            n += 1
            cn = ast.unparse(v.func)
            ctx.ob("R08.1", "%s[delegates to %s]" % (qual, cn), cn.endswith("bbox") or cn.endswith("union_bbox"), ast.unparse(v)[:100], r.lineno,
                   "a box may be delegated only to another bounding-box routine")
        else:
            raise AnalysisError("R08.1", "%s: return shape not recognised: %s" % (qual, ast.unparse(v)[:80]))
    ctx.need(n >= 1, "R08.1", "%s: no box returned" % qual)


# --------------------------------------------------------------------------- R08.2
def stroke(ctx):
    for qual, owner, impl in (("Shape.bbox", "self", True), ("Subpath.bbox", "self._path", False)):
        fn = ctx.fn(qual, "R08.2")
        guards = [s for s in stmts_in(fn.body) if isinstance(s, ast.If) and "with_stroke" in ast.unparse(s.test)]
        ctx.need(len(guards) == 1, "R08.2", "%s: stroke guard not found" % qual)
        g = guards[0]
        conj = [ast.unparse(v) for v in (g.test.values if isinstance(g.test, ast.BoolOp) and isinstance(g.test.op, ast.And) else [g.test])]
        want = {"with_stroke", "%s.stroke_width is not None" % owner}
        painted = [c for c in conj if "stroke is None" in c or "stroke.value is None" in c or "stroke is not None" in c]
        ok = want <= set(conj) and len(painted) >= 1 and all(("%s.stroke is None" % owner in c and "%s.stroke.value is None" % owner in c and c.startswith("not (")) or
                                                               ("is not None" in c) for c in painted)
        ctx.ob("R08.2", "%s[stroke guard]" % qual, ok, " and ".join(conj), g.lineno,
               "the box grows only when with_stroke is requested, a width exists and a stroke is actually painted")
        # delta definitions
        deltas = {}
        for s in stmts_in([g]):
            if isinstance(s, ast.Assign) and isinstance(s.targets[0], ast.Name):
                ctxt = "else" if any(s is x for e in g.orelse for x in ast.walk(e)) else "then"
                inner = None
                p = getattr(s, "_parent", None)
                if isinstance(p, ast.If) and p is not g:
                    inner = ("transformed" if any(s is x for x in p.body) else "untransformed") if ast.unparse(p.test) == "transformed" else "?"
                deltas[(ctxt, inner)] = (s.targets[0].id, s.value)
        names = {v[0] for v in deltas.values()}
        ctx.need(len(names) == 1, "R08.2", "%s: one delta variable expected" % qual)
        dname = names.pop()

        def half(expr_src):
            try:
                return Alg().ev(ast.parse(expr_src, mode="eval").body)
            except Uninterpreted:
                return None

        ok0 = ("else", None) in deltas and Alg().ev(deltas[("else", None)][1]).is_zero()
        ctx.ob("R08.2", "%s[no stroke -> 0]" % qual, ok0, "", g.lineno, "without a painted stroke the box is not grown")
        if impl:
            t = deltas.get(("then", "transformed"))
            u = deltas.get(("then", "untransformed"))
            ok = t is not None and u is not None and Alg().ev(t[1]) == half("self.implicit_stroke_width / 2") and Alg().ev(u[1]) == half("self.stroke_width / 2")
            ctx.ob("R08.2", "%s[half width]" % qual, ok, "%s / %s" % (ast.unparse(t[1]) if t else None, ast.unparse(u[1]) if u else None), g.lineno,
                   "grow by half the effective (transformed) stroke width when transformed, half the plain width otherwise")
        else:
            u = deltas.get(("then", None))
            ok = u is not None and Alg().ev(u[1]) == half("%s.stroke_width / 2" % owner)
            ctx.ob("R08.2", "%s[half width]" % qual, ok, ast.unparse(u[1]) if u else "", g.lineno, "grow by half the stroke width")
            # the transformed case goes through Path(self).bbox with both flags forwarded
            d = [r for r in ast.walk(fn) if isinstance(r, ast.Return) and isinstance(r.value, ast.Call) and ast.unparse(r.value.func) == "Path(self).bbox"]
            kw = {k.arg: ast.unparse(k.value) for k in d[0].value.keywords} if d else {}
            ctx.ob("R08.2", "%s[transformed delegation]" % qual, kw == {"transformed": "transformed", "with_stroke": "with_stroke"}, str(kw), fn.lineno,
                   "the transformed box of a subpath is the box of its path form with the same flags")
        rets = [r for r in ast.walk(fn) if isinstance(r, ast.Return) and isinstance(r.value, ast.Tuple) and len(r.value.elts) == 4]
        ctx.need(len(rets) == 1, "R08.2", "%s: final box not found" % qual)
        e = r4 = rets[0].value.elts
        shape_ok = all(isinstance(x, ast.BinOp) and ast.unparse(x.right) == dname for x in e) and isinstance(e[0].op, ast.Sub) and isinstance(e[1].op, ast.Sub) \
            and isinstance(e[2].op, ast.Add) and isinstance(e[3].op, ast.Add)
        ctx.ob("R08.2", "%s[grown box]" % qual, shape_ok, ast.unparse(rets[0].value), rets[0].lineno, "low sides move down/left by d, high sides up/right by d")
        zip_positions(ctx, "R08.2", qual, fn, [x.left for x in e])


def zip_positions(ctx, rule, qual, fn, elts):
    """(xmins, ymins, xmaxs, ymaxs) = zip(*boxes): position i of the unpack is reduced by min (i < 2) / max (i >= 2) at return position i."""
    unp = None
    for s in ast.walk(fn):
        if isinstance(s, ast.Assign) and isinstance(s.targets[0], ast.Tuple) and len(s.targets[0].elts) == 4 and "zip(*" in ast.unparse(s.value):
            unp = [t.id for t in s.targets[0].elts]
    ctx.need(unp is not None, rule, "%s: zip(*boxes) unpack not found" % qual)
    ok = True
    for i, x in enumerate(elts):
        want = "%s(%s)" % ("min" if i < 2 else "max", unp[i])
        if ast.unparse(x) != want:
            ok = False
    ctx.ob(rule, "%s[min of mins / max of maxs]" % qual, ok, ", ".join(ast.unparse(x) for x in elts), fn.lineno,
           "the union takes the minimum of the low sides and the maximum of the high sides, position by position")


# --------------------------------------------------------------------------- R08.3
def union(ctx):
    g = ctx.fn("Group.union_bbox", "R08.3")
    u = ctx.fn("Use.union_bbox", "R08.3")
    for qual, fn in (("Group.union_bbox", g), ("Use.union_bbox", u)):
        rets = [r for r in ast.walk(fn) if isinstance(r, ast.Return) and isinstance(r.value, ast.Tuple) and len(r.value.elts) == 4]
        ctx.need(len(rets) == 1, "R08.3", "%s: final box not found" % qual)
        zip_positions(ctx, "R08.3", qual, fn, rets[0].value.elts)
        src = ast.unparse(fn)
        skip_none = any(isinstance(s, ast.If) and ast.unparse(s.test) == "box is None" and isinstance(s.body[0], ast.Continue) for s in ast.walk(fn))
        empty = any(isinstance(s, ast.If) and ast.unparse(s.test) in ("len(boxes) == 0", "not boxes") and isinstance(s.body[0], ast.Return) for s in ast.walk(fn))
        fwd = [c for c in ast.walk(fn) if isinstance(c, ast.Call) and isinstance(c.func, ast.Attribute) and c.func.attr == "bbox"]
        kw = {k.arg: ast.unparse(k.value) for k in fwd[0].keywords} if fwd else {}
        ctx.ob("R08.3", "%s[skips empty, forwards flags]" % qual, skip_none and empty and kw == {"transformed": "transformed", "with_stroke": "with_stroke"},
               "skip None=%s empty->None=%s flags=%s" % (skip_none, empty, kw), fn.lineno, "children without geometry contribute nothing; flags reach every child")
    for cname in ("Group", "Use"):
        fn = ctx.fn("%s.bbox" % cname, "R08.3")
        calls = [c for c in ast.walk(fn) if isinstance(c, ast.Call) and ast.unparse(c.func).endswith("union_bbox")]
        ok = len(calls) == 1 and ast.unparse(calls[0].args[0]) == "self.select()" and {k.arg: ast.unparse(k.value) for k in calls[0].keywords} == {"transformed": "transformed", "with_stroke": "with_stroke"}
        ctx.ob("R08.3", "%s.bbox[all flattened descendants]" % cname, ok, "", fn.lineno, "a container's box is the union over all of its flattened descendants")
        sel = ctx.fn("%s.select" % cname, "R08.3")
        src = ast.unparse(sel)
        ctx.ob("R08.3", "%s.select[recurses into containers]" % cname, "isinstance(subitem, (Group, Use))" in src and "subitem.select(conditional)" in src, "", sel.lineno,
               "descendants of nested groups and uses are included")


# --------------------------------------------------------------------------- R08.4
def quadratic(ctx):
    fn = ctx.fn("QuadraticBezier.bbox", "R08.4")
    alg = Alg()
    blocks = []
    cur = {}
    body = [s for s in fn.body if not (isinstance(s, ast.Expr) and isinstance(s.value, ast.Constant))]

    def handle(stmts):
        for s in stmts:
            if isinstance(s, ast.Assign):
                try:
                    alg.assign(s)
                except Uninterpreted:
                    if isinstance(s.targets[0], ast.Name):
                        alg.env.pop(s.targets[0].id, None)
                continue
            if isinstance(s, ast.If):
                t = ast.unparse(s.test)
                if t.endswith("!= 0"):
                    handle(s.body)  # generic case: non-zero second difference
                    continue
                if isinstance(s.test, ast.Compare) and len(s.test.ops) == 2:
                    c = s.test
                    ok_range = isinstance(c.left, ast.Constant) and c.left.value == 0 and isinstance(c.ops[0], ast.Lt) and isinstance(c.ops[1], ast.Lt) \
                        and isinstance(c.comparators[1], ast.Constant) and c.comparators[1].value == 1
                    tname = ast.unparse(c.comparators[0])
                    lst = s.body[0] if s.body and isinstance(s.body[0], ast.Assign) else None
                    els = s.orelse[0] if s.orelse and isinstance(s.orelse[0], ast.Assign) else None
                    blocks.append({"t": alg.env.get(tname), "range": ok_range, "with": ast.unparse(lst.value) if lst is not None else "", "without": ast.unparse(els.value) if els is not None else "",
                                   "target": ast.unparse(lst.targets[0]) if lst is not None else "", "line": s.lineno, "tname": tname})
                    continue
            if isinstance(s, ast.Return):
                continue
            raise AnalysisError("R08.4", "QuadraticBezier.bbox: statement not recognised: %s" % ast.unparse(s)[:60])

    handle(body)
    ctx.need(len(blocks) == 2, "R08.4", "QuadraticBezier.bbox: two axis blocks expected, found %d" % len(blocks))
    for blk, ax in zip(blocks, "xy"):
        p0, p1, p2 = (atom("self.%s.%s" % (f, ax)) for f in ("start", "control", "end"))
        want = (p0 - p1) / (p0 - const(2) * p1 + p2)
        ctx.ob("R08.4", "QuadraticBezier.bbox[%s root]" % ax, blk["t"] is not None and blk["t"] == want, "%s" % (blk["t"],), blk["line"],
               "the interior extremum of a quadratic Bezier is at t = (p0 - p1)/(p0 - 2 p1 + p2)")
        ctx.ob("R08.4", "QuadraticBezier.bbox[%s range]" % ax, blk["range"], "", blk["line"], "only roots strictly inside (0, 1) are interior extrema")
        w = blk["with"].replace(" ", "")
        wo = blk["without"].replace(" ", "")
        ok = w == "[self.start.%s,self.end.%s,self.point(%s).%s]" % (ax, ax, blk["tname"], ax) and wo == "[self.start.%s,self.end.%s]" % (ax, ax) and blk["target"] == "%s_values" % ax
        ctx.ob("R08.4", "QuadraticBezier.bbox[%s candidates]" % ax, ok, "%s | %s" % (blk["with"], blk["without"]), blk["line"],
               "candidates are both end points plus the curve point at the root, taken on the same axis")


def cubic(ctx):
    fn = ctx.fn("CubicBezier._real_minmax", "R08.4")
    v = fn.args.args[1].arg
    # a = [c[v] for c in self]
    avar = None
    for s in fn.body:
        if isinstance(s, ast.Assign) and isinstance(s.value, ast.ListComp) and ast.unparse(s.value).replace(" ", "") == "[c[%s]forcinself]" % v:
            avar = s.targets[0].id
    ctx.need(avar is not None, "R08.4", "_real_minmax: coordinate list not found")
    a0, a1, a2, a3 = (atom("%s[%d]" % (avar, i)) for i in range(4))
    A = a3 - const(3) * a2 + const(3) * a1 - a0
    B = const(2) * (a0 - const(2) * a1 + a2)
    C = a1 - a0
    alg = Alg()
    env = alg.env
    top = [s for s in fn.body if isinstance(s, ast.If)]
    ctx.need(len(top) == 1, "R08.4", "_real_minmax: main split not found")
    for s in fn.body:
        if isinstance(s, ast.Assign) and isinstance(s.targets[0], ast.Name) and s.targets[0].id not in (avar,):
            try:
                alg.assign(s)
            except Uninterpreted:
                pass
    main = top[0]
    t = main.test
    ok_thr = isinstance(t, ast.Compare) and ast.unparse(t.left) == "abs(denom)" and isinstance(t.ops[0], (ast.GtE, ast.Gt))
    ctx.ob("R08.4", "_real_minmax[split on |denom|]", ok_thr, ast.unparse(t), main.lineno, "the quadratic-root branch is taken when the leading coefficient is not negligible")
    denom = env.get("denom")
    ctx.ob("R08.4", "_real_minmax[denom = -A]", denom is not None and denom == -A, str(denom), main.lineno, "denom must be minus the leading coefficient of the derivative")
    # quadratic branch
    inner = None
    for s in main.body:
        if isinstance(s, ast.Assign):
            alg.assign(s)
        if isinstance(s, ast.If):
            inner = s
    delta = env.get("delta")
    ctx.need(inner is not None and delta is not None, "R08.4", "_real_minmax: discriminant block not found")
    ctx.ob("R08.4", "_real_minmax[discriminant guard]", ast.unparse(inner.test).replace(" ", "") in ("delta>=0", "delta>0"), ast.unparse(inner.test), inner.lineno,
           "real roots exist only for a non-negative discriminant")
    roots = {}
    ranges = []
    for s in inner.body:
        if isinstance(s, ast.Assign):
            alg.assign(s)
        if isinstance(s, ast.If):
            ranges.append(s)
    tau = env.get("tau")
    ctx.ob("R08.4", "_real_minmax[tau = B/2]", tau is not None and tau == B / const(2), str(tau), inner.lineno, "tau must be half the linear coefficient of the derivative")
    ctx.ob("R08.4", "_real_minmax[delta = tau^2 - A C]", tau is not None and delta == tau * tau - A * C, str(delta), inner.lineno,
           "delta must be a quarter of the discriminant of the derivative")
    sq = atom(opaque_name("sqrt", [delta]))
    r1, r2 = env.get("r1"), env.get("r2")
    ok = r1 is not None and r2 is not None and tau is not None and ((r1 == (tau + sq) / denom and r2 == (tau - sq) / denom) or (r2 == (tau + sq) / denom and r1 == (tau - sq) / denom))
    ctx.ob("R08.4", "_real_minmax[roots]", ok, "r1=%s r2=%s" % (r1, r2), inner.lineno, "roots of the derivative are (tau +/- sqrt(delta))/denom")
    n_rng = 0
    for s in ranges:
        c = s.test
        okr = isinstance(c, ast.Compare) and len(c.ops) == 2 and isinstance(c.left, ast.Constant) and c.left.value == 0 and isinstance(c.comparators[1], ast.Constant) \
            and c.comparators[1].value == 1 and isinstance(c.ops[0], (ast.Lt, ast.LtE)) and isinstance(c.ops[1], (ast.Lt, ast.LtE))
        app = ast.unparse(s.body[0]).replace(" ", "") == "local_extremizers.append(%s)" % ast.unparse(c.comparators[0])
        n_rng += 1
        ctx.ob("R08.4", "_real_minmax[%s kept iff in (0,1)]" % ast.unparse(c.comparators[0]), okr and app, ast.unparse(s)[:80], s.lineno, "a root is a candidate only inside the parameter interval")
    ctx.need(n_rng == 2, "R08.4", "_real_minmax: two root range tests expected")
    # fallback branch: linear derivative
    alg2 = Alg()
    inner2 = None
    for s in main.orelse:
        if isinstance(s, ast.Assign):
            alg2.assign(s)
        if isinstance(s, ast.If):
            inner2 = s
    ctx.need(inner2 is not None, "R08.4", "_real_minmax: fallback block not found")
    for s in inner2.body:
        if isinstance(s, ast.Assign):
            alg2.assign(s)
    r0 = alg2.env.get("r0")
    ctx.ob("R08.4", "_real_minmax[fallback root]", r0 is not None and r0 == -C / B, str(r0), inner2.lineno, "with a vanishing leading coefficient the derivative root is -C/B")
    gsrc = ast.unparse(inner2.test).replace(" ", "")
    ctx.ob("R08.4", "_real_minmax[fallback guard]", gsrc in ("b!=0",), gsrc, inner2.lineno, "the linear root exists only for a non-zero slope")
    # result: min/max of the curve at the candidates, on the same axis; end points always included
    src = ast.unparse(fn).replace(" ", "")
    ctx.ob("R08.4", "_real_minmax[candidates]", "local_extremizers=[0,1]" in src and "[self.point(t)[%s]fortinlocal_extremizers]" % v in src, "", fn.lineno,
           "end points are always candidates; extrema are evaluated on the curve, on the requested axis")
    bb = ctx.fn("CubicBezier.bbox", "R08.4")
    src = ast.unparse(bb).replace(" ", "")
    ctx.ob("R08.4", "CubicBezier.bbox[axes]", "xmin,xmax=self._real_minmax(0)" in src and "ymin,ymax=self._real_minmax(1)" in src and "returnxmin,ymin,xmax,ymax" in src.replace("(", "").replace(")", ""), "", bb.lineno,
           "x extent from coordinate 0, y extent from coordinate 1, in (xmin, ymin, xmax, ymax) order")


def arc_candidates(ctx):
    """Arc.bbox tries the extremum angles ang + k x half-turn.  With ang in [-90, 90] degrees (an arctangent, 0 or a quarter
    turn), the start angle theta in [0, 360] (as_positive_degrees) and the extent delta in [-360, 360] (one SVG arc), every
    angle of the arc lies in [-360, 720]; the multiples needed to reach every angle congruent to ang in that interval are
    k = -2 .. 4 (interval arithmetic: (-360 - 90)/180 = -2.5 and (720 + 90)/180 = 4.5).  The loop must cover them."""
    fn = ctx.fn("Arc.bbox", "R08.5")
    inv = [s for s in fn.body if isinstance(s, ast.FunctionDef)]
    ctx.need(len(inv) == 1, "R08.5", "Arc.bbox: parameter inversion helper not found")
    h = inv[0]
    a, k = [x.arg for x in h.args.args][:2]
    ret = [s for s in h.body if isinstance(s, ast.Return)][0]
    got = Alg(atom_map={"self.theta": "TH", "self.delta": "DL"}).ev(ret.value)
    want = ((atom(a) + atom("pi") * atom(k)) * const(360) / (const(2) * atom("pi")) - atom("TH")) / atom("DL")
    ctx.ob("R08.5", "Arc.bbox[candidate parameter]", got == want, str(got), h.lineno,
           "a candidate angle ang + k half-turns maps to the curve parameter ((ang + k pi) in degrees - theta) / delta")
    loops = [s for s in fn.body if isinstance(s, ast.For)]
    ctx.need(len(loops) == 1, "R08.5", "Arc.bbox: candidate loop not found")
    it = loops[0].iter
    ok = False
    detail = ast.unparse(it)
    if isinstance(it, ast.Call) and isinstance(it.func, ast.Name) and it.func.id == "range" and len(it.args) == 2:
        try:
            lo, hi = ast.literal_eval(it.args[0]), ast.literal_eval(it.args[1])
            ok = lo <= -2 and hi >= 5
            detail = "k in [%d, %d]; needed [-2, 4]" % (lo, hi - 1)
        except ValueError:
            raise AnalysisError("R08.5", "Arc.bbox: loop bounds not literal: %s" % detail)
    else:
        raise AnalysisError("R08.5", "Arc.bbox: candidate loop is not range(lo, hi): %s" % detail)
    ctx.ob("R08.5", "Arc.bbox[multiples cover the angular range]", ok, detail, loops[0].lineno,
           "an extremum that only the missing multiple reaches is not a candidate: the box then stops at an end point and no longer contains the arc")
    # both axes are tested with the range 0..1 inclusive and append the curve point on the matching axis
    src = ast.unparse(loops[0]).replace(" ", "")
    ok = "if0<=tx<=1:xtrema.append(self.point(tx).x)" in src.replace("\n", "") and "if0<=ty<=1:ytrema.append(self.point(ty).y)" in src.replace("\n", "")
    ctx.ob("R08.5", "Arc.bbox[candidates kept iff on the arc, per axis]", ok, "", loops[0].lineno, "x candidates feed the x extent, y candidates the y extent, only for parameters on the arc")
    theta = ctx.m.cls("Arc").getters.get("theta")
    ok = theta is not None and "as_positive_degrees" in ast.unparse(theta)
    ctx.ob("R08.5", "Arc.theta in [0, 360]", ok, "", theta.lineno if theta is not None else 0, "the interval argument relies on a non-negative start angle")
