"""C08 - bounding boxes contain the geometry and are tight."""
import ast

from ..algebra import RF, Alg, Uninterpreted, atom, const, opaque_name
from ..flow import bindings
from ..pe import PE, K, Obj, Raised
from ..model import AnalysisError, attr_chain, call_name, norm, renamed, stmts_in, walk_no_nested

EXPLANATION = (
    "Static rules over every bbox implementation of segments, paths, subpaths, shapes, groups and uses (no execution). "
    "R08.1 ordered box: every returned 4-tuple has low components provably <= high components (min/max over the same "
    "collection, identical expressions, lo - d / hi + d with one d, or a callee summarised as returning an ordered pair). "
    "R08.2 stroke growth: the box is (min - d, min - d, max + d, max + d) with d = half the implicit stroke width when "
    "transformed, half the plain one otherwise, and d = 0 unless with_stroke is set, a width exists and a stroke is "
    "painted. R08.3 union: containers take min of mins / max of maxs position-wise over the boxes of their flattened "
    "rendered descendants and skip empty boxes; Group and Use are each held to the same obligations. R08.4 Bezier extrema: "
    "the quadratic root per axis is (p0 - p1)/(p0 - 2 p1 + p2), kept iff 0 < t < 1, the candidate list contains both end "
    "points and the curve point at the root; for the cubic, denom/tau/delta and both roots are checked against the "
    "derivative A t^2 + B t + C through the identities A = -denom, B = 2 tau, delta = tau^2 - A C, and the near-linear "
    "fallback against -C/B. R08.5 arc candidates: the arc box enumerates the ellipse's axis extrema as angle_inv + "
    "k*quarter-turn filtered by the sweep interval; since the start angle lies in (-pi, pi], |sweep| <= 2 pi and angle_inv "
    "in (-pi/2, pi/2), k must cover at least [-2, 4] or an extremum inside the sweep is never tested (the box then excludes"
    " part of the arc). The per-axis candidate rule is structural: a candidate is kept under 0 <= t <= 1 (any spelling), "
    "appends the curve point's matching coordinate, and that list feeds min/max of that axis. The end-point-only shortcut "
    "of Arc.bbox may be taken only when the extent is zero (a full turn also has coincident end points). Not decided: "
    "containment and tightness for arcs (candidate angles are value dependent) and cubics near the 1e-8 threshold."
    " R08.7: with_stroke grows the box by half the implicit stroke width; C14's paint rules (R14.5: width x"
    ' sqrt|det|) run here as well.'
)
TECHNIQUE = (
    "static analysis (no execution): ordered-box lint over every returned 4-tuple; stroke growth and Bezier extremum candidates by partial evaluation over finite scenarios with exact canonical forms; interval argument for the arc candidate range"
)
ASSUMPTIONS = [
    "Stroke widths are non-negative (lo - d <= hi + d needs d >= 0).",
    "Arc extremum angles (atan based enumeration over k) are numeric and not decided; only the ordered-box rule covers Arc.bbox.",
]
FLOORS = {"R08.1": 9, "R08.2": 4, "R08.3": 4, "R08.4": 12, "R08.5": 4, "R08.6": 2}

BBOXES = ["PathSegment.bbox", "Move.bbox", "QuadraticBezier.bbox", "CubicBezier.bbox", "Arc.bbox", "Shape.bbox", "Subpath.bbox", "Group.union_bbox", "Use.union_bbox"]


def run(ctx):
    ctx.rule("R08.1", "ordered box")
    ctx.rule("R08.2", "stroke growth")
    ctx.rule("R08.3", "union of descendant boxes")
    ctx.rule("R08.4", "Bezier extremum formulas")
    ctx.rule("R08.5", "arc extremum candidates cover the whole angular range")
    ctx.rule("R08.6", "the box of a path is built from what is drawn: pen moves are filtered by testing the segment")
    for q in BBOXES:
        ordered_box(ctx, q)
    stroke(ctx)
    union(ctx)
    quadratic(ctx)
    cubic(ctx)
    arc_candidates(ctx)
    drawn_only(ctx)
    # with_stroke grows the box by half the implicit stroke width: width x sqrt|det| of the transform - C14's R14.5
    ctx.rule("R08.7", "the stroke the box grows by is the cascaded width scaled by sqrt|det| (obligations shared with C14 R14.5)")
    from . import c14

    c14.paint(ctx.renamed("R08.7"))


# --------------------------------------------------------------------------- R08.1
def single_defs(fn):
    """name -> value node for names assigned exactly once in fn (tuple unpacking gives ('unpack', call, index))."""
    counts = {}
    defs = {}
    for s in ast.walk(fn):
        if isinstance(s, ast.Assign):
            for t in s.targets:
                if isinstance(t, ast.Name):
                    counts[t.id] = counts.get(t.id, 0) + 1
                    defs[t.id] = s.value
                elif isinstance(t, ast.Tuple):
                    for i, e in enumerate(t.elts):
                        if isinstance(e, ast.Name):
                            counts[e.id] = counts.get(e.id, 0) + 1
                            defs[e.id] = ("unpack", s.value, i)
        elif isinstance(s, ast.AugAssign) and isinstance(s.target, ast.Name):
            counts[s.target.id] = counts.get(s.target.id, 0) + 2
    return {k: v for k, v in defs.items() if counts.get(k) == 1}


def returns_ordered_pair(ctx, fn):
    defs = single_defs(fn)
    for r in ast.walk(fn):
        if isinstance(r, ast.Return) and isinstance(r.value, ast.Tuple) and len(r.value.elts) == 2:
            if not ordered(ctx, fn, r.value.elts[0], r.value.elts[1], defs):
                return False
    return True


def ordered(ctx, fn, lo, hi, defs, depth=0):
    if depth > 4:
        return False
    if norm(lo) == norm(hi):
        return True
    # resolve simple names
    if isinstance(lo, ast.Name) and isinstance(hi, ast.Name) and lo.id in defs and hi.id in defs:
        dl, dh = defs[lo.id], defs[hi.id]
        if isinstance(dl, tuple) and isinstance(dh, tuple):
            if norm(dl[1]) == norm(dh[1]) and dl[2] == 0 and dh[2] == 1:
                call = dl[1]
                if isinstance(call, ast.Call) and isinstance(call.func, ast.Attribute) and isinstance(call.func.value, ast.Name) and call.func.value.id == "self":
                    cls = getattr(fn, "_class", None)
                    try:
                        callee = ctx.m.func("%s.%s" % (cls, call.func.attr))
                    except AnalysisError:
                        return False
                    return returns_ordered_pair(ctx, callee)
            return False
        if not isinstance(dl, tuple) and not isinstance(dh, tuple):
            return ordered(ctx, fn, dl, dh, defs, depth + 1)
        return False
    if isinstance(lo, ast.Call) and isinstance(hi, ast.Call) and isinstance(lo.func, ast.Name) and isinstance(hi.func, ast.Name) \
            and lo.func.id == "min" and hi.func.id == "max":
        if sorted(norm(a) for a in lo.args) == sorted(norm(a) for a in hi.args):
            return True
        # min over the low column / max over the matching high column of a list of boxes (each box ordered by this same rule)
        if len(lo.args) == 1 and len(hi.args) == 1 and isinstance(lo.args[0], ast.Name) and isinstance(hi.args[0], ast.Name):
            dl, dh = defs.get(lo.args[0].id), defs.get(hi.args[0].id)
            if isinstance(dl, tuple) and isinstance(dh, tuple) and norm(dl[1]) == norm(dh[1]) and "zip(*" in ast.unparse(dl[1]) and dh[2] == dl[2] + 2 and dl[2] in (0, 1):
                return True
        return False
    if isinstance(lo, ast.BinOp) and isinstance(hi, ast.BinOp) and isinstance(lo.op, ast.Sub) and isinstance(hi.op, ast.Add) and norm(lo.right) == norm(hi.right):
        return ordered(ctx, fn, lo.left, hi.left, defs, depth + 1)
    return False


def ordered_box(ctx, qual):
    fn = ctx.fn(qual, "R08.1")
    defs = single_defs(fn)
    n = 0
    for r in sorted((x for x in walk_no_nested(fn) if isinstance(x, ast.Return)), key=lambda x: x.lineno):
        if not isinstance(r, ast.Return) or r.value is None:
            continue
        v = r.value
        if isinstance(v, ast.Constant) and v.value is None:
            continue
        if isinstance(v, ast.Tuple) and len(v.elts) == 4:
            n += 1
            okx = ordered(ctx, fn, v.elts[0], v.elts[2], defs)
            oky = ordered(ctx, fn, v.elts[1], v.elts[3], defs)
            ctx.ob("R08.1", "%s[return line-order %d]" % (qual, n), okx and oky, ast.unparse(v)[:160], r.lineno,
                   "a bounding box must have xmin <= xmax and ymin <= ymax on every path (not provable for this return)")
        elif isinstance(v, ast.Call):
            n += 1
            cn = ast.unparse(v.func)
            ctx.ob("R08.1", "%s[delegates to %s]" % (qual, cn), cn.endswith("bbox") or cn.endswith("union_bbox"), ast.unparse(v)[:100], r.lineno,
                   "a box may be delegated only to another bounding-box routine")
        else:
            raise AnalysisError("R08.1", "%s: return shape not recognised: %s" % (qual, ast.unparse(v)[:80]))
    ctx.need(n >= 1, "R08.1", "%s: no box returned" % qual)


# --------------------------------------------------------------------------- R08.2
def stroke(ctx):
    for qual, owner, impl in (("Shape.bbox", "self", True), ("Subpath.bbox", "self._path", False)):
        fn = ctx.fn(qual, "R08.2")
        rets0 = [r for r in ast.walk(fn) if isinstance(r, ast.Return) and isinstance(r.value, ast.Tuple) and len(r.value.elts) == 4]
        ctx.need(len(rets0) == 1, "R08.2", "%s: final box not found" % qual)
        dn = {x.right.id for x in rets0[0].value.elts if isinstance(x, ast.BinOp) and isinstance(x.right, ast.Name)}
        ctx.need(len(dn) == 1, "R08.2", "%s: one delta variable expected" % qual)
        dname = dn.pop()
        # the statements that define the growth: every top-level statement storing the delta variable (with what it needs)
        slice_ = [x for x in fn.body if any(isinstance(n, ast.Name) and n.id == dname and isinstance(n.ctx, ast.Store) for n in ast.walk(x))]
        ctx.need(slice_, "R08.2", "%s: definition of %s not found" % (qual, dname))
        g = slice_[0]
        W = "%s.stroke_width" % owner
        IW = "%s.implicit_stroke_width" % owner
        S = "%s.stroke" % owner
        SV = "%s.stroke.value" % owner
        bad = []
        n_sc = 0
        grown = {}
        for ws in (True, False):
            for wnone in (False, True):
                for snone in (False, True):
                    for vnone in (False, True):
                        for tr in ((True, False) if impl else (False,)):
                            pe = PE(ctx.m, "R08.2", "%s[stroke growth]" % qual)
                            pe.bind("with_stroke", K(ws))
                            pe.bind("transformed", K(tr))
                            pe.attrs[W] = K(None) if wnone else atom(W)
                            pe.attrs[IW] = atom(IW)
                            pe.attrs[S] = K(None) if snone else atom(S)
                            if not snone:
                                pe.attrs[SV] = K(None) if vnone else atom(SV)
                            try:
                                pe.run(slice_)
                            except Raised as e:
                                bad.append("with_stroke=%s width missing=%s stroke missing=%s: raises %s" % (ws, wnone, snone, e.name))
                                continue
                            got = pe.env.get(dname)
                            n_sc += 1
                            painted = ws and not wnone and not snone and not vnone
                            if not isinstance(got, RF):
                                bad.append("delta not numeric in a scenario")
                                continue
                            if not painted:
                                if not got.is_zero():
                                    bad.append("grows by %s although %s" % (got, "with_stroke is off" if not ws else "no width" if wnone else "no painted stroke"))
                            else:
                                grown[tr] = got
        ctx.ob("R08.2", "%s[stroke guard]" % qual, not [b for b in bad if "grows" in b or "raises" in b], "; ".join(sorted(set(bad)))[:200] or "%d scenarios" % n_sc, g.lineno,
               "the box grows only when with_stroke is requested, a width exists and a stroke is actually painted")
        ctx.ob("R08.2", "%s[no stroke -> 0]" % qual, not bad, "", g.lineno, "without a painted stroke the box is not grown")
        if impl:
            ok = grown.get(True) == atom(IW) / const(2) and grown.get(False) == atom(W) / const(2)
            ctx.ob("R08.2", "%s[half width]" % qual, ok, "%s / %s" % (grown.get(True), grown.get(False)), g.lineno,
                   "grow by half the effective (transformed) stroke width when transformed, half the plain width otherwise")
        else:
            ok = grown.get(False) == atom(W) / const(2)
            ctx.ob("R08.2", "%s[half width]" % qual, ok, str(grown.get(False)), g.lineno, "grow by half the stroke width")
            # the transformed case goes through Path(self).bbox with both flags forwarded
            d = [r for r in ast.walk(fn) if isinstance(r, ast.Return) and isinstance(r.value, ast.Call) and isinstance(r.value.func, ast.Attribute) and r.value.func.attr == "bbox"
                 and isinstance(r.value.func.value, ast.Call) and call_name(r.value.func.value) == "Path"]
            kw = {k.arg: ast.unparse(k.value) for k in d[0].value.keywords} if d else {}
            ctx.ob("R08.2", "%s[transformed delegation]" % qual, kw == {"transformed": "transformed", "with_stroke": "with_stroke"}, str(kw), fn.lineno,
                   "the transformed box of a subpath is the box of its path form with the same flags")
        rets = [r for r in ast.walk(fn) if isinstance(r, ast.Return) and isinstance(r.value, ast.Tuple) and len(r.value.elts) == 4]
        ctx.need(len(rets) == 1, "R08.2", "%s: final box not found" % qual)
        e = r4 = rets[0].value.elts
        shape_ok = all(isinstance(x, ast.BinOp) and ast.unparse(x.right) == dname for x in e) and isinstance(e[0].op, ast.Sub) and isinstance(e[1].op, ast.Sub) \
            and isinstance(e[2].op, ast.Add) and isinstance(e[3].op, ast.Add)
        ctx.ob("R08.2", "%s[grown box]" % qual, shape_ok, ast.unparse(rets[0].value), rets[0].lineno, "low sides move down/left by d, high sides up/right by d")
        zip_positions(ctx, "R08.2", qual, fn, [x.left for x in e])


def zip_positions(ctx, rule, qual, fn, elts):
    """(xmins, ymins, xmaxs, ymaxs) = zip(*boxes): position i of the unpack is reduced by min (i < 2) / max (i >= 2) at return position i."""
    unp = None
    for s in ast.walk(fn):
        if isinstance(s, ast.Assign) and isinstance(s.targets[0], ast.Tuple) and len(s.targets[0].elts) == 4 and "zip(*" in ast.unparse(s.value):
            unp = [t.id for t in s.targets[0].elts]
    ctx.need(unp is not None, rule, "%s: zip(*boxes) unpack not found" % qual)
    ok = True
    for i, x in enumerate(elts):
        want = "%s(%s)" % ("min" if i < 2 else "max", unp[i])
        if ast.unparse(x) != want:
            ok = False
    ctx.ob(rule, "%s[min of mins / max of maxs]" % qual, ok, ", ".join(ast.unparse(x) for x in elts), fn.lineno,
           "the union takes the minimum of the low sides and the maximum of the high sides, position by position")


# --------------------------------------------------------------------------- R08.3
def union(ctx):
    g = ctx.fn("Group.union_bbox", "R08.3")
    u = ctx.fn("Use.union_bbox", "R08.3")
    for qual, fn in (("Group.union_bbox", g), ("Use.union_bbox", u)):
        rets = [r for r in ast.walk(fn) if isinstance(r, ast.Return) and isinstance(r.value, ast.Tuple) and len(r.value.elts) == 4]
        ctx.need(len(rets) == 1, "R08.3", "%s: final box not found" % qual)
        zip_positions(ctx, "R08.3", qual, fn, rets[0].value.elts)
        loops = [x for x in fn.body if isinstance(x, ast.For) and isinstance(x.target, ast.Name)]
        ctx.need(len(loops) == 1, "R08.3", "%s: element loop not found" % qual)
        lp = loops[0]

        def collected(box_none):
            """does one element whose bbox() is / is not None add a box?"""
            added = []

            def hook(pe, call):
                if isinstance(call.func, ast.Attribute) and call.func.attr == "bbox":
                    return K(None) if box_none else K(Obj("BOX"))
                if call_name(call) == "hasattr":
                    return K(True)
                return None

            def on_expr(pe, st):
                c = st.value
                if isinstance(c, ast.Call) and isinstance(c.func, ast.Attribute) and c.func.attr == "append" and len(c.args) == 1:
                    v = pe.ev(c.args[0])
                    added.append(v)

            pe = PE(ctx.m, "R08.3", qual, call_hook=hook, on_expr=on_expr)
            pe.bind(lp.target.id, K(Obj("ELEMENT")))
            pe.run(lp.body)
            return added

        a_some, a_none = collected(False), collected(True)
        skip_none = len(a_some) == 1 and isinstance(a_some[0], K) and isinstance(a_some[0].v, Obj) and a_some[0].v.name == "BOX" and not a_none
        empty = False
        for x in fn.body:
            if isinstance(x, ast.If) and x.body and isinstance(x.body[0], ast.Return) and (x.body[0].value is None or (isinstance(x.body[0].value, ast.Constant) and x.body[0].value.value is None)):
                t = x.test
                if isinstance(t, ast.Compare) and len(t.ops) == 1 and isinstance(t.ops[0], ast.Eq) and isinstance(t.left, ast.Call) and call_name(t.left) == "len" \
                        and isinstance(t.comparators[0], ast.Constant) and t.comparators[0].value == 0:
                    empty = True
                if isinstance(t, ast.UnaryOp) and isinstance(t.op, ast.Not) and isinstance(t.operand, ast.Name):
                    empty = True
        if not empty:
            # the other spelling: the union is computed under a non-empty test and None is returned otherwise
            from ..flow import dominated

            def nonempty(test, positive):
                if isinstance(test, ast.Compare) and len(test.ops) == 1 and isinstance(test.left, ast.Call) and call_name(test.left) == "len" \
                        and isinstance(test.comparators[0], ast.Constant) and test.comparators[0].value == 0:
                    if isinstance(test.ops[0], ast.Eq):
                        return not positive
                    if isinstance(test.ops[0], (ast.NotEq, ast.Gt)):
                        return positive
                if isinstance(test, ast.Name):
                    return positive
                return False

            unions = [c for c in ast.walk(fn) if isinstance(c, ast.Call) and call_name(c) == "zip" and any(isinstance(a, ast.Starred) for a in c.args)]
            returns_none = any(isinstance(r, ast.Return) and (r.value is None or (isinstance(r.value, ast.Constant) and r.value.value is None)) for r in ast.walk(fn))
            empty = bool(unions) and all(dominated(u, fn, nonempty) for u in unions) and returns_none
        fwd = [c for c in ast.walk(fn) if isinstance(c, ast.Call) and isinstance(c.func, ast.Attribute) and c.func.attr == "bbox"]
        kw = {k.arg: ast.unparse(k.value) for k in fwd[0].keywords} if fwd else {}
        ctx.ob("R08.3", "%s[skips empty, forwards flags]" % qual, skip_none and empty and kw == {"transformed": "transformed", "with_stroke": "with_stroke"},
               "skip None=%s empty->None=%s flags=%s" % (skip_none, empty, kw), fn.lineno, "children without geometry contribute nothing; flags reach every child")
    for cname in ("Group", "Use"):
        fn = ctx.fn("%s.bbox" % cname, "R08.3")
        calls = [c for c in ast.walk(fn) if isinstance(c, ast.Call) and ast.unparse(c.func).endswith("union_bbox")]
        ok = len(calls) == 1 and ast.unparse(calls[0].args[0]) == "self.select()" and {k.arg: ast.unparse(k.value) for k in calls[0].keywords} == {"transformed": "transformed", "with_stroke": "with_stroke"}
        ctx.ob("R08.3", "%s.bbox[all flattened descendants]" % cname, ok, "", fn.lineno, "a container's box is the union over all of its flattened descendants")
        sel = ctx.fn("%s.select" % cname, "R08.3")
        # for <child> in self: ... a nested Group and a nested Use are both descended into, with the caller's condition
        rec = []
        for lp in [x for x in ast.walk(sel) if isinstance(x, ast.For) and isinstance(x.target, ast.Name)]:
            v = lp.target.id
            for c in ast.walk(lp):
                if isinstance(c, ast.Call) and isinstance(c.func, ast.Attribute) and c.func.attr == "select" and isinstance(c.func.value, ast.Name) and c.func.value.id == v:
                    cond = sel.args.args[1].arg if len(sel.args.args) > 1 else None
                    passes = any(isinstance(a, ast.Name) and a.id == cond for a in list(c.args) + [k.value for k in c.keywords])
                    kinds = set()
                    p_ = getattr(c, "_parent", None)
                    while p_ is not None and p_ is not lp:
                        if isinstance(p_, ast.If):
                            for t in ast.walk(p_.test):
                                if isinstance(t, ast.Call) and call_name(t) == "isinstance" and len(t.args) == 2 and isinstance(t.args[0], ast.Name) and t.args[0].id == v:
                                    kinds |= {n.id for n in ast.walk(t.args[1]) if isinstance(n, ast.Name)}
                        p_ = getattr(p_, "_parent", None)
                    rec.append((passes, kinds))
        ok = any(passes and {"Group", "Use"} <= kinds for passes, kinds in rec) or ({"Group", "Use"} <= set().union(*[k for p_, k in rec if p_]) if rec else False)
        ctx.ob("R08.3", "%s.select[recurses into containers]" % cname, ok, str([(p_, sorted(k)) for p_, k in rec]), sel.lineno,
               "descendants of nested groups and uses are included")


# --------------------------------------------------------------------------- R08.4
def quadratic(ctx):
    fn = ctx.fn("QuadraticBezier.bbox", "R08.4")
    body = [x for x in fn.body if not (isinstance(x, ast.Expr) and isinstance(x.value, ast.Constant))]

    def evaluate(generic, inside):
        """follow the function with `second difference != 0` = generic and `0 < t < 1` = inside (both axes alike)"""
        seen = {"range": [], "t": []}

        def oracle(pe, test):
            if isinstance(test, ast.Compare) and len(test.ops) == 2:
                l, mid, r = pe.ev(test.left), pe.ev(test.comparators[0]), pe.ev(test.comparators[1])
                if isinstance(l, RF) and l.is_const() and l.constval() == 0 and isinstance(r, RF) and r.is_const() and r.constval() == 1 and isinstance(mid, RF):
                    seen["range"].append(all(isinstance(o, ast.Lt) for o in test.ops))
                    seen["t"].append(mid)
                    return inside
                if isinstance(l, RF) and l.is_const() and l.constval() == 1 and isinstance(r, RF) and r.is_const() and r.constval() == 0 and isinstance(mid, RF):
                    seen["range"].append(all(isinstance(o, ast.Gt) for o in test.ops))
                    seen["t"].append(mid)
                    return inside
            if isinstance(test, ast.Compare) and len(test.ops) == 1 and isinstance(test.ops[0], (ast.NotEq, ast.Eq)):
                l, r = pe.ev(test.left), pe.ev(test.comparators[0])
                if isinstance(l, RF) and isinstance(r, RF) and (r.is_const() and r.constval() == 0 or l.is_const() and l.constval() == 0):
                    return generic if isinstance(test.ops[0], ast.NotEq) else not generic
            if isinstance(test, (ast.Name, ast.Attribute, ast.BinOp)):
                v = pe.ev(test)
                if isinstance(v, RF):
                    return generic
            return None

        def hook(pe_or_alg, call):
            if isinstance(call, ast.Call) and attr_chain(call.func) == ["self", "point"] and len(call.args) == 1:
                t = pe.ev(call.args[0])
                if isinstance(t, RF):
                    return K(("curve-point", t))
            if isinstance(call, ast.Call) and call_name(call) in ("min", "max") and len(call.args) == 1:
                v = pe.ev(call.args[0])
                if isinstance(v, K) and isinstance(v.v, list):
                    return K((call_name(call), v.v))
            return None

        def on_expr(pe_, st):
            c = st.value
            if isinstance(c, ast.Call) and isinstance(c.func, ast.Attribute) and c.func.attr == "append" and isinstance(c.func.value, ast.Name) and len(c.args) == 1:
                lst = pe_.env.get(c.func.value.id)
                if isinstance(lst, K) and isinstance(lst.v, list):
                    v = component(pe_, c.args[0])
                    lst.v.append(v)

        pe = PE(ctx.m, "R08.4", "QuadraticBezier.bbox", oracle=oracle, call_hook=hook, on_expr=on_expr)

        def component(pe_, node):
            # self.point(t).x -> ("curve-point", t, "x")
            if isinstance(node, ast.Attribute) and node.attr in ("x", "y") and isinstance(node.value, ast.Call) and attr_chain(node.value.func) == ["self", "point"]:
                return ("curve-point", pe_.ev(node.value.args[0]), node.attr)
            if isinstance(node, ast.Subscript) and isinstance(node.value, ast.Call) and attr_chain(node.value.func) == ["self", "point"] and isinstance(node.slice, ast.Constant):
                return ("curve-point", pe_.ev(node.value.args[0]), "xy"[node.slice.value])
            v = pe_.ev(node)
            return v.v if isinstance(v, K) else v

        orig_ev = pe.ev

        def ev(node):
            if isinstance(node, (ast.List, ast.Tuple)) and any(isinstance(e, (ast.Attribute, ast.Subscript)) and isinstance(getattr(e, "value", None), ast.Call) for e in node.elts):
                return K([component(pe, e) for e in node.elts])
            return orig_ev(node)

        pe.ev = ev
        res = pe.run(body)
        return pe, res, seen

    for generic in (True, False):
        for inside in (True, False):
            if not generic and inside is False:
                continue
            try:
                pe, res, seen = evaluate(generic, inside)
            except AnalysisError as e:
                raise AnalysisError("R08.4", str(e))
            ctx.need(res is not None and res.kind == "return" and isinstance(res.value, ast.Tuple) and len(res.value.elts) == 4, "R08.4", "QuadraticBezier.bbox: 4-tuple not returned")
            vals = [pe.ev(e) for e in res.value.elts]
            tag = "%s, root %s" % ("generic" if generic else "zero second difference", "inside" if inside else "outside")
            ok_shape = all(isinstance(v, K) and isinstance(v.v, tuple) and v.v[0] == k for v, k in zip(vals, ("min", "min", "max", "max")))
            ctx.need(ok_shape, "R08.4", "QuadraticBezier.bbox[%s]: result is not (min, min, max, max) of candidate lists" % tag)
            for i, ax in ((0, "x"), (1, "y")):
                lo, hi = vals[i].v[1], vals[i + 2].v[1]
                p0, p1, p2 = (atom("self.%s.%s" % (f, ax)) for f in ("start", "control", "end"))
                ends = [c for c in lo if isinstance(c, RF)]
                pts = [c for c in lo if isinstance(c, tuple) and c and c[0] == "curve-point"]
                same = lo is hi or lo == hi
                ok = same and len(ends) == 2 and any(e == p0 for e in ends) and any(e == p2 for e in ends)
                if generic and inside:
                    want = (p0 - p1) / (p0 - const(2) * p1 + p2)
                    okr = len(pts) == 1 and isinstance(pts[0][1], RF) and pts[0][1] == want
                    ctx.ob("R08.4", "QuadraticBezier.bbox[%s root]" % ax, okr, str(pts[0][1]) if pts else "no curve point among the candidates", fn.lineno,
                           "the interior extremum of a quadratic Bezier is at t = (p0 - p1)/(p0 - 2 p1 + p2)")
                    ctx.ob("R08.4", "QuadraticBezier.bbox[%s candidates]" % ax, ok and len(pts) == 1 and pts[0][2] == ax, "%d end points, %d curve points" % (len(ends), len(pts)), fn.lineno,
                           "candidates are both end points plus the curve point at the root, taken on the same axis")
                    ctx.ob("R08.4", "QuadraticBezier.bbox[%s range]" % ax, bool(seen["range"]) and all(seen["range"]), "", fn.lineno, "only roots strictly inside (0, 1) are interior extrema")
                elif generic and not inside:
                    ctx.ob("R08.4", "QuadraticBezier.bbox[%s: root outside -> end points only]" % ax, ok and not pts, "%d end points, %d curve points" % (len(ends), len(pts)), fn.lineno,
                           "a root outside (0, 1) contributes no candidate", sample=False)
                else:
                    tv = [p for p in pts if isinstance(p[1], RF)]
                    okd = ok and all(p[1].is_const() and 0 < p[1].constval() < 1 for p in tv)
                    ctx.ob("R08.4", "QuadraticBezier.bbox[%s: zero second difference]" % ax, okd, "", fn.lineno, "a vanishing second difference must not divide by zero and adds no point outside the curve", sample=False)


def cubic(ctx):
    """CubicBezier._real_minmax: the candidate parameters are 0, 1 and the roots of the derivative A t^2 + B t + C inside (0, 1);
    decided by following the function under every combination of (leading coefficient negligible?, discriminant >= 0?, roots inside?)."""
    fn = ctx.fn("CubicBezier._real_minmax", "R08.4")
    v = fn.args.args[1].arg
    body = [x for x in fn.body if not (isinstance(x, ast.Expr) and isinstance(x.value, ast.Constant))]
    a0, a1, a2, a3 = (atom("P%d" % i) for i in range(4))
    A = a3 - const(3) * a2 + const(3) * a1 - a0
    B = const(2) * (a0 - const(2) * a1 + a2)
    C = a1 - a0

    def evaluate(big, disc, inside, slope):
        seen = {"thr": [], "disc": [], "range": [], "slope": [], "roots": []}

        def oracle(pe, test):
            if isinstance(test, ast.Compare) and len(test.ops) == 2:
                l, mid, r = pe.ev(test.left), pe.ev(test.comparators[0]), pe.ev(test.comparators[1])
                if isinstance(mid, RF) and isinstance(l, RF) and isinstance(r, RF) and l.is_const() and r.is_const() and {l.constval(), r.constval()} == {0, 1}:
                    strict = all(isinstance(o, (ast.Lt, ast.LtE)) for o in test.ops) if l.constval() == 0 else all(isinstance(o, (ast.Gt, ast.GtE)) for o in test.ops)
                    seen["range"].append(strict)
                    for q, ans in seen["roots"]:
                        if q == mid:
                            return ans
                    ans = inside[len(seen["roots"]) % len(inside)]
                    seen["roots"].append((mid, ans))
                    return ans
            if isinstance(test, ast.Compare) and len(test.ops) == 1:
                l, r, op = pe.ev(test.left), pe.ev(test.comparators[0]), test.ops[0]
                if isinstance(l, RF) and isinstance(r, RF):
                    # |denom| against a small threshold
                    for x, y, flip in ((l, r, False), (r, l, True)):
                        if str(x).startswith("abs(") and y.is_const() and 0 < y.constval() <= 1e-6:
                            seen["thr"].append(x)
                            ge = isinstance(op, (ast.GtE, ast.Gt)) != flip
                            return big if ge else not big
                    for x, y, flip in ((l, r, False), (r, l, True)):
                        if y.is_const() and y.constval() == 0 and not x.is_const():
                            if isinstance(op, (ast.NotEq, ast.Eq)):
                                seen["slope"].append(x)
                                return slope if isinstance(op, ast.NotEq) else not slope
                            seen["disc"].append(x)
                            ge = isinstance(op, (ast.GtE, ast.Gt)) != flip
                            return disc if ge else not disc
            return None

        def hook(pe_, call):
            return None

        def on_expr(pe_, st):
            c = st.value
            if isinstance(c, ast.Call) and isinstance(c.func, ast.Attribute) and c.func.attr == "append" and isinstance(c.func.value, ast.Name) and len(c.args) == 1:
                lst = pe_.env.get(c.func.value.id)
                if isinstance(lst, K) and isinstance(lst.v, list):
                    val = pe_.ev(c.args[0])
                    lst.v.append(val.v if isinstance(val, K) else val)

        pe = PE(ctx.m, "R08.4", "CubicBezier._real_minmax", oracle=oracle, call_hook=hook, on_expr=on_expr)
        pe.bind(v, atom("AXIS"))
        orig = pe.ev

        def ev(node):
            # [c[v] for c in self] : the coordinate of the four control points on the requested axis
            if isinstance(node, ast.ListComp) and len(node.generators) == 1 and isinstance(node.generators[0].target, ast.Name):
                g = node.generators[0]
                tgt = g.target.id
                if isinstance(g.iter, ast.Name) and g.iter.id == "self" and isinstance(node.elt, ast.Subscript) and isinstance(node.elt.value, ast.Name) and node.elt.value.id == tgt \
                        and isinstance(node.elt.slice, ast.Name) and node.elt.slice.id == v:
                    return K([a0, a1, a2, a3])
                it = orig(g.iter) if isinstance(g.iter, ast.Name) else None
                if isinstance(it, K) and isinstance(it.v, list) and isinstance(node.elt, ast.Subscript) and isinstance(node.elt.value, ast.Call) \
                        and attr_chain(node.elt.value.func) == ["self", "point"] and isinstance(node.elt.slice, ast.Name) and node.elt.slice.id == v \
                        and len(node.elt.value.args) == 1 and isinstance(node.elt.value.args[0], ast.Name) and node.elt.value.args[0].id == tgt:
                    return K([("curve-point", t) for t in it.v])
            if isinstance(node, ast.Call) and call_name(node) in ("min", "max") and len(node.args) == 1:
                val = ev(node.args[0])
                if isinstance(val, K) and isinstance(val.v, list):
                    return K((call_name(node), val.v))
            if isinstance(node, ast.Subscript) and isinstance(node.value, ast.Call) and attr_chain(node.value.func) == ["self", "point"] and len(node.value.args) == 1 \
                    and isinstance(node.slice, ast.Name) and node.slice.id == v:
                tv = ev(node.value.args[0])
                return K(("curve-point", tv.v if isinstance(tv, K) else tv))
            return orig(node)

        pe.ev = ev
        res = pe.run(body)
        if res is None or res.kind != "return" or not isinstance(res.value, ast.Tuple) or len(res.value.elts) != 2:
            raise AnalysisError("R08.4", "_real_minmax: (min, max) pair not returned")
        lo, hi = ev(res.value.elts[0]), ev(res.value.elts[1])
        if not (isinstance(lo, K) and isinstance(hi, K) and isinstance(lo.v, tuple) and isinstance(hi.v, tuple) and lo.v[0] == "min" and hi.v[0] == "max" and lo.v[1] == hi.v[1]):
            raise AnalysisError("R08.4", "_real_minmax: result is not (min, max) over one candidate list")
        cands = [c[1] for c in lo.v[1] if isinstance(c, tuple) and c and c[0] == "curve-point"]
        if len(cands) != len(lo.v[1]):
            raise AnalysisError("R08.4", "_real_minmax: candidates are not all curve points on the requested axis")
        return cands, seen

    def has(cands, want):
        return any(isinstance(c, RF) and c == want for c in cands)

    D = (B / const(2)) * (B / const(2)) - A * C
    sq = atom(opaque_name("sqrt", [D]))
    roots = [((B / const(2)) + sq) / (-A), ((B / const(2)) - sq) / (-A)]
    cands, seen = evaluate(True, True, (True, True), True)
    ends = has(cands, const(0)) and has(cands, const(1))
    ctx.ob("R08.4", "_real_minmax[candidates]", ends, "%d candidates" % len(cands), fn.lineno, "end points are always candidates; extrema are evaluated on the curve, on the requested axis")
    ctx.ob("R08.4", "_real_minmax[split on |denom|]", bool(seen["thr"]) and all(t == atom(opaque_name("abs", [-A])) or t == atom(opaque_name("abs", [A])) for t in seen["thr"]), "; ".join(str(t) for t in seen["thr"])[:120], fn.lineno,
           "the quadratic-root branch is taken when the leading coefficient (denom = -A) is not negligible")
    ctx.ob("R08.4", "_real_minmax[discriminant guard]", bool(seen["disc"]) and all(x == D for x in seen["disc"]), "; ".join(str(x) for x in seen["disc"])[:160], fn.lineno,
           "real roots exist only for a non-negative discriminant delta = tau^2 - A C (tau = B/2)")
    ok = len(cands) == 4 and has(cands, roots[0]) and has(cands, roots[1])
    ctx.ob("R08.4", "_real_minmax[roots]", ok, "; ".join(str(c) for c in cands)[:200], fn.lineno, "roots of the derivative are (tau +/- sqrt(delta))/denom")
    ctx.ob("R08.4", "_real_minmax[range tests strict]", bool(seen["range"]) and all(seen["range"]), "", fn.lineno, "a root is a candidate only inside the parameter interval")
    for ins, label in (((True, False), "first root only"), ((False, True), "second root only"), ((False, False), "no root inside")):
        c2, s2 = evaluate(True, True, ins, True)
        kept = [q for q, ans in s2["roots"] if ans]
        ok = len(c2) == 2 + len(kept) and all(has(c2, q) for q in kept) and all(not has(c2, q) for q, ans in s2["roots"] if not ans)
        ctx.ob("R08.4", "_real_minmax[%s kept iff in (0,1)]" % label, ok, "%d candidates" % len(c2), fn.lineno, "a root is a candidate only inside the parameter interval")
    c3, _ = evaluate(True, False, (True, True), True)
    ctx.ob("R08.4", "_real_minmax[negative discriminant -> end points only]", len(c3) == 2, "%d candidates" % len(c3), fn.lineno, "without real roots only the end points are candidates")
    c4, s4 = evaluate(False, True, (True, True), True)
    ok = len(c4) == 3 and has(c4, -C / B)
    ctx.ob("R08.4", "_real_minmax[fallback root]", ok, "; ".join(str(c) for c in c4)[:160], fn.lineno, "with a vanishing leading coefficient the derivative root is -C/B")
    ctx.ob("R08.4", "_real_minmax[fallback guard]", bool(s4["slope"]) and all(x == B or x == B / const(2) for x in s4["slope"]), "; ".join(str(x) for x in s4["slope"]), fn.lineno,
           "the linear root exists only for a non-zero slope")
    c5, _ = evaluate(False, True, (True, True), False)
    ctx.ob("R08.4", "_real_minmax[flat derivative -> end points only]", len(c5) == 2, "%d candidates" % len(c5), fn.lineno, "a constant derivative has no interior extremum")
    bb = ctx.fn("CubicBezier.bbox", "R08.4")
    axis = {}
    for tg, val, n in bindings(bb):
        if isinstance(val, ast.Call) and attr_chain(val.func) == ["self", "_real_minmax"] and len(val.args) == 1 and isinstance(val.args[0], ast.Constant) \
                and isinstance(tg, ast.Tuple) and len(tg.elts) == 2 and all(isinstance(e, ast.Name) for e in tg.elts):
            axis[val.args[0].value] = (tg.elts[0].id, tg.elts[1].id)
    rets = [r for r in ast.walk(bb) if isinstance(r, ast.Return) and isinstance(r.value, ast.Tuple) and len(r.value.elts) == 4]
    ok = set(axis) == {0, 1} and len(rets) == 1 and [getattr(e, "id", None) for e in rets[0].value.elts] == [axis[0][0], axis[1][0], axis[0][1], axis[1][1]]
    ctx.ob("R08.4", "CubicBezier.bbox[axes]", ok, "", bb.lineno, "x extent from coordinate 0, y extent from coordinate 1, in (xmin, ymin, xmax, ymax) order")


def _sweep_zero_only(t):
    """the test holds only when the arc's extent is zero: `self.sweep == 0` / `self.delta == 0` / `not self.sweep`, possibly
    conjoined with anything"""
    if isinstance(t, ast.BoolOp) and isinstance(t.op, ast.And):
        return any(_sweep_zero_only(v) for v in t.values)
    if isinstance(t, ast.BoolOp) and isinstance(t.op, ast.Or):
        return all(_sweep_zero_only(v) for v in t.values)
    if isinstance(t, ast.Compare) and len(t.ops) == 1 and isinstance(t.ops[0], ast.Eq):
        sides = [t.left, t.comparators[0]]
        ext = any(attr_chain(x) in (["self", "sweep"], ["self", "delta"]) or (isinstance(x, ast.Call) and call_name(x) == "abs" and x.args and attr_chain(x.args[0]) in (["self", "sweep"], ["self", "delta"])) for x in sides)
        return ext and any(isinstance(x, ast.Constant) and x.value == 0 and not isinstance(x.value, bool) for x in sides)
    if isinstance(t, ast.UnaryOp) and isinstance(t.op, ast.Not):
        return attr_chain(t.operand) in (["self", "sweep"], ["self", "delta"])
    return False


def arc_candidates(ctx):
    """Arc.bbox tries the extremum angles ang + k x half-turn.  With ang in [-90, 90] degrees (an arctangent, 0 or a quarter
    turn), the start angle theta in [0, 360] (as_positive_degrees) and the extent delta in [-360, 360] (one SVG arc), every
    angle of the arc lies in [-360, 720]; the multiples needed to reach every angle congruent to ang in that interval are
    k = -2 .. 4 (interval arithmetic: (-360 - 90)/180 = -2.5 and (720 + 90)/180 = 4.5).  The loop must cover them."""
    fn = ctx.fn("Arc.bbox", "R08.5")
    inv = [s for s in fn.body if isinstance(s, ast.FunctionDef)]
    ctx.need(len(inv) == 1, "R08.5", "Arc.bbox: parameter inversion helper not found")
    h = inv[0]
    a, k = [x.arg for x in h.args.args][:2]
    ret = [s for s in h.body if isinstance(s, ast.Return)][0]
    alg_ = Alg(atom_map={"self.theta": "TH", "self.delta": "DL"})
    for st_ in h.body:
        if isinstance(st_, ast.Assign):
            try:
                alg_.assign(st_)  # explanatory temporaries of the helper
            except Uninterpreted:
                pass
    got = alg_.ev(ret.value)
    want = ((atom(a) + atom("pi") * atom(k)) * const(360) / (const(2) * atom("pi")) - atom("TH")) / atom("DL")
    ctx.ob("R08.5", "Arc.bbox[candidate parameter]", got == want, str(got), h.lineno,
           "a candidate angle ang + k half-turns maps to the curve parameter ((ang + k pi) in degrees - theta) / delta")
    loops = [s for s in fn.body if isinstance(s, ast.For)]
    ctx.need(len(loops) == 1, "R08.5", "Arc.bbox: candidate loop not found")
    it = loops[0].iter
    ok = False
    detail = ast.unparse(it)
    if isinstance(it, ast.Call) and isinstance(it.func, ast.Name) and it.func.id == "range" and len(it.args) == 2:
        try:
            lo, hi = ast.literal_eval(it.args[0]), ast.literal_eval(it.args[1])
            ok = lo <= -2 and hi >= 5
            detail = "k in [%d, %d]; needed [-2, 4]" % (lo, hi - 1)
        except ValueError:
            raise AnalysisError("R08.5", "Arc.bbox: loop bounds not literal: %s" % detail)
    else:
        raise AnalysisError("R08.5", "Arc.bbox: candidate loop is not range(lo, hi): %s" % detail)
    ctx.ob("R08.5", "Arc.bbox[multiples cover the angular range]", ok, detail, loops[0].lineno,
           "an extremum that only the missing multiple reaches is not a candidate: the box then stops at an end point and no longer contains the arc")
    # candidates kept iff on the arc, per axis: `if 0 <= t <= 1: L.append(self.point(t).<axis>)`, and L feeds that axis of the box
    def unit_range(t):
        """the name T when the test says 0 <= T <= 1 (either spelling, strict or not: the end points are candidates anyway)"""
        def bound(c):
            if isinstance(c, ast.Compare) and len(c.ops) == 1 and isinstance(c.left, (ast.Name, ast.Constant)) and isinstance(c.comparators[0], (ast.Name, ast.Constant)):
                l, r, op = c.left, c.comparators[0], c.ops[0]
                if isinstance(op, (ast.Gt, ast.GtE)):
                    l, r, op = r, l, ast.LtE()
                if isinstance(op, (ast.Lt, ast.LtE)):
                    if isinstance(l, ast.Constant) and l.value == 0 and isinstance(r, ast.Name):
                        return (r.id, "lo")
                    if isinstance(r, ast.Constant) and r.value == 1 and isinstance(l, ast.Name):
                        return (l.id, "hi")
            return None
        if isinstance(t, ast.Compare) and len(t.ops) == 2 and all(isinstance(o, (ast.Lt, ast.LtE)) for o in t.ops) and isinstance(t.left, ast.Constant) and t.left.value == 0 \
                and isinstance(t.comparators[0], ast.Name) and isinstance(t.comparators[1], ast.Constant) and t.comparators[1].value == 1:
            return t.comparators[0].id
        if isinstance(t, ast.Compare) and len(t.ops) == 2 and all(isinstance(o, (ast.Gt, ast.GtE)) for o in t.ops) and isinstance(t.left, ast.Constant) and t.left.value == 1 \
                and isinstance(t.comparators[0], ast.Name) and isinstance(t.comparators[1], ast.Constant) and t.comparators[1].value == 0:
            return t.comparators[0].id
        if isinstance(t, ast.BoolOp) and isinstance(t.op, ast.And) and len(t.values) == 2:
            b = [bound(v) for v in t.values]
            if all(b) and b[0][0] == b[1][0] and {b[0][1], b[1][1]} == {"lo", "hi"}:
                return b[0][0]
        return None

    feeds = {}  # list name -> set of axes appended
    bad = []
    n_if = 0
    for node in ast.walk(loops[0]):
        if not isinstance(node, ast.If):
            continue
        tv = unit_range(node.test)
        apps = [c for st in node.body for c in ast.walk(st) if isinstance(c, ast.Call) and isinstance(c.func, ast.Attribute) and c.func.attr == "append" and isinstance(c.func.value, ast.Name)]
        if not apps:
            continue
        n_if += 1
        if tv is None:
            bad.append("candidate kept under `%s` (line %d), not under 0 <= t <= 1" % (ast.unparse(node.test)[:40], node.lineno))
            continue
        for c in apps:
            a0 = c.args[0] if c.args else None
            if isinstance(a0, ast.Attribute) and a0.attr in ("x", "y") and isinstance(a0.value, ast.Call) and attr_chain(a0.value.func) in (["self", "point"], ["self", "point_at_t"]) \
                    and len(a0.value.args) == 1 and isinstance(a0.value.args[0], ast.Name) and a0.value.args[0].id == tv:
                feeds.setdefault(c.func.value.id, set()).add(a0.attr)
            else:
                bad.append("appends %s under the test of %s (line %d)" % (ast.unparse(a0)[:40] if a0 is not None else "nothing", tv, c.lineno))
    rets = [s_ for s_ in fn.body if isinstance(s_, ast.Return) and isinstance(s_.value, ast.Tuple) and len(s_.value.elts) == 4]
    ctx.need(len(rets) == 1, "R08.5", "Arc.bbox: final four-tuple return not found")
    want_axes = ["x", "y", "x", "y"]
    want_fn = ["min", "min", "max", "max"]
    for e, ax, f in zip(rets[0].value.elts, want_axes, want_fn):
        if isinstance(e, ast.Call) and call_name(e) == f and len(e.args) == 1 and isinstance(e.args[0], ast.Name) and feeds.get(e.args[0].id) == {ax}:
            continue
        bad.append("box component `%s` is not %s over the %s candidates" % (ast.unparse(e)[:40], f, ax))
    ctx.ob("R08.5", "Arc.bbox[candidates kept iff on the arc, per axis]", n_if >= 2 and not bad, "; ".join(bad), loops[0].lineno,
           "x candidates feed the x extent, y candidates the y extent, only for parameters on the arc")
    # the end-point-only shortcut is for arcs of zero extent only
    n_short = 0
    for s_ in fn.body[:fn.body.index(loops[0])]:
        if isinstance(s_, ast.If) and any(isinstance(r, ast.Return) for r in s_.body):
            n_short += 1
            ok = _sweep_zero_only(s_.test)
            ctx.ob("R08.5", "Arc.bbox[end-point box only for zero extent]", ok, ast.unparse(s_.test)[:100], s_.lineno,
                   "an arc of non-zero extent (a full turn has coincident end points) reaches beyond its end points; only sweep == 0 may skip the extremum candidates")
    ctx.need(n_short <= 1, "R08.5", "Arc.bbox: more than one early return before the candidate loop")
    theta = ctx.m.cls("Arc").getters.get("theta")
    ok = theta is not None and "as_positive_degrees" in ast.unparse(theta)
    ctx.ob("R08.5", "Arc.theta in [0, 360]", ok, "", theta.lineno if theta is not None else 0, "the interval argument relies on a non-negative start angle")


def drawn_only(ctx):
    """A moveto draws nothing (SVG 1.1 section 11.4: a subpath consisting of a single moveto is not rendered); `M0,0 L1,1 M5,5` occupies
    the box (0,0)-(1,1).  Shape.bbox and Subpath.bbox collect seg.bbox() over the segments with a filter; the filter has to look
    at the segment.  `isinstance(<class>, <class>)` is a constant (a class object is never an instance of a segment class): nothing
    is filtered and every Move end point enlarges the box."""
    n = 0
    for qual in ("Shape.bbox", "Subpath.bbox"):
        fn = ctx.fn(qual, "R08.6")
        comps = [c for c in ast.walk(fn) if isinstance(c, (ast.ListComp, ast.GeneratorExp)) and any(isinstance(x, ast.Call) and isinstance(x.func, ast.Attribute) and x.func.attr == "bbox" for x in ast.walk(c.elt))]
        loops = [l for l in ast.walk(fn) if isinstance(l, ast.For) and any(isinstance(x, ast.Call) and isinstance(x.func, ast.Attribute) and x.func.attr == "bbox" for st in l.body for x in ast.walk(st))]
        ctx.need(bool(comps) or bool(loops), "R08.6", "%s: collection of segment boxes not found" % qual)
        for c in comps:
            n += 1
            var = c.generators[0].target.id if isinstance(c.generators[0].target, ast.Name) else None
            tests = [t for g in c.generators for t in g.ifs]
            const_tests = [t for t in tests for x in ast.walk(t) if isinstance(x, ast.Call) and call_name(x) == "isinstance" and x.args and isinstance(x.args[0], ast.Name) and x.args[0].id in ctx.m.classes]
            on_segment = [t for t in tests for x in ast.walk(t) if isinstance(x, ast.Call) and call_name(x) == "isinstance" and len(x.args) == 2 and isinstance(x.args[0], ast.Name) and x.args[0].id == var
                          and any(isinstance(y, ast.Name) and y.id == "Move" for y in ast.walk(x.args[1]))]
            ctx.ob("R08.6", "%s[pen moves are not part of the box]" % qual, bool(on_segment) and not const_tests,
                   "filter: %s" % ("; ".join(ast.unparse(t) for t in tests) or "none"), c.lineno,
                   "the filter tests a class object, not the segment: it is always true, so the end point of every Move (also a trailing or stray one) enlarges the box")
    ctx.need(n >= 2, "R08.6", "segment-box collections found: %d" % n)
