"""C07 - serialising a path to path data and re-parsing it reproduces the path."""
import ast
import re

from .. import builders as BLD
from .. import pathlex as PL
from ..algebra import Alg, Uninterpreted, atom, const, ref
from ..model import AnalysisError, attr_chain, call_name, if_chain, stmts_in
from ..pe import PE, K, resolve

EXPLANATION = (
    "Static writer/reader agreement rules (no execution). R07.1: for every segment class and every branch of d() "
    "(absolute/relative x smooth/plain) the command letter and the operand list of the format string are compared with "
    "what the reader consumes for that letter: operand count from the lexer's command table, operand-to-field mapping "
    "from the builder callback's constructor call (e.g. Q prints control then end because quad() passes operand 0 as "
    "control and operand 1 as end); upper-case letters print plain fields, lower-case letters subtract the current point "
    "from every point operand and from nothing else. R07.2: arc operands: rx, ry, x-axis rotation in degrees (the reader "
    "converts degrees), large-arc = |sweep| > half turn, sweep flag = sweep >= 0 (or > 0). R07.3: svg_d hands every d() the "
    "end of the previous segment as current point, starts from the origin, treats both loops (explicit relative / as "
    "parsed) alike, and emits smooth shorthand only when is_smooth_from(previous) holds, which requires a previous curve "
    "of the same class and the mirrored control. R07.4: every floating conversion in a d() format string carries at least "
    "12 significant digits (the precision of the coordinate format); Point.__str__ prints %.12G. R07.5: str(path), "
    "Path.d and Subpath.d delegate to svg_d. "
    "The running point is the variable handed to d(); every assignment to it before the loops must be the origin (the reader "
    "measures a leading relative command from (0,0), not from the first segment's recorded start). "
    "Not decided: the numeric round-trip tolerance, flag boundaries at exactly "
    "half a turn, arcs whose sweep exceeds a full turn."
    ' R07.3 requires the advance of the running point on every path through the loop body: a branch that writes'
    ' a segment and leaves the iteration (continue/break) is reported; isinstance tests against a single class'
    ' count towards the coverage of segment kinds.'
    ' R07.6: the reader side of the smooth shorthand - C01 R01.5 (T/S reflect the previous control point only'
    ' after a curve of the same degree) - runs here because svg_d writes T for a quadratic after a'
    ' non-quadratic whenever its control equals its start.'
    ' R07.3: is_smooth_from decides the shorthand by point equality; a comparison against a numeric tolerance'
    ' coarser than the 12 digits coordinates are written with is a finding.'
)
TECHNIQUE = (
    "static analysis (no execution): writer followed by partial evaluation per (mode, form) and compared, operand by operand, with the reader table derived from the lexer summaries and the builder summaries; format-conversion precision lint"
)
ASSUMPTIONS = [
    "The reader-side table is taken from the lexer and builder source on every run (shared with C01).",
    "Round-trip equality of values is numeric and not decided; the rules decide that the same quantities are written in the order they are read.",
]
FLOORS = {"R07.1": 30, "R07.2": 4, "R07.3": 6, "R07.4": 8}

WRITERS = {
    "Move": {("plain",): ("M", "m")},
    "Close": {("plain",): ("Z", "z")},
    "Line": {("plain",): ("L", "l")},
    "QuadraticBezier": {("smooth",): ("T", "t"), ("plain",): ("Q", "q")},
    "CubicBezier": {("smooth",): ("S", "s"), ("plain",): ("C", "c")},
    "Arc": {("plain",): ("A", "a")},
}


def run(ctx):
    ctx.rule("R07.1", "writer/reader operand agreement per command letter")
    ctx.rule("R07.2", "arc operands and flags")
    ctx.rule("R07.3", "running current point, loop siblings, smooth shorthand")
    ctx.rule("R07.4", "number format precision")
    ctx.rule("R07.5", "delegation to svg_d")
    ctx.rule("R07.6", "the reader gives the T/S shorthand the meaning the writer assumes: reflection only after a curve of the same degree (obligations shared with C01 R01.5)")
    reader = reader_table(ctx)
    writers(ctx, reader)
    svg_d(ctx)
    delegation(ctx)
    from . import c01

    c01.smooth_degree(ctx.renamed("R07.6"))


# --------------------------------------------------------------------------- reader side
def reader_table(ctx):
    """letter(upper) -> list of field names the operands are stored in, from lexer branch + builder constructor call."""
    fn, cmd_var, branches, dup, end_returns = PL.lexer_branches(ctx, "R07.1")
    out = {}
    for letter in "MLTQSCA":
        b = branches.get(letter)
        ctx.need(b is not None and not b.unknown, "R07.1", "lexer branch %s not summarised" % letter)
        builds = b.builds()
        ctx.need(builds, "R07.1", "lexer branch %s has no builder" % letter)
        meth = builds[0][1]
        nargs = len(builds[0][2])
        segcls = {"move": "Move", "line": "Line", "smooth_quad": "QuadraticBezier", "quad": "QuadraticBezier", "smooth_cubic": "CubicBezier",
                  "cubic": "CubicBezier", "arc": "Arc"}[meth]
        summ = BLD.summarise(ctx, "R07.1", meth, BLD.Scenario())
        calls = [g for g in summ.segs if g.kind == segcls]
        ctx.need(calls, "R07.1", "Path.%s: constructor call not found" % meth)
        call = calls[-1]
        if segcls == "Arc":
            pnames = ["start", "rx", "ry", "rotation", "large_arc", "sweep_flag", "end"]
        elif segcls == "Move":
            pnames = ["start", "end"]
        else:
            init = ctx.m.func("%s.__init__" % segcls)
            pnames = [a.arg for a in init.args.args][1:]
        fields = {}
        for i, a in enumerate(call.args):
            if isinstance(a, tuple) and a and a[0] == "abs":
                a = a[1]
            if isinstance(a, tuple) and a and a[0] == "op" and i < len(pnames):
                fields[a[1]] = pnames[i]
        ctx.need(sorted(fields) == list(range(nargs)), "R07.1", "Path.%s: operand-to-field map incomplete: %s" % (meth, fields))
        out[letter] = [fields[k] for k in range(nargs)]
    out["Z"] = []
    return out


# --------------------------------------------------------------------------- writer side
def d_scenarios(ctx, cname, fn, forms):
    """Follow <cname>.d() for every (mode, form): -> {(mode, form): (format string, [argument expressions], line)}"""
    P = [a.arg for a in fn.args.args]
    ctx.need(len(P) >= 3, "R07.1", "%s.d: parameters changed: %s" % (cname, P))
    cp, rel = P[1], P[2]
    sm = P[3] if len(P) > 3 else None
    out = {}
    for mode in ("abs", "rel"):
        for form in forms:
            def oracle(pe, test):
                # attribute flags of the segment (self.relative / self.smooth) are not consulted in these scenarios: the request is explicit
                return None

            pe = PE(ctx.m, "R07.1", "%s.d[%s,%s]" % (cname, mode, form[0]), oracle=oracle)
            pe.bind(cp, K(None) if mode == "abs" else atom(cp))
            pe.bind(rel, K(None) if mode == "abs" else K(True))
            if sm is not None:
                pe.bind(sm, K(form == ("smooth",)))
            body = [x for x in fn.body if not (isinstance(x, ast.Expr) and isinstance(x.value, ast.Constant))]
            res = pe.run(body)
            ctx.need(res is not None and res.kind == "return" and res.value is not None, "R07.1", "%s.d[%s,%s]: no value returned" % (cname, mode, form[0]))
            v = resolve(pe, res.value)
            if isinstance(v, ast.Constant) and isinstance(v.value, str):
                fmt, args = v.value, []
            elif isinstance(v, ast.BinOp) and isinstance(v.op, ast.Mod) and isinstance(v.left, ast.Constant) and isinstance(v.left.value, str):
                fmt = v.left.value
                args = list(v.right.elts) if isinstance(v.right, ast.Tuple) else [v.right]
                # string arguments known in this scenario (the command letter chosen beforehand) are folded into the format
                pieces = FMT.split(fmt)
                convs = [m for m in FMT.finditer(fmt)]
                newfmt, newargs, ai = "", [], 0
                pos = 0
                for m in convs:
                    newfmt += fmt[pos:m.start()]
                    pos = m.end()
                    if m.group(4) == "%":
                        newfmt += m.group(0)
                        continue
                    a_ = args[ai] if ai < len(args) else None
                    ai += 1
                    if m.group(4) == "s" and isinstance(a_, ast.Constant) and isinstance(a_.value, str):
                        newfmt += a_.value
                    else:
                        newfmt += m.group(0)
                        newargs.append(a_)
                newfmt += fmt[pos:]
                newargs += args[ai:]
                fmt, args = newfmt, newargs
            else:
                raise AnalysisError("R07.1", "%s.d[%s,%s]: return is not a format expression: %s" % (cname, mode, form[0], ast.unparse(v)[:60]))
            out[(mode, form)] = (fmt, args, res.node.lineno)
    return out


def mode_test_ok(ctx, cname, fn):
    """absolute without a current point; with one, relative=True gives the relative form and relative=False the absolute one"""
    P = [a.arg for a in fn.args.args]
    cp, rel = P[1], P[2]
    sm = P[3] if len(P) > 3 else None
    letters = {}
    for tag, cpv, relv in (("no current point", K(None), K(True)), ("relative requested", atom(cp), K(True)), ("absolute requested", atom(cp), K(False))):
        pe = PE(ctx.m, "R07.1", "%s.d[%s]" % (cname, tag))
        pe.bind(cp, cpv)
        pe.bind(rel, relv)
        if sm is not None:
            pe.bind(sm, K(False))
        try:
            res = pe.run([x for x in fn.body if not (isinstance(x, ast.Expr) and isinstance(x.value, ast.Constant))])
        except AnalysisError:
            return False, "%s: not decided" % tag
        v = resolve(pe, res.value) if res is not None and res.value is not None else None
        f = v.value if isinstance(v, ast.Constant) else (v.left.value if isinstance(v, ast.BinOp) and isinstance(v.left, ast.Constant) else "")
        if isinstance(v, ast.BinOp) and isinstance(v.right, ast.Tuple) and f.startswith("%s") and isinstance(v.right.elts[0], ast.Constant):
            f = str(v.right.elts[0].value) + f[2:]
        letters[tag] = f.strip()[:1]
    ok = letters["no current point"].isupper() and letters["relative requested"].islower() and letters["absolute requested"].isupper()
    return ok, str(letters)


FMT = re.compile(r"%([-+ #0]*)(\d+)?(?:\.(\d+))?([sdGgEeFfrixX%])")


def writers(ctx, reader):
    point_str_precision(ctx)
    for cname, forms in WRITERS.items():
        fn = ctx.fn("%s.d" % cname, "R07.1")
        okm, det = mode_test_ok(ctx, cname, fn)
        ctx.ob("R07.1", "%s.d[mode test]" % cname, okm, det, fn.lineno, "absolute/relative choice must depend on current point and the relative request")
        scen = d_scenarios(ctx, cname, fn, list(forms))
        seen = set()
        for (mode, form), (fmt, args, line) in sorted(scen.items()):
            ret = ast.Return(value=None, lineno=line)
            upper, lower = forms[form]
            want_letter = upper if mode == "abs" else lower
            cons = "%s.d[%s,%s]" % (cname, mode, form[0])
            seen.add((mode, form))
            letter = fmt.strip()[:1]
            ctx.ob("R07.1", cons + ":letter", letter == want_letter, "writes %r, expected %r" % (letter, want_letter), ret.lineno,
                   "command letter does not match the segment kind / mode")
            convs = [m for m in FMT.finditer(fmt) if m.group(4) != "%"]
            ctx.ob("R07.1", cons + ":arity", len(convs) == len(args), "%d conversions, %d values" % (len(convs), len(args)), ret.lineno, "format/value count mismatch")
            want_fields = reader[upper]
            # operand fields in written order
            got_fields = []
            rel_ok = True
            for a in args:
                f, sub = field_of(a)
                got_fields.append(f)
                if f in ("end", "control", "control1", "control2", "start"):
                    if mode == "rel" and sub != "current_point":
                        rel_ok = False
                    if mode == "abs" and sub is not None:
                        rel_ok = False
                elif sub is not None:
                    rel_ok = False
            if cname == "Arc":
                ctx.ob("R07.1", cons + ":operands", len(got_fields) == 6 and got_fields[5] == "end" and got_fields[:2] == ["rx", "ry"],
                       "writes %s; reader stores %s" % (got_fields, want_fields), ret.lineno, "arc operands out of order")
                arc_operands(ctx, cons, fn, args, ret)
            else:
                ctx.ob("R07.1", cons + ":operands", got_fields == want_fields, "writes %s; reader stores %s" % (got_fields, want_fields), ret.lineno,
                       "operands are written in a different order / from different fields than the reader assigns them")
            ctx.ob("R07.1", cons + ":relative offsets", rel_ok, ", ".join(ast.unparse(a) for a in args), ret.lineno,
                   "relative output subtracts the current point from every point operand (and only from those); absolute output from none")
            # R07.4 precision of float conversions
            for m, a in zip(convs, args):
                ty = m.group(4)
                if ty in "GgEeFf":
                    prec = int(m.group(3)) if m.group(3) else 6
                    ok = (ty in "Gg" and prec >= 12) or (ty in "Ee" and prec >= 11)
                    ctx.ob("R07.4", cons + ":%s" % ast.unparse(a)[:30], ok, "conversion %r has %d digits" % (m.group(0), prec), ret.lineno,
                           "number written with fewer significant digits than the 12 used for coordinates: re-parsing loses precision", detail="" if ok else m.group(0))
                elif ty == "s":
                    f, _ = field_of(a)
                    ctx.ob("R07.4", cons + ":%s" % ast.unparse(a)[:30], f in ("end", "control", "control1", "control2", "start"), "%%s of %s" % ast.unparse(a), ret.lineno,
                           "%s must be used for points only (their __str__ carries 12 digits)")
        want_seen = {(m, f) for f in forms for m in ("abs", "rel")}
        ctx.ob("R07.1", "%s.d[forms]" % cname, seen == want_seen, str(sorted(seen)), fn.lineno, "every mode x form combination must be written")


def field_of(a):
    """self.end -> ('end', None); self.end - current_point -> ('end', 'current_point'); self.rx -> ('rx', None)"""
    sub = None
    if isinstance(a, ast.BinOp) and isinstance(a.op, ast.Sub):
        sub = ast.unparse(a.right)
        a = a.left
    if isinstance(a, ast.Attribute) and isinstance(a.value, ast.Name) and a.value.id == "self":
        return a.attr, sub
    return ast.unparse(a), sub


def arc_operands(ctx, cons, fn, args, ret):
    if len(args) != 6:
        return
    rot, large, sweep = args[2], args[3], args[4]
    ctx.ob("R07.2", cons + ":rotation", ast.unparse(rot) in ("self.get_rotation().as_degrees", "self.get_rotation().as_positive_degrees"), ast.unparse(rot), ret.lineno,
           "the x-axis rotation is written in degrees (the reader converts degrees)")

    def strip_int(n):
        while isinstance(n, ast.Call) and isinstance(n.func, ast.Name) and n.func.id in ("int", "bool"):
            n = n.args[0]
        return n

    l = strip_int(large)
    ok = False
    if isinstance(l, ast.Compare) and len(l.ops) == 1 and isinstance(l.ops[0], (ast.Gt, ast.GtE)):
        try:
            lhs = Alg().ev(l.left)
            rhs = Alg().ev(l.comparators[0])
            ok = lhs == atom("abs(self.sweep)") and rhs == atom("pi")
        except Uninterpreted:
            ok = False
    ctx.ob("R07.2", cons + ":large-arc flag", ok, ast.unparse(large), ret.lineno, "large-arc flag is set iff the arc spans more than a half turn")
    s = strip_int(sweep)
    ok = isinstance(s, ast.Compare) and len(s.ops) == 1 and isinstance(s.ops[0], (ast.Gt, ast.GtE)) and ast.unparse(s.left) == "self.sweep" \
        and isinstance(s.comparators[0], ast.Constant) and s.comparators[0].value == 0
    ctx.ob("R07.2", cons + ":sweep flag", ok, ast.unparse(sweep), ret.lineno, "sweep flag is set iff the arc turns in the positive-angle direction")


def point_str_precision(ctx):
    fn = ctx.fn("Point.__str__", "R07.4")
    convs = [n.left.value for n in ast.walk(fn) if isinstance(n, ast.BinOp) and isinstance(n.op, ast.Mod) and isinstance(n.left, ast.Constant) and isinstance(n.left.value, str)]
    num = [c for c in convs if FMT.fullmatch(c) and FMT.fullmatch(c).group(4) in "GgEeFf"]
    ok = len(num) >= 2 and all(FMT.fullmatch(c).group(4) in "Gg" and int(FMT.fullmatch(c).group(3) or 6) >= 12 for c in num)
    ctx.ob("R07.4", "Point.__str__", ok, str(num), fn.lineno, "coordinates are written with 12 significant digits")
    # trailing zeros may be stripped from a plain decimal only: %G switches to exponent form below 1e-4 (relative offsets between
    # nearly coincident points) and "1.5E-10".rstrip("0") is "1.5E-1"
    from ..flow import dominated

    fmt_of = {}
    for st in stmts_in(fn.body):
        if isinstance(st, ast.Assign) and len(st.targets) == 1 and isinstance(st.targets[0], ast.Name) and isinstance(st.value, ast.BinOp) and isinstance(st.value.op, ast.Mod) \
                and isinstance(st.value.left, ast.Constant) and isinstance(st.value.left.value, str) and FMT.fullmatch(st.value.left.value):
            fmt_of[st.targets[0].id] = FMT.fullmatch(st.value.left.value).group(4)
    strips = [c for c in ast.walk(fn) if isinstance(c, ast.Call) and isinstance(c.func, ast.Attribute) and c.func.attr == "rstrip" and c.args and isinstance(c.args[0], ast.Constant)
              and c.args[0].value == "0" and isinstance(c.func.value, ast.Name) and fmt_of.get(c.func.value.id) in ("G", "g", "E", "e")]
    bad = []
    for c in strips:
        v = c.func.value.id
        letter = "E" if fmt_of[v] in ("G", "E") else "e"

        def no_exponent(test, positive, v=v, letter=letter):
            if isinstance(test, ast.Compare) and len(test.ops) == 1 and isinstance(test.ops[0], (ast.In, ast.NotIn)) and isinstance(test.left, ast.Constant) and test.left.value == letter \
                    and isinstance(test.comparators[0], ast.Name) and test.comparators[0].id == v:
                return isinstance(test.ops[0], ast.NotIn) == positive
            return False

        if not dominated(c, fn, no_exponent):
            bad.append("%s.rstrip('0') line %d" % (v, c.lineno))
    ctx.ob("R07.4", "Point.__str__[zeros stripped from plain decimals only]", not bad, "; ".join(bad) or "%d strip(s), each under an exponent test" % len(strips), fn.lineno,
           "%G writes small numbers in exponent form; stripping trailing zeros then eats the exponent's last digit: a relative offset of 1.5e-10 is written 1.5E-1 and read back as 0.15")
    # reader side of rotation: degrees
    sp = ctx.fn("Arc._svg_parameterize", "R07.2")
    # the rotation operand is the 4th of the seven SVG arc parameters (after self: start, rx, ry, rotation, ...)
    pnames = [a.arg for a in sp.args.args]
    ctx.need(len(pnames) == 8, "R07.2", "Arc._svg_parameterize: seven parameters expected, found %s" % pnames[1:])
    rot = pnames[4]
    from ..flow import Taint as _T
    trot = _T(sp, lambda n: isinstance(n, ast.Name) and n.id == rot, through_containers=False)
    # every trigonometric use goes through a degrees->radians conversion: radians(x) or Angle.degrees(x)
    conv = [c for c in ast.walk(sp) if isinstance(c, ast.Call) and (call_name(c) in ("radians", "math.radians", "Angle.degrees")) and c.args and trot.derived(c.args[0])]
    raw_trig = [c for c in ast.walk(sp) if isinstance(c, ast.Call) and call_name(c) in ("cos", "sin", "tan", "math.cos", "math.sin") and c.args and isinstance(c.args[0], ast.Name)
                and c.args[0].id == rot]
    wrong = [c for c in ast.walk(sp) if isinstance(c, ast.Call) and call_name(c) in ("Angle.radians", "Angle.turns", "Angle.gradians", "degrees", "math.degrees") and c.args and isinstance(c.args[0], ast.Name) and c.args[0].id == rot]
    conv = [c for c in conv if isinstance(c.args[0], ast.Name) and c.args[0].id == rot]
    ctx.ob("R07.2", "Arc._svg_parameterize[rotation unit]", bool(conv) and not raw_trig and not wrong,
           "conversions from degrees: %d; trigonometry on the raw operand: %d; other unit constructors: %d" % (len(conv), len(raw_trig), len(wrong)), sp.lineno,
           "the reader interprets the arc rotation operand as degrees")


# --------------------------------------------------------------------------- R07.3
def svg_d(ctx):
    fn = ctx.fn("Path.svg_d", "R07.3")
    loops = [s for s in ast.walk(fn) if isinstance(s, ast.For)]
    ctx.need(len(loops) in (1, 2), "R07.3", "svg_d: expected one or two segment loops, found %d" % len(loops))
    # initial current point
    # the running-point variable is the one handed to d() as current point
    pvars = {ast.unparse(c.args[0]) for lp in loops for c in ast.walk(lp) if isinstance(c, ast.Call) and isinstance(c.func, ast.Attribute) and c.func.attr == "d" and c.args}
    ctx.need(len(pvars) == 1, "R07.3", "svg_d: running current point variable not identified: %s" % sorted(pvars))
    pvar = pvars.pop()
    first_loop = min(lp.lineno for lp in loops)
    init = [s for s in ast.walk(fn) if isinstance(s, ast.Assign) and any(isinstance(t, ast.Name) and t.id == pvar for t in s.targets) and s.lineno < first_loop]
    ctx.need(init, "R07.3", "svg_d: initial current point not found")
    ok0 = all(call_name(i.value) == "Point" and [ast.unparse(a) for a in i.value.args] in (["0"], ["0", "0"], ["0.0", "0.0"]) for i in init)
    ctx.ob("R07.3", "Path.svg_d[initial point]", ok0, "; ".join(ast.unparse(i) for i in init), init[0].lineno,
           "the reader measures a leading relative command from the origin, so relative output must start from the origin too (not from the first segment's recorded start)")
    summaries = []
    for lp in loops:
        seg = lp.target.id
        calls = [c for c in ast.walk(lp) if isinstance(c, ast.Call) and isinstance(c.func, ast.Attribute) and c.func.attr == "d" and ast.unparse(c.func.value) == seg]
        ctx.need(calls, "R07.3", "svg_d: no d() calls in loop")
        norm = []
        for c in calls:
            a0 = ast.unparse(c.args[0]) if c.args else None
            kw = {k.arg: ast.unparse(k.value).replace("%s.relative" % seg, "relative") for k in c.keywords}
            norm.append((a0, tuple(sorted(kw.items()))))
            ctx.ob("R07.3", "Path.svg_d[current point line %d]" % c.lineno, a0 == pvar, "d(%s, ...)" % a0, c.lineno, "each segment is written relative to the running current point")
            if "smooth" in kw:
                ok = kw["smooth"] in ("False", "%s.is_smooth_from(previous_segment)" % seg)
                ctx.ob("R07.3", "Path.svg_d[smooth line %d]" % c.lineno, ok, kw["smooth"], c.lineno,
                       "smooth shorthand may be emitted only when the segment really continues the previous curve smoothly")
        # p = previous_segment.end ; previous_segment = segment  (at loop body level, after the calls)
        tail = [ast.unparse(s) for s in lp.body if isinstance(s, ast.Assign)]
        ok = any(t in ("%s = previous_segment.end" % pvar, "%s = %s.end" % (pvar, seg)) for t in tail) and any(t == "previous_segment = %s" % seg for t in tail)
        if ok:
            i_prev = [i for i, t in enumerate(tail) if t == "previous_segment = %s" % seg][0]
            i_p = [i for i, t in enumerate(tail) if t.startswith("%s = " % pvar)][0]
            if tail[i_p] == "%s = previous_segment.end" % pvar:
                ok = i_prev < i_p
        # ... on every path through the iteration: a branch that writes a segment and leaves with `continue` skips the advance
        skipping = []
        for blk_owner in ast.walk(lp):
            for field in ("body", "orelse"):
                blk = getattr(blk_owner, field, None)
                if isinstance(blk, list) and blk_owner is not lp and any(isinstance(x, (ast.Continue, ast.Break)) for x in blk) \
                        and any(isinstance(c, ast.Call) and isinstance(c.func, ast.Attribute) and c.func.attr == "d" and ast.unparse(c.func.value) == seg for x in blk for c in ast.walk(x)):
                    skipping.append(blk[0].lineno)
        ok = ok and not skipping
        ctx.ob("R07.3", "Path.svg_d[advance line %d]" % lp.lineno, ok, "; ".join(tail) + ("; a branch at line %s writes the segment and leaves the iteration before the advance" % skipping if skipping else ""), lp.lineno,
               "after each segment - on every path through the loop body - the current point becomes that segment's end")
        classes = sorted({ast.unparse(t) for s in ast.walk(lp) if isinstance(s, ast.If) for t in [s.test] if "isinstance" in ast.unparse(t)})
        summaries.append((sorted(set(norm)), classes))
    if len(summaries) == 2:
        ctx.ob("R07.3", "Path.svg_d[loop siblings]", summaries[0] == summaries[1], "%s vs %s" % (summaries[0][0], summaries[1][0]), fn.lineno,
               "the explicit-relative loop and the as-parsed loop must treat segments alike")
    covered = set()
    for s in ast.walk(fn):
        if isinstance(s, ast.Call) and isinstance(s.func, ast.Name) and s.func.id == "isinstance" and len(s.args) == 2:
            covered |= {e.id for e in (s.args[1].elts if isinstance(s.args[1], ast.Tuple) else [s.args[1]]) if isinstance(e, ast.Name)}
    ctx.ob("R07.3", "Path.svg_d[segment kinds]", covered >= {"Move", "Line", "Arc", "Close", "CubicBezier", "QuadraticBezier"}, str(sorted(covered)), fn.lineno,
           "every segment kind must be written")
    for cname, prevfield, ownfield in (("QuadraticBezier", "control", "control"), ("CubicBezier", "control2", "control1")):
        f = ctx.fn("%s.is_smooth_from" % cname, "R07.3")
        top = [s for s in f.body if isinstance(s, ast.If)]
        ok = False
        detail = ""
        if top and isinstance(top[0].test, ast.UnaryOp) and isinstance(top[0].test.op, ast.Not) and not top[0].orelse and top[0].body and isinstance(top[0].body[-1], ast.Return):
            # guard clause `if not isinstance(previous, C): return B` followed by `return A`: the same two arms
            rest = [s for s in f.body[f.body.index(top[0]) + 1:] if not (isinstance(s, ast.Expr) and isinstance(s.value, ast.Constant))]
            if rest and isinstance(rest[0], ast.Return):
                top = [ast.If(test=top[0].test.operand, body=[rest[0]], orelse=list(top[0].body), lineno=top[0].lineno)]
        if top:
            t = ast.unparse(top[0].test)
            body = ast.unparse(top[0].body[0]) if top[0].body else ""
            detail = t + " -> " + body
            ok = t == "isinstance(previous, %s)" % cname and "previous.%s" % prevfield in body and "self.%s" % ownfield in body and "self.start == previous.end" in body
            other = "previous.%s" % ("control1" if prevfield == "control2" else "controlX")
            ok = ok and other not in body
            els = ast.unparse(top[0].orelse[0]) if top[0].orelse else ""
            ok = ok and els.replace(" ", "") in ("returnself.%s==self.start" % ownfield, "returnself.start==self.%s" % ownfield)
        loose = [c for c in ast.walk(f) if isinstance(c, ast.Compare) and len(c.ops) == 1 and isinstance(c.ops[0], (ast.Lt, ast.LtE)) and isinstance(c.comparators[0], ast.Constant)
                 and isinstance(c.comparators[0].value, float) and c.comparators[0].value > 1e-9]
        ctx.ob("R07.3", "%s.is_smooth_from[reflection decided by point equality]" % cname, not loose, "; ".join(ast.unparse(c)[:60] for c in loose), f.lineno,
               "the shorthand drops the control point and the reader rebuilds it as the exact reflection: a control point that is merely within a numeric tolerance of the reflection (coarser than the 12 digits coordinates are written with) is lost")
        if loose:
            continue
        ctx.ob("R07.3", "%s.is_smooth_from" % cname, ok, detail[:200], f.lineno,
               "shorthand is valid only after a curve of the same class whose last control mirrors this segment's first control; otherwise only when the control coincides with the start")


def delegation(ctx):
    f = ctx.fn("Path.__str__", "R07.5")
    ctx.ob("R07.5", "Path.__str__", ast.unparse(f.body[-1]) == "return self.d()", ast.unparse(f.body[-1]), f.lineno, "str(path) is its path data")
    f = ctx.fn("Path.d", "R07.5")
    calls = [c for c in ast.walk(f) if call_name(c) == "Path.svg_d"]
    ok = len(calls) == 1 and {k.arg: ast.unparse(k.value) for k in calls[0].keywords} == {"relative": "relative", "smooth": "smooth"}
    ctx.ob("R07.5", "Path.d", ok, "", f.lineno, "Path.d forwards relative and smooth to svg_d")
    f = ctx.fn("Subpath.d", "R07.5")
    calls = [c for c in ast.walk(f) if call_name(c) == "Path.svg_d"]
    ok = len(calls) == 1 and {k.arg: ast.unparse(k.value) for k in calls[0].keywords} == {"relative": "relative", "smooth": "smooth"}
    ctx.ob("R07.5", "Subpath.d", ok, "", f.lineno, "Subpath.d forwards relative and smooth to svg_d")
    f = ctx.fn("Subpath.__str__", "R07.5")
    ctx.ob("R07.5", "Subpath.__str__", ast.unparse(f.body[-1]) == "return self.d()", "", f.lineno, "")
