"""Canonical forms of the Matrix class's straight-line formulas (shared by C02 and C04)."""
import ast

from .algebra import RF, Alg, Uninterpreted, atom, const
from .dispatch import Facts, walk
from .model import AnalysisError, attr_chain, call_name

F6 = ("a", "b", "c", "d", "e", "f")


def sym_matrix(prefix):
    return [atom("%s.%s" % (prefix, k)) for k in F6]


def ref_apply(M, x, y):
    """SVG 1.1 section 7.4: [a c e; b d f] applied to column (x, y, 1)."""
    a, b, c, d, e, f = M
    return [a * x + c * y + e, b * x + d * y + f]


def ref_compose(first, then):
    """Matrix of 'apply first, then then' by the SVG definition (product then x first)."""
    a1, b1, c1, d1, e1, f1 = first
    a2, b2, c2, d2, e2, f2 = then
    return [
        a2 * a1 + c2 * b1,
        b2 * a1 + d2 * b1,
        a2 * c1 + c2 * d1,
        b2 * c1 + d2 * d1,
        a2 * e1 + c2 * f1 + e2,
        b2 * e1 + d2 * f1 + f2,
    ]


IDENT = [const(1), const(0), const(0), const(1), const(0), const(0)]


def multiply_formula(ctx, rule):
    """Return function (M, S) -> 6 RFs as implemented by Matrix.matrix_multiply(m, s)."""
    fn = ctx.fn("Matrix.matrix_multiply", rule)
    pm, ps = [a.arg for a in fn.args.args][:2]

    def mul(M, S):
        amap = {}
        for k, v in zip(F6, M):
            amap["%s.%s" % (pm, k)] = v
        for k, v in zip(F6, S):
            amap["%s.%s" % (ps, k)] = v
        alg = Alg(atom_map=amap)
        out = walk([s for s in fn.body if not _doc(s)], Facts(), alg, ctx.m, rule, "Matrix.matrix_multiply")
        if out.kind != "return":
            raise AnalysisError(rule, "matrix_multiply: no return")
        vals = alg.ev_tuple(out.node)
        if vals is None or len(vals) != 6:
            raise AnalysisError(rule, "matrix_multiply: result is not a 6-tuple")
        return vals

    return mul


def _doc(s):
    return isinstance(s, ast.Expr) and isinstance(s.value, ast.Constant)


def point_formula(ctx, rule, qual="Matrix.point_in_matrix_space"):
    """(M, x, y) -> [x', y'] as implemented."""
    fn = ctx.fn(qual, rule)
    pv = fn.args.args[1].arg

    def app(M, x, y):
        amap = {"%s[0]" % pv: x, "%s[1]" % pv: y, "%s.x" % pv: x, "%s.y" % pv: y}
        for k, v in zip(F6, M):
            amap["self.%s" % k] = v
        alg = Alg(atom_map=amap)
        body = [s for s in fn.body if not _doc(s)]
        out = walk(body, Facts(), alg, ctx.m, rule, qual)
        if out.kind != "return":
            raise AnalysisError(rule, "%s: no return" % qual)
        node = out.node
        if isinstance(node, ast.Call) and isinstance(node.func, ast.Name) and node.func.id == "Point" and len(node.args) == 2:
            return [alg.ev(node.args[0]), alg.ev(node.args[1])]
        if isinstance(node, ast.Name) and node.id == pv:
            # in-place form: v[0] = nx; v[1] = ny
            res = {}
            for s in body:
                if isinstance(s, ast.Assign) and isinstance(s.targets[0], ast.Subscript) and ast.unparse(s.targets[0].value) == pv:
                    res[ast.literal_eval(s.targets[0].slice)] = alg.ev(s.value)
            if set(res) == {0, 1}:
                return [res[0], res[1]]
        raise AnalysisError(rule, "%s: result shape not recognised: %s" % (qual, ast.unparse(node)))

    return app


def inverse_formula(ctx, rule):
    fn = ctx.fn("Matrix.inverse", rule)

    def inv(M):
        amap = {}
        for k, v in zip(F6, M):
            amap["self.%s" % k] = v
        alg = Alg(atom_map=amap)
        out = walk([s for s in fn.body if not _doc(s)], Facts(), alg, ctx.m, rule, "Matrix.inverse")
        if not (out.kind == "return" and isinstance(out.node, ast.Name) and out.node.id == "self"):
            raise AnalysisError(rule, "Matrix.inverse: must update in place and return self")
        return [alg.atom_map["self.%s" % k] for k in F6]

    return inv


def ctor_fields(ctx, rule):
    """How Matrix(*components) maps six positional components to fields: returns list of field names by position."""
    fn = ctx.fn("Matrix.__init__", rule)
    comp = fn.args.vararg.arg if fn.args.vararg else None
    if comp is None:
        raise AnalysisError(rule, "Matrix.__init__ has no *components")
    pos = {}
    seq = {}
    for s in ast.walk(fn):
        if isinstance(s, ast.Assign) and isinstance(s.targets[0], ast.Attribute) and isinstance(s.value, ast.Subscript) \
                and isinstance(s.value.slice, ast.Constant) and isinstance(s.value.value, ast.Name):
            if s.value.value.id == comp:
                pos[s.value.slice.value] = s.targets[0].attr
            else:
                seq[s.value.slice.value] = s.targets[0].attr
    if sorted(pos) != list(range(6)) or sorted(seq) != list(range(6)):
        raise AnalysisError(rule, "Matrix.__init__: component-to-field assignments not recognised")
    defaults = {}
    for s in fn.body:
        if isinstance(s, ast.Assign) and isinstance(s.targets[0], ast.Attribute) and isinstance(s.value, ast.Constant):
            defaults[s.targets[0].attr] = s.value.value
    return [pos[i] for i in range(6)], [seq[i] for i in range(6)], defaults


def elementary(ctx, rule, name, params):
    """Matrix.<name>(*params) classmethod -> 6 RFs in field order (through the constructor's position map)."""
    fn = ctx.fn("Matrix.%s" % name, rule)
    pnames = [a.arg for a in fn.args.args][1:]
    alg = Alg()
    nulls = {}
    for p, v in zip(pnames, params):
        if v is None:
            nulls[p] = True
        else:
            nulls[p] = False
            alg.env[p] = v
    facts = Facts(nulls=nulls)
    body = [s for s in fn.body if not _doc(s)]
    # `if sy is None: sy = sx` re-binds a None parameter
    out = walk(body, facts, alg, ctx.m, rule, "Matrix.%s" % name)

    def of_call(call):
        cn = call_name(call)
        if cn == "cls" or cn == "Matrix":
            vals = [alg.ev(a) for a in call.args]
            if len(vals) != 6:
                raise AnalysisError(rule, "Matrix.%s: constructor call without six components" % name)
            posmap, _, _ = ctor_fields(ctx, rule)
            byfield = dict(zip(posmap, vals))
            return [byfield[k] for k in F6]
        if cn and (cn.startswith("cls.") or cn.startswith("Matrix.")):
            return elementary(ctx, rule, cn.split(".")[1], [alg.ev(a) for a in call.args])
        raise AnalysisError(rule, "Matrix.%s: returns %s" % (name, ast.unparse(call)))

    def of_expr(node):
        if isinstance(node, ast.Call):
            return of_call(node)
        if isinstance(node, ast.BinOp) and isinstance(node.op, (ast.Mult, ast.MatMult)):
            # a product of elementary matrices: "left, then right" (the row-vector convention p * (A * B) = (p * A) * B that R04.5
            # establishes for Matrix.__mul__ separately)
            A, B = of_expr(node.left), of_expr(node.right)
            a1, b1, c1, d1, e1, f1 = A
            a2, b2, c2, d2, e2, f2 = B
            return [a1 * a2 + b1 * c2, a1 * b2 + b1 * d2, c1 * a2 + d1 * c2, c1 * b2 + d1 * d2, e1 * a2 + f1 * c2 + e2, e1 * b2 + f1 * d2 + f2]
        raise AnalysisError(rule, "Matrix.%s: no constructor call returned" % name)

    if out.kind != "return" or out.node is None:
        raise AnalysisError(rule, "Matrix.%s: no constructor call returned" % name)
    if not isinstance(out.node, ast.Call):
        return of_expr(out.node)
    call = out.node
    cn = call_name(call)
    if cn == "cls" or cn == "Matrix":
        vals = [alg.ev(a) for a in call.args]
        if len(vals) != 6:
            raise AnalysisError(rule, "Matrix.%s: constructor call without six components" % name)
        posmap, _, _ = ctor_fields(ctx, rule)
        byfield = dict(zip(posmap, vals))
        return [byfield[k] for k in F6]
    if cn and (cn.startswith("cls.") or cn.startswith("Matrix.")):
        inner = cn.split(".")[1]
        args = [alg.ev(a) for a in call.args]
        return elementary(ctx, rule, inner, args)
    raise AnalysisError(rule, "Matrix.%s: returns %s" % (name, ast.unparse(call)))


def eq6(a, b):
    return all(x == y for x, y in zip(a, b))
