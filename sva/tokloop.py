"""Summaries of the tokenizer reader loops (_command, _more, _number, _flag).

A reader loop matches one compiled token regex at the cursor and dispatches on which alternative matched
(`match.lastgroup`).  The set of alternatives is finite and known from the folded pattern, so the loop body is followed once per
alternative (and once for "no match") and the outcome is recorded:

    kind     'return' | 'continue' | 'exit'     (exit = leaves the loop: break, or the loop test fails afterwards)
    value    the returned expression (ast) for 'return' / for 'exit' the expression returned after the loop
    advanced whether self.pos was set to <match>.end() on the way
    effects  attribute stores on the way: [(attr, 'group' | 'end' | unparsed value)]

Nothing is executed.  An undecided test is an analysis error.
"""
import ast
import re

from .model import AnalysisError, attr_chain


class Outcome:
    def __init__(self, kind, value, advanced, effects, line):
        self.kind, self.value, self.advanced, self.effects, self.line = kind, value, advanced, effects, line

    def __repr__(self):
        v = ast.unparse(self.value) if isinstance(self.value, ast.AST) else self.value
        return "%s(%s)%s%s" % (self.kind, v, " advanced" if self.advanced else "", " effects=%s" % self.effects if self.effects else "")


class ReaderLoop:
    def __init__(self, model, fn, rule):
        self.m, self.fn, self.rule = model, fn, rule
        loops = [s for s in fn.body if isinstance(s, ast.While)]
        if len(loops) != 1:
            raise AnalysisError(rule, "%s: reader loop not found" % fn.name)
        self.loop = loops[0]
        self.after = fn.body[fn.body.index(self.loop) + 1:]
        self.regex = None
        self.mvar = None
        for n in ast.walk(self.loop):
            if isinstance(n, ast.Assign) and len(n.targets) == 1 and isinstance(n.targets[0], ast.Name) and isinstance(n.value, ast.Call) \
                    and isinstance(n.value.func, ast.Attribute) and n.value.func.attr == "match" and isinstance(n.value.func.value, ast.Name) \
                    and n.value.func.value.id in model.regexes:
                self.regex = n.value.func.value.id
                self.mvar = n.targets[0].id
                self.match_call = n.value
        if self.regex is None:
            raise AnalysisError(rule, "%s: no `<var> = <token regex>.match(...)` in the loop" % fn.name)
        self.groups = re.findall(r"\(\?P<(\w+)>", model.regexes[self.regex])
        a = self.match_call.args
        self.at_cursor = len(a) == 2 and attr_chain(a[0]) == ["self", "pathd"] and attr_chain(a[1]) == ["self", "pos"]
        t = self.loop.test
        self.bounded = isinstance(t, ast.Compare) and len(t.ops) == 1 and (
            (isinstance(t.ops[0], ast.Lt) and attr_chain(t.left) == ["self", "pos"] and attr_chain(t.comparators[0]) == ["self", "limit"])
            or (isinstance(t.ops[0], ast.Gt) and attr_chain(t.left) == ["self", "limit"] and attr_chain(t.comparators[0]) == ["self", "pos"]))
        self.outcomes = {k: self._follow(k) for k in self.groups + [None]}

    # ------------------------------------------------------------------
    def _decide(self, test, k, kinds):
        if isinstance(test, ast.BoolOp):
            vals = [self._decide(v, k, kinds) for v in test.values]
            return all(vals) if isinstance(test.op, ast.And) else any(vals)
        if isinstance(test, ast.UnaryOp) and isinstance(test.op, ast.Not):
            return not self._decide(test.operand, k, kinds)
        if isinstance(test, ast.Compare) and len(test.ops) == 1:
            l, r, op = test.left, test.comparators[0], test.ops[0]
            if isinstance(op, (ast.Is, ast.IsNot)) and isinstance(r, ast.Constant) and r.value is None and isinstance(l, ast.Name) and l.id == self.mvar:
                return (k is None) == isinstance(op, ast.Is)
            for a, b in ((l, r), (r, l)):
                is_kind = (isinstance(a, ast.Name) and a.id in kinds) or (isinstance(a, ast.Attribute) and a.attr == "lastgroup" and isinstance(a.value, ast.Name) and a.value.id == self.mvar)
                if is_kind and isinstance(b, ast.Constant) and isinstance(b.value, str):
                    if isinstance(op, ast.Eq):
                        return k == b.value
                    if isinstance(op, ast.NotEq):
                        return k != b.value
                if is_kind and isinstance(b, (ast.Tuple, ast.List, ast.Set)) and isinstance(op, (ast.In, ast.NotIn)) and a is l:
                    vals = [e.value for e in b.elts if isinstance(e, ast.Constant)]
                    return (k in vals) == isinstance(op, ast.In)
        if isinstance(test, ast.Name) and test.id == self.mvar:
            return k is not None
        raise AnalysisError(self.rule, "%s: undecided test in reader loop: %s" % (self.fn.name, ast.unparse(test)[:60]))

    def _follow(self, k):
        state = {"advanced": False, "effects": [], "kinds": set()}

        def run(stmts):
            for s in stmts:
                if isinstance(s, ast.Expr) and isinstance(s.value, ast.Constant):
                    continue
                if isinstance(s, ast.Assign) and len(s.targets) == 1:
                    t, v = s.targets[0], s.value
                    if isinstance(t, ast.Name) and t.id == self.mvar:
                        continue
                    if isinstance(t, ast.Name) and isinstance(v, ast.Attribute) and v.attr == "lastgroup" and isinstance(v.value, ast.Name) and v.value.id == self.mvar:
                        state["kinds"].add(t.id)
                        continue
                    ch = attr_chain(t)
                    if ch and ch[0] == "self" and len(ch) == 2:
                        what = ast.unparse(v)
                        if isinstance(v, ast.Call) and isinstance(v.func, ast.Attribute) and isinstance(v.func.value, ast.Name) and v.func.value.id == self.mvar and not v.args:
                            what = v.func.attr
                        if ch[1] == "pos" and what == "end":
                            state["advanced"] = True
                        state["effects"].append((ch[1], what))
                        continue
                    if isinstance(t, ast.Name):
                        continue  # other locals are irrelevant to the outcome classification
                    raise AnalysisError(self.rule, "%s: store not interpreted in reader loop: %s" % (self.fn.name, ast.unparse(s)[:60]))
                if isinstance(s, ast.If):
                    r = run(s.body if self._decide(s.test, k, state["kinds"]) else s.orelse)
                    if r is not None:
                        return r
                    continue
                if isinstance(s, ast.Return):
                    return ("return", s.value, s.lineno)
                if isinstance(s, ast.Continue):
                    return ("continue", None, s.lineno)
                if isinstance(s, ast.Break):
                    return ("exit", None, s.lineno)
                if isinstance(s, ast.Raise):
                    return ("raise", s.exc, s.lineno)
                if isinstance(s, ast.Pass):
                    continue
                raise AnalysisError(self.rule, "%s: statement not interpreted in reader loop: %s" % (self.fn.name, type(s).__name__))
            return None

        r = run(self.loop.body)
        if r is None:
            r = ("continue", None, self.loop.lineno)  # fell off the end of the body: next iteration
        kind, value, line = r
        if kind == "exit":
            # value returned after the loop
            rets = [s for s in self.after if isinstance(s, ast.Return)]
            value = rets[0].value if rets else None
        return Outcome(kind, value, state["advanced"], state["effects"], line)

    def after_value(self):
        rets = [s for s in self.after if isinstance(s, ast.Return)]
        return rets[0].value if rets else None


def is_none(node):
    return node is None or (isinstance(node, ast.Constant) and node.value is None)


def group_conv(node, mvar, convs):
    """conv1(conv2(<mvar>.group())) -> True when the expression is exactly that chain"""
    for c in convs:
        if not (isinstance(node, ast.Call) and isinstance(node.func, ast.Name) and node.func.id == c and len(node.args) == 1):
            return False
        node = node.args[0]
    return isinstance(node, ast.Call) and isinstance(node.func, ast.Attribute) and node.func.attr == "group" and isinstance(node.func.value, ast.Name) \
        and node.func.value.id == mvar and not node.args
