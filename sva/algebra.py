"""Exact canonical forms of straight-line arithmetic: rational functions over atoms.

An expression tree becomes a quotient of multivariate polynomials with Fraction
coefficients. Atoms are names, attribute chains, constant subscripts and opaque
calls (cos(<canonical arg>), sqrt(...), abs(...)). This is a normaliser (value
numbering), not an evaluator: nothing is executed and no path is explored.
"""
import ast
from fractions import Fraction

from .model import AnalysisError, attr_chain


class Uninterpreted(Exception):
    def __init__(self, what):
        Exception.__init__(self, what)
        self.what = what


# --- polynomials: dict monomial -> Fraction; monomial: tuple of (atom, power) sorted


def p_const(c):
    c = Fraction(c)
    return {(): c} if c != 0 else {}


def p_atom(a):
    return {((a, 1),): Fraction(1)}


def p_add(a, b, sign=1):
    out = dict(a)
    for m, c in b.items():
        v = out.get(m, 0) + sign * c
        if v == 0:
            out.pop(m, None)
        else:
            out[m] = v
    return out


def m_mul(m1, m2):
    d = dict(m1)
    for a, p in m2:
        d[a] = d.get(a, 0) + p
    return tuple(sorted((a, p) for a, p in d.items() if p != 0))


def p_mul(a, b):
    out = {}
    for m1, c1 in a.items():
        for m2, c2 in b.items():
            m = m_mul(m1, m2)
            v = out.get(m, 0) + c1 * c2
            if v == 0:
                out.pop(m, None)
            else:
                out[m] = v
    return out


def p_is_const(p):
    return all(m == () for m in p)


def p_constval(p):
    return p.get((), Fraction(0))


def p_str(p):
    if not p:
        return "0"
    parts = []
    for m in sorted(p, key=lambda m: (len(m), m)):
        c = p[m]
        ms = "*".join(a if pw == 1 else "%s^%d" % (a, pw) for a, pw in m)
        if ms == "":
            parts.append(str(c))
        elif c == 1:
            parts.append(ms)
        elif c == -1:
            parts.append("-" + ms)
        else:
            parts.append("%s*%s" % (c, ms))
    return " + ".join(parts)


P_MOD = (1 << 61) - 1
K_FP = 3
MAX_TERMS = 1500  # beyond this an exact polynomial is dropped and only the fingerprint is kept


import functools


@functools.lru_cache(maxsize=None)
def _atom_fp(name):
    import hashlib

    out = []
    for i in range(K_FP):
        h = hashlib.sha256(("%s#%d" % (name, i)).encode()).digest()
        out.append(int.from_bytes(h[:8], "big") % (P_MOD - 2) + 2)
    return tuple(out)


def _const_fp(c):
    c = Fraction(c)
    v = (c.numerator % P_MOD) * pow(c.denominator % P_MOD, P_MOD - 2, P_MOD) % P_MOD
    return (v,) * K_FP


class RF:
    """Rational function num/den over atoms.

    Two representations are kept: the exact polynomial quotient (while it stays small) and a fingerprint - the value
    of the function at K fixed pseudo-random points of the field Z/(2^61-1), derived from the atom names (random
    interpretation, Gulwani & Necula 2004).  Different fingerprints prove the functions different; equal fingerprints are
    confirmed by exact cross-multiplication when the polynomials are small and accepted otherwise (error probability
    below 1e-50 per comparison by Schwartz-Zippel).  Nothing of the analysed program is executed: the points are
    substituted into the canonical form of a formula.
    """

    __slots__ = ("n", "d", "fp")

    def __init__(self, n, d=None, fp=None):
        self.n = n
        self.d = d if d is not None else (p_const(1) if n is not None else None)
        if fp is None:
            fp = self._fp_from_polys()
        self.fp = fp
        if self.n is not None:
            if len(self.n) > MAX_TERMS or len(self.d) > MAX_TERMS:
                self.n = self.d = None
            else:
                self._norm()

    def _fp_from_polys(self):
        def ev(poly, i):
            tot = 0
            for m, c in poly.items():
                t = (c.numerator % P_MOD) * pow(c.denominator % P_MOD, P_MOD - 2, P_MOD) % P_MOD
                for a, pw in m:
                    t = t * pow(_atom_fp(a)[i], pw, P_MOD) % P_MOD
                tot = (tot + t) % P_MOD
            return tot

        out = []
        for i in range(K_FP):
            dn = ev(self.d, i)
            if dn == 0:
                raise Uninterpreted("division by structural zero")
            out.append(ev(self.n, i) * pow(dn, P_MOD - 2, P_MOD) % P_MOD)
        return tuple(out)

    def _norm(self):
        if not self.d:
            raise Uninterpreted("division by structural zero")
        if not self.n:
            self.d = p_const(1)
            return
        if len(self.d) == 1:
            (m, c), = self.d.items()
            self.n = {k: v / c for k, v in self.n.items()}
            self.d = {m: Fraction(1)}
            if m != ():
                md = dict(m)
                common = {}
                for a, p in md.items():
                    lo = min((dict(k).get(a, 0) for k in self.n), default=0)
                    common[a] = min(lo, p)
                if any(common.values()):
                    def red(k):
                        d = dict(k)
                        for a, p in common.items():
                            if p:
                                d[a] = d.get(a, 0) - p
                        return tuple(sorted((a, q) for a, q in d.items() if q))
                    self.n = {red(k): v for k, v in self.n.items()}
                    self.d = {red(m): Fraction(1)}
        else:
            lead = self.d[sorted(self.d, key=lambda m: (len(m), m))[-1]]
            if lead != 1:
                self.n = {k: v / lead for k, v in self.n.items()}
                self.d = {k: v / lead for k, v in self.d.items()}

    @staticmethod
    def _small(*polys):
        return all(p is not None for p in polys)

    def _bin(self, o, fpop, polyop):
        fp = tuple(fpop(a, b) for a, b in zip(self.fp, o.fp))
        if self.n is not None and o.n is not None:
            if max(len(self.n), len(self.d)) * max(len(o.n), len(o.d)) <= 40 * MAX_TERMS:
                n, d = polyop()
                return RF(n, d, fp)
        return RF(None, None, fp)

    def __add__(self, o):
        def poly():
            if self.d == o.d:
                return p_add(self.n, o.n), self.d
            return p_add(p_mul(self.n, o.d), p_mul(o.n, self.d)), p_mul(self.d, o.d)
        return self._bin(o, lambda a, b: (a + b) % P_MOD, poly)

    def __sub__(self, o):
        def poly():
            if self.d == o.d:
                return p_add(self.n, o.n, -1), self.d
            return p_add(p_mul(self.n, o.d), p_mul(o.n, self.d), -1), p_mul(self.d, o.d)
        return self._bin(o, lambda a, b: (a - b) % P_MOD, poly)

    def __mul__(self, o):
        return self._bin(o, lambda a, b: a * b % P_MOD, lambda: (p_mul(self.n, o.n), p_mul(self.d, o.d)))

    def __truediv__(self, o):
        if any(v == 0 for v in o.fp):
            raise Uninterpreted("division by structural zero")
        return self._bin(o, lambda a, b: a * pow(b, P_MOD - 2, P_MOD) % P_MOD, lambda: (p_mul(self.n, o.d), p_mul(self.d, o.n)))

    def __neg__(self):
        fp = tuple((-a) % P_MOD for a in self.fp)
        if self.n is None:
            return RF(None, None, fp)
        return RF({k: -v for k, v in self.n.items()}, self.d, fp)

    def __pow__(self, k):
        if k < 0:
            return RF(p_const(1)) / (self ** (-k))
        r = RF(p_const(1))
        for _ in range(k):
            r = r * self
        return r

    def __eq__(self, o):
        if self.fp != o.fp:
            return False
        if self.n is not None and o.n is not None and len(self.n) * len(o.d) + len(o.n) * len(self.d) <= 20 * MAX_TERMS:
            return not p_add(p_mul(self.n, o.d), p_mul(o.n, self.d), -1)
        return True

    def __ne__(self, o):
        return not self.__eq__(o)

    def is_zero(self):
        return all(v == 0 for v in self.fp)

    def exact(self):
        return self.n is not None

    def is_const(self):
        return self.n is not None and p_is_const(self.n) and p_is_const(self.d)

    def constval(self):
        return p_constval(self.n) / p_constval(self.d)

    def atoms(self):
        s = set()
        if self.n is None:
            return s
        for p in (self.n, self.d):
            for m in p:
                for a, _ in m:
                    s.add(a)
        return s

    def __str__(self):
        if self.n is None:
            return "<large:%x>" % self.fp[0]
        if p_is_const(self.d) and p_constval(self.d) == 1:
            s = p_str(self.n)
        else:
            s = "(%s)/(%s)" % (p_str(self.n), p_str(self.d))
        if len(s) > 400:
            return "<%s...:%x>" % (s[:120], self.fp[0])
        return s

    __repr__ = __str__
    __hash__ = None


def const(c):
    return RF(p_const(c))


def atom(a):
    return RF(p_atom(a))


_REGISTRY = {}


def opaque_name(fname, args):
    """Atom name of an opaque application f(args), canonical up to equality of the argument forms: two applications
    of the same function to equal rational functions get the same atom even when the arguments were written differently."""
    lst = _REGISTRY.setdefault((fname, len(args)), [])
    for known, name in lst:
        if all(a == b for a, b in zip(known, args)):
            return name
    name = "%s(%s)" % (fname, ",".join(str(a) for a in args))
    lst.append((list(args), name))
    return name


OPAQUE_FUNCS = {
    "cos", "sin", "tan", "sqrt", "abs", "acos", "atan", "atan2", "hypot", "ceil", "floor",
    "radians", "degrees", "min", "max", "log", "int", "round", "len", "bool",
}
IDENTITY_FUNCS = {"float"}


class Alg:
    """Expression -> RF with an environment of substituted local definitions."""

    def __init__(self, env=None, atom_map=None, funcs=None, const_names=None, call_hook=None):
        self.env = dict(env or {})  # name -> RF
        self.atom_map = atom_map or {}  # atom string -> atom string (renaming) or RF
        self.funcs = funcs or {}
        self.const_names = const_names or {}
        self.call_hook = call_hook

    def _atom(self, s):
        if s in self.atom_map:
            v = self.atom_map[s]
            return v if isinstance(v, RF) else atom(v)
        return atom(s)

    def ev(self, node):
        if isinstance(node, ast.Constant):
            v = node.value
            if isinstance(v, bool):
                return const(int(v))
            if isinstance(v, int):
                return const(v)
            if isinstance(v, float):
                return const(Fraction(repr(v)))
            raise Uninterpreted("constant %r" % (v,))
        if isinstance(node, ast.Name):
            if node.id in self.env:
                return self.env[node.id]
            if node.id == "tau":
                return const(2) * atom("pi")
            if node.id in self.const_names:
                return const(Fraction(repr(self.const_names[node.id])))
            return self._atom(node.id)
        if isinstance(node, ast.Attribute) and node.attr in ("x", "y", "real", "imag"):
            pv = self.point_value(node.value)
            if pv is not None:
                return pv[0 if node.attr in ("x", "real") else 1]
        if isinstance(node, ast.Attribute):
            ch = attr_chain(node)
            if ch is None:
                if self.call_hook is not None:
                    r = self.call_hook(self, node)
                    if r is not None:
                        return r
                inner = self.ev(node.value)
                return self._atom("(%s).%s" % (inner, node.attr))
            if len(ch) == 2 and ch[0] == "math":
                if ch[1] == "tau":
                    return const(2) * atom("pi")
                return self._atom(ch[1])
            s = ".".join(ch)
            # allow env to hold object-valued names: "p" -> prefix rename
            if ch[0] in self.env and isinstance(self.env[ch[0]], str):
                s = ".".join([self.env[ch[0]]] + ch[1:])
            return self._atom(s)
        if isinstance(node, ast.Subscript):
            idx = node.slice
            base = node.value
            if isinstance(idx, ast.Constant) or (
                isinstance(idx, ast.UnaryOp) and isinstance(idx.operand, ast.Constant)
            ):
                ch = attr_chain(base)
                iv = ast.literal_eval(idx)
                pv = self.point_value(base)
                if pv is not None and iv in (0, 1):
                    return pv[iv]
                if ch is not None:
                    key = "%s[%r]" % (".".join(ch), iv)
                    if key in self.env:
                        return self.env[key]
                    if ch[0] in self.env and isinstance(self.env[ch[0]], (list, tuple)) and len(ch) == 1:
                        return self.env[ch[0]][iv]
                    return self._atom(key)
            raise Uninterpreted("subscript %s" % ast.unparse(node))
        if isinstance(node, ast.UnaryOp):
            if isinstance(node.op, ast.USub):
                return -self.ev(node.operand)
            if isinstance(node.op, ast.UAdd):
                return self.ev(node.operand)
            raise Uninterpreted("unary %s" % type(node.op).__name__)
        if isinstance(node, ast.BinOp):
            if isinstance(node.op, ast.Pow):
                base = self.ev(node.left)
                try:
                    e = self.ev(node.right)
                except Uninterpreted:
                    e = None
                if e is not None and e.is_const():
                    ev_ = e.constval()
                    if ev_.denominator == 1:
                        return base ** int(ev_)
                    if ev_ == Fraction(1, 2):
                        return self._atom(opaque_name("sqrt", [base]))
                raise Uninterpreted("power %s" % ast.unparse(node))
            l = self.ev(node.left)
            r = self.ev(node.right)
            if isinstance(node.op, ast.Add):
                return l + r
            if isinstance(node.op, ast.Sub):
                return l - r
            if isinstance(node.op, ast.Mult):
                return l * r
            if isinstance(node.op, ast.Div):
                return l / r
            if isinstance(node.op, ast.Mod):
                return self._atom(opaque_name("mod", [l, r]))
            raise Uninterpreted("binop %s" % type(node.op).__name__)
        if isinstance(node, ast.Call):
            if self.call_hook is not None:
                r = self.call_hook(self, node)
                if r is not None:
                    return r
            ch = attr_chain(node.func)
            name = ch[-1] if ch else None
            if ch and len(ch) <= 2 and (len(ch) == 1 or ch[0] == "math"):
                if name in IDENTITY_FUNCS and len(node.args) == 1 and not node.keywords:
                    return self.ev(node.args[0])
                if name == "pow" and len(node.args) == 2:
                    return self.ev(ast.BinOp(node.args[0], ast.Pow(), node.args[1]))
                if name in self.funcs:
                    return self.funcs[name](self, node)
                if name in OPAQUE_FUNCS and not node.keywords:
                    args = [self.ev(a) for a in node.args]
                    if name in ("min", "max"):
                        args = sorted(args, key=str)
                    if name == "abs" and len(args) == 1 and args[0].is_const():
                        return const(abs(args[0].constval()))
                    if name == "sqrt" and len(args) == 1 and args[0].is_const():
                        v = args[0].constval()
                        for k in range(0, 1000):
                            if Fraction(k * k) == v:
                                return const(k)
                    if len(args) == 1 and args[0].is_const() and args[0].constval() == 0:
                        # exact values at zero
                        if name in ("sin", "tan", "asin", "atan", "sinh", "tanh"):
                            return const(0)
                        if name in ("cos", "cosh", "exp"):
                            return const(1)
                    return self._atom(opaque_name(name, args))
            raise Uninterpreted("call %s" % ast.unparse(node)[:80])
        if isinstance(node, ast.IfExp):
            raise Uninterpreted("conditional expression")
        raise Uninterpreted(type(node).__name__)

    def assign(self, stmt):
        """Substitute a single-definition local: name = expr, a, b = x, y ; name op= expr."""
        if isinstance(stmt, ast.Assign) and len(stmt.targets) > 1 and all(isinstance(t, ast.Name) for t in stmt.targets):
            v = self.ev(stmt.value)
            for t in stmt.targets:
                self.env[t.id] = v
            return True
        if isinstance(stmt, ast.Assign) and len(stmt.targets) == 1:
            t = stmt.targets[0]
            if isinstance(t, (ast.Name, ast.Attribute)) and isinstance(stmt.value, (ast.Call, ast.Name, ast.Attribute, ast.BinOp)):
                pv = None
                if not (isinstance(stmt.value, ast.Call) and not (isinstance(stmt.value.func, ast.Name) and stmt.value.func.id == "Point")):
                    pv = self.point_value(stmt.value)
                if pv is not None:
                    if isinstance(t, ast.Name):
                        self.env[t.id] = list(pv)
                    else:
                        self.atom_map[".".join(attr_chain(t))] = list(pv)
                    return True
            if isinstance(t, ast.Name):
                if isinstance(stmt.value, (ast.Tuple, ast.List)):
                    self.env[t.id] = [self.ev(e) for e in stmt.value.elts]
                else:
                    self.env[t.id] = self.ev(stmt.value)
                return True
            if isinstance(t, ast.Tuple) and isinstance(stmt.value, ast.Tuple) and len(t.elts) == len(stmt.value.elts) \
                    and all(isinstance(tt, ast.Name) or (isinstance(tt, ast.Attribute) and attr_chain(tt)) for tt in t.elts):
                vals = [self.ev(v) for v in stmt.value.elts]
                for tt, v in zip(t.elts, vals):
                    if isinstance(tt, ast.Name):
                        self.env[tt.id] = v
                    else:
                        self.env_attr(".".join(attr_chain(tt)), v)
                return True
            if isinstance(t, ast.Attribute):
                ch = attr_chain(t)
                if ch:
                    self.env_attr(".".join(ch), self.ev(stmt.value))
                    return True
            if isinstance(t, ast.Tuple) and all(isinstance(e, ast.Name) for e in t.elts) and isinstance(stmt.value, (ast.Name, ast.Attribute)) \
                    and self.ev_tuple(stmt.value) is None and self.point_value(stmt.value) is None and attr_chain(stmt.value):
                # unpacking a sequence-valued name: a, b = p  binds a = p[0], b = p[1]
                base = ".".join(attr_chain(stmt.value))
                for i, tt in enumerate(t.elts):
                    self.env[tt.id] = self.ev(ast.Subscript(value=stmt.value, slice=ast.Constant(value=i), ctx=ast.Load()))
                return True
            if isinstance(t, ast.Tuple) and all(isinstance(e, (ast.Name, ast.Attribute)) for e in t.elts):
                vals = self.ev_tuple(stmt.value)
                if vals is not None and len(vals) == len(t.elts):
                    for tt, v in zip(t.elts, vals):
                        if isinstance(tt, ast.Name):
                            self.env[tt.id] = v
                        else:
                            self.env_attr(".".join(attr_chain(tt)), v)
                    return True
        if isinstance(stmt, ast.AugAssign) and isinstance(stmt.target, ast.Name):
            cur = self.ev(stmt.target)
            val = self.ev(stmt.value)
            op = stmt.op
            if isinstance(op, ast.Add):
                self.env[stmt.target.id] = cur + val
            elif isinstance(op, ast.Sub):
                self.env[stmt.target.id] = cur - val
            elif isinstance(op, ast.Mult):
                self.env[stmt.target.id] = cur * val
            elif isinstance(op, ast.Div):
                self.env[stmt.target.id] = cur / val
            else:
                raise Uninterpreted("augassign")
            return True
        return False

    def point_value(self, node):
        """[x, y] when node denotes a point value known to this evaluation, else None."""
        if isinstance(node, ast.Name) and isinstance(self.env.get(node.id), list) and len(self.env[node.id]) == 2:
            return self.env[node.id]
        if isinstance(node, ast.Attribute):
            ch = attr_chain(node)
            if ch:
                v = self.atom_map.get(".".join(ch))
                if isinstance(v, list) and len(v) == 2:
                    return v
        if isinstance(node, ast.Call) and isinstance(node.func, ast.Name) and node.func.id == "Point" and not node.keywords:
            if len(node.args) == 2:
                return [self.ev(node.args[0]), self.ev(node.args[1])]
            if len(node.args) == 1:
                inner = self.point_value(node.args[0])
                if inner is not None:
                    return list(inner)
                if isinstance(node.args[0], ast.Tuple) and len(node.args[0].elts) == 2:
                    return [self.ev(e) for e in node.args[0].elts]
        if isinstance(node, ast.Tuple) and len(node.elts) == 2:
            try:
                return [self.ev(e) for e in node.elts]
            except Uninterpreted:
                return None
        if isinstance(node, ast.BinOp) and isinstance(node.op, (ast.Add, ast.Sub, ast.Mult, ast.Div)):
            # point arithmetic: p + q, p - q, k * p, p * k, p / k
            l = self.point_value(node.left)
            r = self.point_value(node.right)
            try:
                if l is not None and r is not None and isinstance(node.op, (ast.Add, ast.Sub)):
                    return [a + b for a, b in zip(l, r)] if isinstance(node.op, ast.Add) else [a - b for a, b in zip(l, r)]
                if l is not None and r is None and isinstance(node.op, (ast.Mult, ast.Div)):
                    k = self.ev(node.right)
                    return [a * k for a in l] if isinstance(node.op, ast.Mult) else [a / k for a in l]
                if r is not None and l is None and isinstance(node.op, ast.Mult):
                    k = self.ev(node.left)
                    return [k * a for a in r]
            except Uninterpreted:
                return None
        return None

    def ev_tuple(self, node):
        """Tuple-valued expression -> list of RF (or None)."""
        if isinstance(node, (ast.Tuple, ast.List)):
            return [self.ev(e) for e in node.elts]
        if isinstance(node, ast.Name) and isinstance(self.env.get(node.id), list):
            return self.env[node.id]
        if isinstance(node, ast.Call) and self.call_hook is not None:
            r = self.call_hook(self, node)
            if isinstance(r, list):
                return r
        return None

    def env_attr(self, key, val):
        self.atom_map[key] = val


def parse_expr(text):
    return ast.parse(text, mode="eval").body


def ref(text, **kw):
    """Canonical form of a reference formula written in Python expression syntax."""
    return Alg(**kw).ev(parse_expr(text))


def guard_unint(rule, construct, fn):
    """Run fn; an uninterpreted construct is an analysis error (never a silent pass, never a violation)."""
    try:
        return fn()
    except Uninterpreted as e:
        raise AnalysisError(rule, "construct=%s uninterpreted: %s" % (construct, e.what))
