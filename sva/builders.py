"""Summaries of the Path builder callbacks (move, line, horizontal, vertical, quad, smooth_quad, cubic, smooth_cubic, arc).

One operand group of a builder is followed under a finite scenario (relative?, which operand is a segment-completing 'z',
what kind of segment precedes) with segment-sequence extraction (segeval): the result is the list of segment constructor calls
the builder appends, their operands being abstract values:

    ("cur",)              the current point (self.current_point)
    ("op", k)             operand k of the group (points[index + k], or the loop target when the builder iterates directly)
    ("zpoint", accessor)  the subpath start obtained through the named accessor
    ("reflect", field)    the previous segment's <field> reflected across the current point
    [x, y]                Point(x, y) with exact coordinate forms over cur.x, cur.y, op<k>
    ("abs", v)            abs(v)

Shared by C01 (state sources, H/V, smooth degree), C07 (operand-to-field map), C09 (inline close slots, strides).
"""
import ast

from .algebra import RF, Alg, Uninterpreted, atom, const
from .model import AnalysisError, attr_chain, call_name
from .segeval import Seg, SegEval, boolean

SEG_KINDS = ("Move", "Line", "Arc", "Close", "QuadraticBezier", "CubicBezier")


class Scenario:
    def __init__(self, rel=False, z=None, last=None, neg=False, extra=False, nocur=False):
        self.rel, self.z, self.last, self.neg, self.extra, self.nocur = rel, z, last, neg, extra, nocur

    def __repr__(self):
        return "relative=%s z=%s previous=%s%s" % (self.rel, self.z, self.last, " no current point" if self.nocur else "")


class Summary:
    def __init__(self):
        self.segs = []  # Seg records appended in one group
        self.stride = None
        self.exit = None  # 'fall' | 'return' | 'raise'
        self.cur_guard = None  # exception name raised when the current point is missing, or None
        self.cur_deref = []  # (line, text): the current point used as a point on the followed path (scenario nocur: it is None there)
        self.ztests = set()  # operand slots tested against 'z'/'Z'
        self.delegates = []  # (method, unparsed args) self.<builder>(...) calls
        self.loop = None
        self.direct_append = 0


def _z_membership(test):
    """`X in ("z", "Z")` -> X node"""
    if isinstance(test, ast.Compare) and len(test.ops) == 1 and isinstance(test.ops[0], ast.In):
        c = test.comparators[0]
        if isinstance(c, (ast.Tuple, ast.List, ast.Set)) and {getattr(e, "value", None) for e in c.elts} == {"z", "Z"}:
            return test.left
        if isinstance(c, ast.Constant) and c.value in ("zZ", "Zz"):
            return test.left
    if isinstance(test, ast.Compare) and len(test.ops) == 1 and isinstance(test.ops[0], ast.Eq):
        return None
    return None


def group_loop(fn, rule):
    """-> (loop node or None, index name or None, operand tuple name, stride, direct target name or None)"""
    pvar = fn.args.vararg.arg if fn.args.vararg else None
    if pvar is None:
        raise AnalysisError(rule, "%s: no *operands parameter" % fn.name)
    loops = [s for s in fn.body if isinstance(s, ast.For)]
    if not loops:
        return None, None, pvar, None, None
    if len(loops) != 1:
        raise AnalysisError(rule, "%s: more than one top-level loop" % fn.name)
    lp = loops[0]
    it = lp.iter
    if isinstance(it, ast.Name) and it.id == pvar and isinstance(lp.target, ast.Name):
        return lp, None, pvar, 1, lp.target.id
    if isinstance(it, ast.Call) and call_name(it) == "range" and isinstance(lp.target, ast.Name):
        a = it.args

        def is_len(n):
            return isinstance(n, ast.Call) and call_name(n) == "len" and len(n.args) == 1 and isinstance(n.args[0], ast.Name) and n.args[0].id == pvar

        if len(a) == 1 and is_len(a[0]):
            return lp, lp.target.id, pvar, 1, None
        if len(a) == 2 and isinstance(a[0], ast.Constant) and a[0].value == 0 and is_len(a[1]):
            return lp, lp.target.id, pvar, 1, None
        if len(a) == 3 and isinstance(a[0], ast.Constant) and a[0].value == 0 and is_len(a[1]) and isinstance(a[2], ast.Constant) and isinstance(a[2].value, int):
            return lp, lp.target.id, pvar, a[2].value, None
    if isinstance(it, ast.Call) and call_name(it) == "enumerate" and len(it.args) == 1 and isinstance(it.args[0], ast.Name) and it.args[0].id == pvar \
            and isinstance(lp.target, ast.Tuple) and len(lp.target.elts) == 2 and all(isinstance(e, ast.Name) for e in lp.target.elts):
        return lp, lp.target.elts[0].id, pvar, 1, lp.target.elts[1].id
    raise AnalysisError(rule, "%s: operand loop form not recognised: for %s in %s" % (fn.name, ast.unparse(lp.target), ast.unparse(it)[:60]))


def summarise(ctx, rule, bname, sc, zaccessors=("_segment_close_point", "z_point")):
    fn = ctx.fn("Path.%s" % bname, rule)
    lp, idx, pvar, stride, direct = group_loop(fn, rule)
    out = Summary()
    out.stride = stride
    out.loop = lp
    alg = Alg()
    if idx is not None:
        alg.env[idx] = atom("#i")
    cls = ctx.m.cls("Path")

    def opslot(node):
        if isinstance(node, ast.Subscript) and isinstance(node.value, ast.Name) and node.value.id == pvar and not isinstance(node.slice, ast.Slice):
            try:
                d = alg.ev(node.slice) - (atom("#i") if idx is not None else const(0))
            except Uninterpreted:
                return None
            if d.is_const() and d.constval().denominator == 1:
                return int(d.constval())
        return None

    def hook(ev, node):
        ch = attr_chain(node)
        if ch == ["self", "current_point"]:
            return ("cur",)
        k = opslot(node)
        if k is not None:
            return ("op", k)
        if isinstance(node, ast.Name) and node.id in ev.vals:
            return None
        if ch and len(ch) == 2 and ch[0] == "self" and ch[1] in zaccessors:
            return ("zpoint", ch[1])
        if isinstance(node, ast.Call):
            fch = attr_chain(node.func)
            if fch and len(fch) == 2 and fch[0] == "self" and fch[1] in zaccessors and not node.args:
                return ("zpoint", fch[1])
            if isinstance(node.func, ast.Attribute) and node.func.attr == "reflected_across" and len(node.args) == 1:
                recv = node.func.value
                across = ev.point(node.args[0])
                if isinstance(recv, ast.Attribute):
                    base = recv.value
                    bv = ev.vals.get(base.id) if isinstance(base, ast.Name) else (("last",) if _is_last(base) else None)
                    if bv == ("last",) and across == ("cur",):
                        return ("reflect", recv.attr)
                if isinstance(recv, ast.Name) and isinstance(ev.vals.get(recv.id), tuple) and ev.vals[recv.id][0] == "lastfield" and across == ("cur",):
                    return ("reflect", ev.vals[recv.id][1])
                return ("opaque", ast.unparse(node))
            if call_name(node) == "abs" and len(node.args) == 1:
                inner = ev.operand(node.args[0])
                if isinstance(inner, tuple) and inner and inner[0] == "op":
                    return ("abs", inner)
            if call_name(node) == "Point" and len(node.args) == 2:
                try:
                    return [scalar(ev, node.args[0]), scalar(ev, node.args[1])]
                except Uninterpreted:
                    return None
        if ch and len(ch) == 2 and ch[0] == "self" and ch[1] in cls.getters and ch[1] not in ("current_point",) and depth[0] < 2:
            # a property of the path: follow its body under the same scenario
            g = cls.getters[ch[1]]
            depth[0] += 1
            try:
                sub = SegEval(ctx, rule, "Path.%s via %s[%r]" % (bname, ch[1], sc), SEG_KINDS, lambda t: boolean(t, leaf), alg=Alg(), value_hook=hook, on_call=None)
                evs.append(sub)
                r = sub.run([x for x in g.body if not (isinstance(x, ast.Expr) and isinstance(x.value, ast.Constant))])
                evs.pop()
            finally:
                depth[0] -= 1
            if r[0] != "return":
                return ("opaque", ast.unparse(node))
            if r[1] is None or (isinstance(r[1], ast.Constant) and r[1].value is None):
                return ("none",)
            evs.append(sub)
            try:
                v = sub.point(r[1])
            finally:
                evs.pop()
            return v if v is not None else ("none",)
        if _is_last(node):
            return ("last",)
        if isinstance(node, ast.Attribute) and isinstance(node.value, ast.Name) and ev.vals.get(node.value.id) == ("last",):
            return ("lastfield", node.attr)
        if isinstance(node, ast.Subscript) and isinstance(node.value, ast.Name) and ev.vals.get(node.value.id) == ("last",):
            return ("lastfield", ast.unparse(node.slice))
        return None

    def _is_last(node):
        return isinstance(node, ast.Subscript) and attr_chain(node.value) == ["self", "_segments"] and isinstance(node.slice, ast.UnaryOp) \
            and isinstance(node.slice.op, ast.USub) and isinstance(node.slice.operand, ast.Constant) and node.slice.operand.value == 1

    def scalar(ev, node):
        """coordinate expression over cur.x / cur.y / numeric operands"""
        class T(ast.NodeTransformer):
            def visit_Attribute(self_, n):
                if n.attr in ("x", "y", "real", "imag") and isinstance(n.value, ast.Name) and ev.vals.get(n.value.id) == ("cur",):
                    return ast.Name(id="cur_" + ("x" if n.attr in ("x", "real") else "y"), ctx=ast.Load())
                if n.attr in ("x", "y") and attr_chain(n.value) == ["self", "current_point"]:
                    return ast.Name(id="cur_" + n.attr, ctx=ast.Load())
                return self_.generic_visit(n)

            def visit_Subscript(self_, n):
                k = opslot(n)
                if k is not None:
                    return ast.Name(id="op%d" % k, ctx=ast.Load())
                return self_.generic_visit(n)

            def visit_Name(self_, n):
                v = ev.vals.get(n.id)
                if isinstance(v, tuple) and v and v[0] == "op":
                    return ast.Name(id="op%d" % v[1], ctx=ast.Load())
                return n

        from .model import fresh
        return alg.ev(T().visit(fresh(node)))

    def leaf(node):
        ev = evs[-1]
        if isinstance(node, ast.Name) and node.id == "relative":
            return sc.rel
        zn = _z_membership(node)
        if zn is not None:
            v = ev.point(zn) if not isinstance(zn, ast.Name) else ev.vals.get(zn.id)
            if isinstance(v, tuple) and v and v[0] == "op":
                out.ztests.add(v[1])
                return sc.z == v[1]
            if isinstance(v, tuple) and v and v[0] == "zpoint":
                return False
            return None
        if isinstance(node, ast.Compare) and len(node.ops) == 1 and isinstance(node.ops[0], (ast.Is, ast.IsNot)) and isinstance(node.comparators[0], ast.Constant) \
                and node.comparators[0].value is None:
            v = ev.vals.get(node.left.id) if isinstance(node.left, ast.Name) else hook(ev, node.left)
            if isinstance(v, tuple) and v and v[0] == "lastfield":
                # a control point of the previous segment: present in the scenarios that have a previous curve (the parsed-data case;
                # the stored control of a curve built with no current point is the subject of C09)
                return (sc.last is not None) == isinstance(node.ops[0], ast.IsNot)
            if v == ("cur",):
                cur_tests.append(node)
                if sc.nocur:
                    return isinstance(node.ops[0], ast.Is)
                return isinstance(node.ops[0], ast.IsNot)  # a current point exists in the scenario
            if v == ("last",):
                return (sc.last is None) == isinstance(node.ops[0], ast.Is)
            if v == ("none",):
                return isinstance(node.ops[0], ast.Is)
            return None
        if isinstance(node, ast.Call) and call_name(node) == "isinstance" and len(node.args) == 2:
            v = ev.vals.get(node.args[0].id) if isinstance(node.args[0], ast.Name) else hook(ev, node.args[0])
            if v == ("last",) or v == ("none",):
                names = [e.id for e in (node.args[1].elts if isinstance(node.args[1], ast.Tuple) else [node.args[1]]) if isinstance(e, ast.Name)]
                isinstance_tests.append(names)
                return v == ("last",) and sc.last is not None and any(n in ctx.m.mro(sc.last) for n in names)
            return None
        if isinstance(node, ast.Compare) and len(node.ops) == 1 and isinstance(node.ops[0], (ast.Lt, ast.Gt, ast.LtE, ast.GtE)):
            # sign tests on numeric operands (arc radii)
            return sc.neg
        if isinstance(node, ast.Compare) and len(node.ops) == 1 and isinstance(node.ops[0], (ast.NotEq, ast.Eq, ast.Gt)) \
                and isinstance(node.left, ast.Call) and call_name(node.left) == "len":
            arg = node.left.args[0] if node.left.args else None
            if attr_chain(arg) == ["self", "_segments"]:
                nonempty = sc.last is not None
                return nonempty if isinstance(node.ops[0], (ast.NotEq, ast.Gt)) else not nonempty
            if isinstance(arg, ast.Name) and arg.id == pvar:
                return sc.extra if isinstance(node.ops[0], (ast.Gt, ast.NotEq)) else not sc.extra
        if isinstance(node, ast.Call) and call_name(node) == "len" and attr_chain(node.args[0] if node.args else None) == ["self", "_segments"]:
            return sc.last is not None
        if attr_chain(node) == ["self", "_segments"]:
            return sc.last is not None
        return None

    cur_tests = []
    isinstance_tests = []
    depth = [0]
    evs = []

    def on_call(ev, c):
        ch = attr_chain(c.func)
        if ch == ["self", "append"] and len(c.args) == 1:
            a = c.args[0]
            if isinstance(a, ast.Call) and call_name(a) in SEG_KINDS:
                out.segs.append(ev.seg(a))
                return True
            if isinstance(a, ast.Name) and isinstance(ev.vals.get(a.id), Seg):
                out.segs.append(ev.vals[a.id])
                return True
            raise AnalysisError(rule, "Path.%s: appended value not interpreted: %s" % (bname, ast.unparse(a)[:60]))
        if ch and len(ch) == 2 and ch[0] == "self" and ch[1] in ("move", "line", "quad", "cubic", "smooth_quad", "smooth_cubic", "arc", "horizontal", "vertical", "closed"):
            out.delegates.append((ch[1], [ast.unparse(a) for a in c.args], {k.arg: ast.unparse(k.value) for k in c.keywords}))
            return True
        return False

    ev = SegEval(ctx, rule, "Path.%s[%r]" % (bname, sc), SEG_KINDS, lambda t: boolean(t, leaf), alg=alg, value_hook=hook, on_call=on_call)
    evs.append(ev)

    def is_cur(n):
        return (isinstance(n, ast.Name) and ev.vals.get(n.id) == ("cur",)) or attr_chain(n) == ["self", "current_point"]

    def on_stmt(ev_, st):
        # the current point used as a point (attribute, arithmetic, subscript) in what this statement evaluates itself
        parts = [st.test] if isinstance(st, ast.If) else [st.iter] if isinstance(st, ast.For) else [st]
        def reached(n):
            # sub-expressions this statement evaluates on the followed path (the untaken arm of a conditional expression is not)
            yield n
            if isinstance(n, ast.IfExp):
                d = boolean(n.test, leaf)
                kids = [n.test] + ([n.body, n.orelse] if d is None else [n.body if d else n.orelse])
            elif isinstance(n, ast.BoolOp):
                kids = []
                for v in n.values:
                    kids.append(v)
                    d = boolean(v, leaf)
                    if d is not None and d == isinstance(n.op, ast.Or):
                        break
            else:
                kids = list(ast.iter_child_nodes(n))
            for k in kids:
                for x in reached(k):
                    yield x

        for part in parts:
            for n in reached(part):
                if isinstance(n, ast.Attribute) and is_cur(n.value):
                    out.cur_deref.append((n.lineno, ast.unparse(n)))
                elif isinstance(n, ast.BinOp) and (is_cur(n.left) or is_cur(n.right)):
                    out.cur_deref.append((n.lineno, ast.unparse(n)[:60]))
                elif isinstance(n, ast.Subscript) and is_cur(n.value):
                    out.cur_deref.append((n.lineno, ast.unparse(n)))
                elif isinstance(n, ast.AugAssign) and is_cur(n.value):
                    out.cur_deref.append((n.lineno, ast.unparse(n)[:60]))

    if sc.nocur:
        ev.on_stmt = on_stmt
    if direct is not None:
        ev.vals[direct] = ("op", 0)
    body, post = [], []
    seen_loop = False
    for s in fn.body:
        if s is lp:
            body.extend(lp.body)
            seen_loop = True
        elif seen_loop:
            post.append(s)
        else:
            body.append(s)
    # raise on a missing current point: find the exception by running the scenario "no current point" is not needed: read it off the guard
    res = ev.run(body)
    if res[0] in ("continue", "break", "fall"):
        # `continue` / `break` in the operand-group loop: this group is done; what follows the loop still runs
        res = ev.run(post) if post else ("fall", None)
        if res[0] in ("continue", "break"):
            res = ("fall", None)
    out.exit = res[0]
    out.exit_node = res[1]
    for t in cur_tests:
        p = getattr(t, "_parent", None)
        while p is not None and not isinstance(p, ast.If):
            p = getattr(p, "_parent", None)
        if p is not None:
            null_body = p.body if isinstance(t.ops[0], ast.Is) else p.orelse
            for st in null_body:
                if isinstance(st, ast.Raise):
                    e = st.exc.func if isinstance(st.exc, ast.Call) else st.exc
                    out.cur_guard = e.id if isinstance(e, ast.Name) else ast.unparse(st.exc) if st.exc is not None else "re-raise"
    out.isinstance_tests = isinstance_tests
    return out
