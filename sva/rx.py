"""Regular-language facts from pattern strings (never from running the module's regexes on data).

re._parser gives the syntax tree of a pattern; for the subset used by the tokenizers (literals, classes,
categories, repeats, alternation, groups, anchors) a Thompson NFA and a lazily determinised DFA over a small
representative alphabet give minimum width, first-character sets, language inclusion and equivalence.
"""
import re

try:
    import re._parser as sre_parse
    import re._constants as sre_c
except ImportError:  # python < 3.11
    import sre_parse
    import sre_constants as sre_c

from .model import AnalysisError

# representative alphabet: all of ASCII plus one non-ASCII letter, unicode space, unicode digit, symbol
ALPHABET = [chr(i) for i in range(128)] + ["é", " ", "٠", "☃"]


class Unsupported(Exception):
    pass


def parse(pattern, flags=0):
    return sre_parse.parse(pattern, flags)


def _cat(ch, cat, uni=True):
    name = str(cat)
    neg = "NOT" in name
    if "DIGIT" in name:
        r = ch.isdigit() if uni else ch in "0123456789"
    elif "SPACE" in name:
        r = ch.isspace() if uni else ch in " \t\n\r\f\v"
    elif "WORD" in name:
        r = (ch.isalnum() or ch == "_") if uni else (ch.isascii() and (ch.isalnum() or ch == "_"))
    else:
        raise Unsupported("category %s" % name)
    return (not r) if neg else r


def set_matches(items, ch, ignorecase=False):
    neg = False
    res = False
    cands = {ch}
    if ignorecase:
        cands |= {ch.lower(), ch.upper()}
    for op, av in items:
        if op is sre_c.NEGATE:
            neg = True
        elif op is sre_c.LITERAL:
            if any(ord(c) == av for c in cands):
                res = True
        elif op is sre_c.RANGE:
            if any(av[0] <= ord(c) <= av[1] for c in cands):
                res = True
        elif op is sre_c.CATEGORY:
            if _cat(ch, av):
                res = True
        else:
            raise Unsupported("set item %s" % op)
    return (not res) if neg else res


class NFA:
    def __init__(self):
        self.eps = {}
        self.trans = {}  # state -> list of (pred, target)
        self.n = 0

    def new(self):
        self.n += 1
        return self.n - 1

    def e(self, a, b):
        self.eps.setdefault(a, set()).add(b)

    def t(self, a, pred, b):
        self.trans.setdefault(a, []).append((pred, b))


def build(tree, nfa, start, ignorecase=False, lookahead="error", dotall=False):
    """Return end state after matching `tree` from `start`."""
    cur = start
    for op, av in tree:
        if op is sre_c.LITERAL:
            nxt = nfa.new()
            if ignorecase:
                cs = {chr(av).lower(), chr(av).upper()}
                nfa.t(cur, (lambda c, cs=cs: c in cs), nxt)
            else:
                nfa.t(cur, (lambda c, av=av: ord(c) == av), nxt)
            cur = nxt
        elif op is sre_c.NOT_LITERAL:
            nxt = nfa.new()
            nfa.t(cur, (lambda c, av=av: ord(c) != av), nxt)
            cur = nxt
        elif op is sre_c.ANY:
            nxt = nfa.new()
            nfa.t(cur, ((lambda c: True) if dotall else (lambda c: c != "\n")), nxt)
            cur = nxt
        elif op is sre_c.IN:
            nxt = nfa.new()
            nfa.t(cur, (lambda c, av=av: set_matches(av, c, ignorecase)), nxt)
            cur = nxt
        elif op is sre_c.BRANCH:
            end = nfa.new()
            for alt in av[1]:
                s = nfa.new()
                nfa.e(cur, s)
                e = build(alt, nfa, s, ignorecase, lookahead, dotall)
                nfa.e(e, end)
            cur = end
        elif op is sre_c.SUBPATTERN:
            cur = build(av[3], nfa, cur, ignorecase, lookahead, dotall)
        elif op in (sre_c.MAX_REPEAT, sre_c.MIN_REPEAT) or str(op) == "POSSESSIVE_REPEAT":
            lo, hi, sub = av
            for _ in range(lo):
                cur = build(sub, nfa, cur, ignorecase, lookahead, dotall)
            if hi is sre_c.MAXREPEAT:
                loop = nfa.new()
                nfa.e(cur, loop)
                e = build(sub, nfa, loop, ignorecase, lookahead, dotall)
                nfa.e(e, loop)
                cur = loop
            else:
                end = nfa.new()
                nfa.e(cur, end)
                for _ in range(hi - lo):
                    cur = build(sub, nfa, cur, ignorecase, lookahead, dotall)
                    nfa.e(cur, end)
                cur = end
        elif op is sre_c.AT:
            # anchors: whole-string languages are compared, so ^ and $ are neutral at the ends
            continue
        elif op is sre_c.ASSERT or op is sre_c.ASSERT_NOT:
            if lookahead == "skip":
                continue
            raise Unsupported("lookaround")
        else:
            raise Unsupported(str(op))
    return cur


class Lang:
    """Language of full matches of a pattern (as if anchored at both ends)."""

    def __init__(self, pattern=None, tree=None, flags=0, lookahead="error"):
        if tree is None:
            tree = parse(pattern, flags)
        self.tree = tree
        fl = getattr(tree, "state", None)
        fl = fl.flags if fl is not None else flags
        self.ignorecase = bool(fl & re.IGNORECASE)
        self.dotall = bool(fl & re.DOTALL)
        self.nfa = NFA()
        self.start = self.nfa.new()
        self.end = build(tree, self.nfa, self.start, self.ignorecase, lookahead, self.dotall)
        self._closure_cache = {}

    def closure(self, states):
        key = frozenset(states)
        if key in self._closure_cache:
            return self._closure_cache[key]
        out = set(states)
        stack = list(states)
        while stack:
            s = stack.pop()
            for t in self.nfa.eps.get(s, ()):
                if t not in out:
                    out.add(t)
                    stack.append(t)
        r = frozenset(out)
        self._closure_cache[key] = r
        return r

    def initial(self):
        return self.closure({self.start})

    def step(self, S, ch):
        nxt = set()
        for s in S:
            for pred, t in self.nfa.trans.get(s, ()):
                if pred(ch):
                    nxt.add(t)
        return self.closure(nxt)

    def accepting(self, S):
        return self.end in S

    def accepts(self, text):
        S = self.initial()
        for ch in text:
            S = self.step(S, ch)
            if not S:
                return False
        return self.accepting(S)

    def nullable(self):
        return self.accepting(self.initial())

    def first_chars(self):
        S = self.initial()
        return {ch for ch in ALPHABET if self.step(S, ch)}

    def min_width(self):
        return self.tree.getwidth()[0]


def included(a, b, alphabet=None):
    """L(a) subset of L(b)?  Returns (True, None) or (False, witness string)."""
    alphabet = alphabet or ALPHABET
    start = (a.initial(), b.initial())
    seen = {start: ""}
    queue = [start]
    while queue:
        sa, sb = queue.pop(0)
        w = seen[(sa, sb)]
        if a.accepting(sa) and not b.accepting(sb):
            return False, w
        for ch in alphabet:
            na = a.step(sa, ch)
            if not na:
                continue
            nb = b.step(sb, ch)
            key = (na, nb)
            if key not in seen:
                seen[key] = w + ch
                queue.append(key)
        if len(seen) > 20000:
            raise AnalysisError("rx", "state explosion in inclusion check")
    return True, None


def equivalent(a, b):
    ok, w = included(a, b)
    if not ok:
        return False, w
    ok, w = included(b, a)
    return ok, w


def groups(tree):
    """index -> subtree for every capturing group of the pattern tree."""
    out = {}

    def rec(t):
        for op, av in t:
            if op is sre_c.SUBPATTERN:
                if av[0] is not None:
                    out[av[0]] = av[3]
                rec(av[3])
            elif op is sre_c.BRANCH:
                for alt in av[1]:
                    rec(alt)
            elif op in (sre_c.MAX_REPEAT, sre_c.MIN_REPEAT):
                rec(av[2])
            elif op in (sre_c.ASSERT, sre_c.ASSERT_NOT):
                rec(av[1])

    rec(tree)
    return out


def sublang(subtree, flags=0):
    return Lang(tree=subtree, flags=flags)
