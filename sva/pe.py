"""Partial evaluation of straight-line table code under a finite scenario.

A scenario fixes the values the code dispatches on (strings such as a preserveAspectRatio value, None-ness of parameters, the
truth of numeric identity tests); everything numeric stays symbolic (algebra.RF over opaque atoms).  The statement list is
followed with Python's own semantics for the constant part (string methods, list indexing incl. IndexError into a handler,
boolean operators, membership) and value numbering for the symbolic part.  A test that mixes in symbolic quantities is
answered by the caller's oracle; if nobody can answer, the construct is reported as undecided (AnalysisError) - the evaluator
never guesses.  Nothing of the analysed program is executed: only literals and the scenario's own constants are combined.
"""
import ast

from .algebra import RF, Alg, Uninterpreted, const
from .model import AnalysisError, NotConst, attr_chain


class K:
    """a known Python constant (str, int, float, bool, None, list/tuple of constants)"""
    __slots__ = ("v",)

    def __init__(self, v):
        self.v = v

    def __repr__(self):
        return "K(%r)" % (self.v,)


class Obj:
    """an opaque non-None object of the scenario; its attributes are atoms `<name>.<attr>`"""

    def __init__(self, name):
        self.name = name

    def __repr__(self):
        return "Obj(%s)" % self.name


class Raised(Exception):
    def __init__(self, name, node):
        self.name, self.node = name, node


class Result:
    def __init__(self, kind, value, node, env):
        self.kind, self.value, self.node, self.env = kind, value, node, env


STR_METHODS = {"split", "lower", "upper", "strip", "lstrip", "rstrip", "startswith", "endswith", "replace"}


class PE:
    def __init__(self, model, rule, construct, oracle=None, call_hook=None, on_expr=None):
        self.m, self.rule, self.construct = model, rule, construct
        self.oracle = oracle  # oracle(pe, test_node) -> bool | None
        self.call_hook = call_hook  # call_hook(pe, call_node) -> value | None
        self.on_expr = on_expr  # on_expr(pe, stmt): expression statements met on the path (calls made for their effect)
        self.env = {}
        self.attrs = {}  # "self.stroke" -> K(None) / RF: attribute values fixed by the scenario
        self.alg = Alg()

    # ------------------------------------------------------------------ values
    def err(self, what, node=None):
        raise AnalysisError(self.rule, "%s: %s%s" % (self.construct, what, " line %d" % node.lineno if node is not None and hasattr(node, "lineno") else ""))

    def bind(self, name, value):
        self.env[name] = value
        if isinstance(value, RF):
            self.alg.env[name] = value
        else:
            self.alg.env.pop(name, None)

    def ev(self, node):
        """-> K | RF ; raises Raised for a Python exception decided by constants; AnalysisError when undecided"""
        if isinstance(node, ast.Attribute):
            ch0 = attr_chain(node)
            if ch0 and isinstance(self.env.get(ch0[0]), K) and isinstance(self.env[ch0[0]].v, Obj):
                from .algebra import atom as _atom
                return _atom(".".join([self.env[ch0[0]].v.name] + ch0[1:]))
        if isinstance(node, ast.Attribute) and self.attrs:
            ch = attr_chain(node)
            if ch and ".".join(ch) in self.attrs:
                return self.attrs[".".join(ch)]
            if ch and len(ch) > 2 and ".".join(ch[:-1]) in self.attrs and isinstance(self.attrs[".".join(ch[:-1])], K) and self.attrs[".".join(ch[:-1])].v is None:
                raise Raised("AttributeError", node)
        if isinstance(node, ast.Constant):
            if isinstance(node.value, (int, float)) and not isinstance(node.value, bool):
                return self.alg.ev(node)
            return K(node.value)
        if isinstance(node, ast.Name):
            if node.id in self.env:
                return self.env[node.id]
            try:
                v = self.m.const(node)
                if isinstance(v, (str, tuple, list, bool)) or v is None:
                    return K(v)
            except NotConst:
                pass
            return self.alg.ev(node)
        if isinstance(node, (ast.Tuple, ast.List)):
            vals = [self.ev(e) for e in node.elts]
            return K([v.v if isinstance(v, K) else v for v in vals])
        if isinstance(node, ast.Subscript):
            base = self.ev(node.value)
            if isinstance(base, K) and isinstance(base.v, dict):
                key = self.ev(node.slice)
                if isinstance(key, K) and isinstance(key.v, str):
                    if key.v not in base.v:
                        raise Raised("KeyError", node)
                    item = base.v[key.v]
                    return item if isinstance(item, (RF, K)) else K(item)
                self.err("dictionary key not constant: %s" % ast.unparse(node)[:60], node)
            if isinstance(base, K) and isinstance(base.v, (list, tuple, str)):
                idx = self.ev(node.slice) if not isinstance(node.slice, ast.Slice) else None
                if isinstance(idx, RF) and idx.is_const() and idx.constval().denominator == 1:
                    i = int(idx.constval())
                    try:
                        v = base.v[i]
                    except IndexError:
                        raise Raised("IndexError", node)
                    return v if isinstance(v, RF) else K(v)
                if isinstance(node.slice, ast.Slice):
                    lo = self.ev(node.slice.lower) if node.slice.lower is not None else None
                    hi = self.ev(node.slice.upper) if node.slice.upper is not None else None
                    f = lambda x: None if x is None else int(x.constval())
                    return K(base.v[f(lo):f(hi)])
            return self.num(node)
        if isinstance(node, ast.BoolOp):
            last = None
            for v in node.values:
                last = self.truth(v)
                if isinstance(node.op, ast.And) and not last:
                    return K(False)
                if isinstance(node.op, ast.Or) and last:
                    return K(True)
            return K(bool(last))
        if isinstance(node, ast.UnaryOp) and isinstance(node.op, ast.Not):
            return K(not self.truth(node.operand))
        if isinstance(node, ast.Compare):
            return K(self.truth(node))
        if isinstance(node, ast.IfExp):
            return self.ev(node.body if self.truth(node.test) else node.orelse)
        if isinstance(node, ast.JoinedStr):
            out = ""
            for v in node.values:
                if isinstance(v, ast.Constant):
                    out += str(v.value)
                elif isinstance(v, ast.FormattedValue) and v.format_spec is None and v.conversion == -1:
                    x = self.ev(v.value)
                    if not (isinstance(x, K) and isinstance(x.v, str)):
                        self.err("f-string part not constant: %s" % ast.unparse(v.value)[:40], node)
                    out += x.v
                else:
                    self.err("f-string with a format specification", node)
            return K(out)
        if isinstance(node, ast.BinOp) and isinstance(node.op, (ast.Mod, ast.FloorDiv)):
            ln, rn = self.ev(node.left), self.ev(node.right)
            if isinstance(ln, RF) and isinstance(rn, RF) and ln.is_const() and rn.is_const() and rn.constval() != 0:
                return const(ln.constval() % rn.constval()) if isinstance(node.op, ast.Mod) else const(ln.constval() // rn.constval())
        if isinstance(node, ast.BinOp) and isinstance(node.op, ast.Mod):
            l = self.ev(node.left)
            if isinstance(l, K) and isinstance(l.v, str):
                r = self.ev(node.right)
                if isinstance(r, K) and (isinstance(r.v, str) or (isinstance(r.v, (list, tuple)) and all(isinstance(x, str) for x in r.v))):
                    try:
                        return K(l.v % (tuple(r.v) if isinstance(r.v, (list, tuple)) else r.v))
                    except (TypeError, ValueError):
                        self.err("string formatting not decided: %s" % ast.unparse(node)[:60], node)
        if isinstance(node, ast.BinOp) and isinstance(node.op, ast.Mult):
            l, r = self.ev(node.left), self.ev(node.right)
            for a, b in ((l, r), (r, l)):
                if isinstance(a, K) and isinstance(a.v, (str, list)) and isinstance(b, RF) and b.is_const() and b.constval().denominator == 1:
                    return K(a.v * int(b.constval()))
        if isinstance(node, ast.BinOp) and isinstance(node.op, (ast.Add, ast.Sub, ast.Mult, ast.Div)):
            l, r = self.ev(node.left), self.ev(node.right)
            if isinstance(l, RF) and isinstance(r, RF):
                op = node.op
                return l + r if isinstance(op, ast.Add) else l - r if isinstance(op, ast.Sub) else l * r if isinstance(op, ast.Mult) else l / r
            if isinstance(l, K) and isinstance(r, K) and isinstance(node.op, ast.Add) and type(l.v) is type(r.v) and isinstance(l.v, (str, list, tuple)):
                return K(l.v + r.v)
            return self.num(node)
        if isinstance(node, ast.UnaryOp) and isinstance(node.op, ast.USub):
            v = self.ev(node.operand)
            if isinstance(v, RF):
                return -v
            return self.num(node)
        if isinstance(node, ast.Call):
            if self.call_hook is not None:
                r = self.call_hook(self, node)
                if r is not None:
                    return r
            f = node.func
            if isinstance(f, ast.Attribute) and f.attr == "get" and 1 <= len(node.args) <= 2:
                recv = self.ev(f.value)
                if isinstance(recv, K) and isinstance(recv.v, dict):
                    key = self.ev(node.args[0])
                    if isinstance(key, K) and isinstance(key.v, str):
                        if key.v in recv.v:
                            item = recv.v[key.v]
                            return item if isinstance(item, (RF, K)) else K(item)
                        return self.ev(node.args[1]) if len(node.args) == 2 else K(None)
            if isinstance(f, ast.Attribute) and f.attr == "format" and not node.keywords:
                recv = self.ev(f.value)
                args = [self.ev(a) for a in node.args]
                if isinstance(recv, K) and isinstance(recv.v, str) and all(isinstance(a, K) and isinstance(a.v, str) for a in args):
                    return K(recv.v.format(*[a.v for a in args]))
            if isinstance(f, ast.Attribute) and f.attr == "join" and len(node.args) == 1:
                recv = self.ev(f.value)
                g = node.args[0]
                if isinstance(recv, K) and isinstance(recv.v, str):
                    items = None
                    if isinstance(g, (ast.GeneratorExp, ast.ListComp)) and len(g.generators) == 1 and not g.generators[0].ifs and isinstance(g.generators[0].target, ast.Name):
                        it = self.ev(g.generators[0].iter)
                        if isinstance(it, K) and isinstance(it.v, (str, list, tuple)):
                            items = []
                            tname = g.generators[0].target.id
                            saved = self.env.get(tname, self)
                            for item in it.v:
                                self.bind(tname, item if isinstance(item, RF) else K(item))
                                items.append(self.ev(g.elt))
                            if saved is self:
                                self.env.pop(tname, None)
                                self.alg.env.pop(tname, None)
                            else:
                                self.bind(tname, saved)
                    else:
                        v = self.ev(g)
                        if isinstance(v, K) and isinstance(v.v, (list, tuple)):
                            items = [K(x) for x in v.v]
                    if items is not None and all(isinstance(x, K) and isinstance(x.v, str) for x in items):
                        return K(recv.v.join(x.v for x in items))
            if isinstance(f, ast.Attribute) and f.attr in STR_METHODS:
                recv = self.ev(f.value)
                if isinstance(recv, K) and isinstance(recv.v, str):
                    args = [self.ev(a) for a in node.args]
                    if all(isinstance(a, K) for a in args):
                        return K(getattr(recv.v, f.attr)(*[a.v for a in args]))
            if isinstance(f, ast.Name) and f.id in ("any", "all") and len(node.args) == 1 and isinstance(node.args[0], (ast.GeneratorExp, ast.ListComp)):
                g = node.args[0]
                if len(g.generators) == 1 and not g.generators[0].ifs and isinstance(g.generators[0].target, ast.Name):
                    it = self.ev(g.generators[0].iter)
                    if isinstance(it, K) and isinstance(it.v, (list, tuple)):
                        res = []
                        saved = self.env.get(g.generators[0].target.id, self)
                        for item in it.v:
                            self.bind(g.generators[0].target.id, item if isinstance(item, RF) else K(item))
                            res.append(self.truth(g.elt))
                        if saved is self:
                            self.env.pop(g.generators[0].target.id, None)
                            self.alg.env.pop(g.generators[0].target.id, None)
                        else:
                            self.bind(g.generators[0].target.id, saved)
                        return K(any(res) if f.id == "any" else all(res))
            if isinstance(f, ast.Name) and f.id == "len" and len(node.args) == 1:
                a = self.ev(node.args[0])
                if isinstance(a, K) and isinstance(a.v, (list, tuple, str)):
                    return const(len(a.v))
            if isinstance(f, ast.Name) and f.id in ("str", "list", "tuple") and len(node.args) == 1:
                a = self.ev(node.args[0])
                if isinstance(a, K):
                    return K({"str": str, "list": list, "tuple": tuple}[f.id](a.v))
            if isinstance(f, ast.Name) and f.id == "isinstance" and len(node.args) == 2:
                a = self.ev(node.args[0])
                names = [e.id for e in (node.args[1].elts if isinstance(node.args[1], ast.Tuple) else [node.args[1]]) if isinstance(e, ast.Name)]
                if isinstance(a, RF):
                    return K(any(n in ("int", "float") for n in names))
                if isinstance(a, K):
                    return K(type(a.v).__name__ in names)
            return self.num(node)
        return self.num(node)

    def num(self, node):
        # symbolic arithmetic; K operands make the expression uninterpretable
        for n in ast.walk(node):
            if isinstance(n, ast.Name) and isinstance(self.env.get(n.id), K) and not isinstance(self.env[n.id].v, (int, float)):
                self.err("expression mixes a constant of type %s into arithmetic: %s" % (type(self.env[n.id].v).__name__, ast.unparse(node)[:60]), node)
        try:
            return self.alg.ev(node)
        except Uninterpreted as e:
            self.err("expression not interpreted: %s (%s)" % (ast.unparse(node)[:60], e), node)

    def truth(self, node):
        if isinstance(node, ast.BoolOp):
            if isinstance(node.op, ast.And):
                for v in node.values:
                    if not self.truth(v):
                        return False
                return True
            for v in node.values:
                if self.truth(v):
                    return True
            return False
        if isinstance(node, ast.UnaryOp) and isinstance(node.op, ast.Not):
            return not self.truth(node.operand)
        if isinstance(node, ast.Compare) and len(node.ops) > 1:
            # a < b < c : pairwise, when every operand is a known number
            vals = [self.ev(x) for x in [node.left] + node.comparators]
            if all(isinstance(v, RF) and v.is_const() for v in vals):
                nums = [v.constval() for v in vals]
                table = {ast.Eq: lambda a, b: a == b, ast.NotEq: lambda a, b: a != b, ast.Lt: lambda a, b: a < b, ast.LtE: lambda a, b: a <= b, ast.Gt: lambda a, b: a > b, ast.GtE: lambda a, b: a >= b}
                if all(type(o) in table for o in node.ops):
                    return all(table[type(o)](a, b) for o, a, b in zip(node.ops, nums, nums[1:]))
        if isinstance(node, ast.Compare) and len(node.ops) == 1:
            op = node.ops[0]
            l, r = self.ev(node.left), self.ev(node.comparators[0])
            if isinstance(op, (ast.Is, ast.IsNot)):
                if isinstance(r, K) and r.v is None:
                    isn = isinstance(l, K) and l.v is None
                    return isn if isinstance(op, ast.Is) else not isn
            if isinstance(l, RF) and isinstance(r, RF) and l.is_const() and r.is_const():
                a, b = l.constval(), r.constval()
                table = {ast.Eq: a == b, ast.NotEq: a != b, ast.Lt: a < b, ast.LtE: a <= b, ast.Gt: a > b, ast.GtE: a >= b}
                if type(op) in table:
                    return table[type(op)]
            if isinstance(l, K) and isinstance(r, K):
                try:
                    if isinstance(op, ast.Eq):
                        return l.v == r.v
                    if isinstance(op, ast.NotEq):
                        return l.v != r.v
                    if isinstance(op, ast.In):
                        return l.v in r.v
                    if isinstance(op, ast.NotIn):
                        return l.v not in r.v
                except TypeError:
                    pass
            if self.oracle is not None:
                v = self.oracle(self, node)
                if v is not None:
                    return v
            self.err("undecided test `%s`" % ast.unparse(node)[:70], node)
        v = None
        if isinstance(node, (ast.Name, ast.Call, ast.Attribute, ast.Subscript, ast.Constant, ast.IfExp)):
            try:
                val = self.ev(node)
            except AnalysisError:
                val = None
            if isinstance(val, K):
                return bool(val.v)
        if self.oracle is not None:
            v = self.oracle(self, node)
            if v is not None:
                return v
        self.err("undecided test `%s`" % ast.unparse(node)[:70], node)

    # -------------------------------------------------------------- statements
    def run(self, stmts):
        for s in stmts:
            if isinstance(s, ast.Expr) and isinstance(s.value, ast.Constant):
                continue
            if isinstance(s, ast.If):
                r = self.run(s.body if self.truth(s.test) else s.orelse)
                if r is not None:
                    return r
                continue
            if isinstance(s, ast.Return):
                return Result("return", s.value, s, self.env)
            if isinstance(s, ast.Raise):
                e = s.exc.func if isinstance(s.exc, ast.Call) else s.exc
                raise Raised(e.id if isinstance(e, ast.Name) else "?", s)
            if isinstance(s, ast.Assign):
                v = self.ev(s.value)
                for t in s.targets:
                    self.store(t, v, s)
                continue
            if isinstance(s, ast.AugAssign) and isinstance(s.target, ast.Name):
                cur = self.ev(s.target)
                val = self.ev(s.value)
                if isinstance(cur, RF) and isinstance(val, RF):
                    op = s.op
                    new = cur + val if isinstance(op, ast.Add) else cur - val if isinstance(op, ast.Sub) else cur * val if isinstance(op, ast.Mult) else cur / val if isinstance(op, ast.Div) else None
                    if new is None:
                        self.err("augmented operator not interpreted", s)
                    self.bind(s.target.id, new)
                    continue
                if isinstance(cur, K) and isinstance(val, K) and isinstance(s.op, ast.Add):
                    self.bind(s.target.id, K(cur.v + val.v))
                    continue
                self.err("augmented assignment not interpreted: %s" % ast.unparse(s)[:60], s)
            if isinstance(s, ast.Try):
                try:
                    r = self.run(s.body)
                except Raised as ex:
                    handled = None
                    for h in s.handlers:
                        names = []
                        if h.type is None:
                            names = [ex.name]
                        else:
                            names = [e.id for e in (h.type.elts if isinstance(h.type, ast.Tuple) else [h.type]) if isinstance(e, ast.Name)]
                        if ex.name in names or "Exception" in names:
                            handled = h
                            break
                    if handled is None:
                        raise
                    r = self.run(handled.body)
                if r is not None:
                    return r
                continue
            if isinstance(s, ast.Pass):
                continue
            if isinstance(s, (ast.Continue, ast.Break)):
                return Result("continue" if isinstance(s, ast.Continue) else "break", None, s, self.env)
            if isinstance(s, ast.For) and not s.orelse:
                it = self.ev(s.iter)
                if not (isinstance(it, K) and isinstance(it.v, (list, tuple))):
                    self.err("loop over a value the scenario does not fix: %s" % ast.unparse(s.iter)[:60], s)
                stop = None
                for item in list(it.v):
                    self.store(s.target, item if isinstance(item, (RF, K)) else K(item), s)
                    r = self.run(s.body)
                    if r is None or r.kind == "continue":
                        continue
                    if r.kind == "break":
                        break
                    stop = r
                    break
                if stop is not None:
                    return stop
                continue
            if isinstance(s, ast.Expr):
                if self.on_expr is not None:
                    self.on_expr(self, s)
                continue
            self.err("statement kind %s not handled" % type(s).__name__, s)
        return None

    def store(self, t, v, s):
        if isinstance(t, ast.Name):
            self.bind(t.id, v)
            return
        if isinstance(t, ast.Subscript):
            base = self.ev(t.value)
            key = self.ev(t.slice)
            if isinstance(base, K) and isinstance(base.v, dict) and isinstance(key, K) and isinstance(key.v, str):
                base.v[key.v] = v
                return
        if isinstance(t, ast.Attribute):
            ch = attr_chain(t)
            if ch:
                self.attrs[".".join(ch)] = v
                return
        if isinstance(t, (ast.Tuple, ast.List)) and isinstance(v, K) and isinstance(v.v, (list, tuple)) and len(v.v) == len(t.elts):
            for tt, item in zip(t.elts, v.v):
                self.store(tt, item if isinstance(item, RF) else K(item), s)
            return
        self.err("assignment target not interpreted: %s" % ast.unparse(t)[:40], s)


def resolve(pe, node):
    """Copy of an expression with conditional expressions decided by the scenario and constant locals substituted:
    `a if c else b` -> the selected operand; a local bound to a known string -> the string."""
    from .model import fresh

    class T(ast.NodeTransformer):
        def visit_IfExp(self, n):
            return self.visit(n.body if pe.truth(n.test) else n.orelse)

        def visit_Name(self, n):
            v = pe.env.get(n.id)
            if isinstance(n.ctx, ast.Load) and isinstance(v, K) and isinstance(v.v, (str, bool)):
                return ast.copy_location(ast.Constant(value=v.v), n)
            return n

    return T().visit(fresh(node))
