import random, sys, traceback, collections
sys.path.insert(0, '/repo')
from svgelements import *
random.seed(int(sys.argv[1]))
GOOD = ["M0,0 L10,10 Z", "M0,0 h5 v5 a5,5 0 1 0 2,2", "M 1 1 q 1 1 2 2 t 3 3", "M1,1 C 1 2 3 4 5 6 S 7 8 9 10 z m 1 1 l 2 2", "M 10 10 A 5 5 30 1 1 20 20 Z", "m1 2 3 4 5 6zl1 1", "M1e3-5.5.5L-1-1", "M0 0a1 1 0 01 2 2", "M 0 0 H 1 V 2 h 3 v 4 T 5 5 S 1 1 2 2", "M1,1zM2,2zz"]
ALPH = "MmLlZzAaCcSsQqTtHhVv0123456789.,-+eE \t\n#()x%\x0céinfa"
def mutate(t):
    t = list(t)
    for _ in range(random.randint(0, 4)):
        if not t: break
        i = random.randrange(len(t)); r = random.random()
        if r < 0.3: del t[i]
        elif r < 0.6: t.insert(i, random.choice(ALPH))
        elif r < 0.8: t[i] = random.choice(ALPH)
        elif r < 0.9: t = t[:i]
        else: t[i:i] = list(random.choice(["1e999", "-1e999", "1e-999", "nan", "inf", "00", "1.", ".e1", "0 0 0 0", "z"]))
    return "".join(t)
seen = collections.Counter(); ex = {}
def rec(stage, d, e):
    tb = traceback.extract_tb(e.__traceback__)
    key = (stage, type(e).__name__, tuple(f.lineno for f in tb[-2:]))
    seen[key] += 1
    ex.setdefault(key, (d, str(e)[:80], [(f.name, f.lineno) for f in tb[-4:]]))
for i in range(int(sys.argv[2])):
    d = mutate(random.choice(GOOD)) if random.random() < 0.9 else "".join(random.choice(ALPH) for _ in range(random.randint(0, 12)))
    p = None
    try:
        p = Path(d)
    except ValueError:
        # prefix retained? use parse on an existing path
        p = Path()
        try: p.parse(d)
        except ValueError: pass
        except Exception as e: rec("parse2", d, e); continue
    except Exception as e:
        rec("parse", d, e); continue
    if any(getattr(seg, "start", None) is None for seg in p if not isinstance(seg, Move)):
        continue  # known: leading command without a current point
    for stage, f in (("d", lambda: p.d()), ("d_rel", lambda: p.d(relative=True)), ("bbox", lambda: p.bbox()), ("length", lambda: p.length(error=1e-3, min_depth=2)), ("mul", lambda: (p * Matrix("rotate(20) scale(2,3)")).d()), ("reify", lambda: abs(p * Matrix("translate(3,4)"))), ("point", lambda: p.point(0.5) if len(p) else None), ("copy", lambda: Path(p) == p), ("subpaths", lambda: [s.d() for s in p.as_subpaths()]), ("reverse", lambda: (lambda q: (q.reverse(), q.d()))(Path(p)))):
        try: f()
        except Exception as e: rec(stage, d, e)
for k, c in seen.most_common():
    print(c, k, ex[k][1]); print("   ", ex[k][2]); print("   ", repr(ex[k][0]))
print("done", sum(seen.values()))
