#!/venv/bin/python
"""
Random-input harness for property C08 (bounding boxes contain the geometry and are tight).

usage:  /venv/bin/python harness_C08.py SEED N [family ...]

Every case is built from a python expression string (so that a failure is directly
reproducible) together with an INDEPENDENT description of the geometry: a list of
callables t -> (x, y) on [0, 1] evaluated with this file's own Bezier / ellipse
formulae (de Casteljau, SVG implementation-notes F.6.5 endpoint->centre conversion,
own affine map).  The oracle box is obtained by sampling every piece at NS points
and refining every sampled local extremum by golden section.  The library's answer
is never used as the oracle.

Checked for each reported box (xmin, ymin, xmax, ymax):
  * well-formed: xmin <= xmax, ymin <= ymax
  * containment: every sample is inside the box (+tol)
  * tightness:   every side is within tol of the extreme of the samples
Tolerance: tol = 1e-9 * (largest absolute coordinate of the geometry), floor 1e-13
(a "loose" tolerance: eight orders of magnitude above double rounding).
Failures are printed as JSON lines on stdout; a summary goes to stderr.
"""
import sys, os, math, random, json, io

sys.path.insert(0, os.path.dirname(os.path.abspath(__file__)))
from svgelements import *  # noqa

TAU = 2 * math.pi
NS = 2000
GOLD = (math.sqrt(5) - 1) / 2


# ----------------------------------------------------------------------------- own geometry
def bez(ps):
    ps = [tuple(map(float, p)) for p in ps]

    def f(t):
        q = ps
        while len(q) > 1:
            q = [((1 - t) * a[0] + t * b[0], (1 - t) * a[1] + t * b[1]) for a, b in zip(q, q[1:])]
        return q[0]

    f.spec = ("B", ps)
    return f


def ell(cx, cy, rx, ry, phi, t0, dt):
    c, s = math.cos(phi), math.sin(phi)

    def f(u):
        t = t0 + dt * u
        ct, st = math.cos(t), math.sin(t)
        return (cx + rx * ct * c - ry * st * s, cy + rx * ct * s + ry * st * c)

    f.spec = ("E", cx, cy, rx, ry, phi, t0, dt)
    return f


def svg_arc_center(x1, y1, rx, ry, phi_deg, fa, fs, x2, y2):
    """SVG 1.1 F.6.5 / F.6.6.  returns a piece callable."""
    if x1 == x2 and y1 == y2:
        return bez([(x1, y1), (x2, y2)])  # omitted: degenerate to the point
    rx, ry = abs(rx), abs(ry)
    if rx == 0 or ry == 0:
        return bez([(x1, y1), (x2, y2)])
    phi = math.radians(phi_deg)
    c, s = math.cos(phi), math.sin(phi)
    dx, dy = (x1 - x2) / 2.0, (y1 - y2) / 2.0
    x1p, y1p = c * dx + s * dy, -s * dx + c * dy
    lam = (x1p / rx) ** 2 + (y1p / ry) ** 2
    loose = lam > 1 - 1e-6
    if lam > 1:
        rx *= math.sqrt(lam)
        ry *= math.sqrt(lam)
    num = rx * rx * ry * ry - rx * rx * y1p * y1p - ry * ry * x1p * x1p
    den = rx * rx * y1p * y1p + ry * ry * x1p * x1p
    co = math.sqrt(max(0.0, num / den))
    if lam > 1:
        co = 0.0  # radii were scaled to just reach: the centre is the chord midpoint
    if bool(fa) == bool(fs):
        co = -co
    cxp, cyp = co * rx * y1p / ry, -co * ry * x1p / rx
    cx = c * cxp - s * cyp + (x1 + x2) / 2.0
    cy = s * cxp + c * cyp + (y1 + y2) / 2.0
    th1 = math.atan2((y1p - cyp) / ry, (x1p - cxp) / rx)
    th2 = math.atan2((-y1p - cyp) / ry, (-x1p - cxp) / rx)
    dth = th2 - th1
    if fs:
        while dth < 0:
            dth += TAU
        while dth > TAU:
            dth -= TAU
    else:
        while dth > 0:
            dth -= TAU
        while dth < -TAU:
            dth += TAU
    f = ell(cx, cy, rx, ry, phi, th1, dth)
    if loose:
        # the centre of a semi-ellipse whose radii just reach is sqrt(rounding)-sensitive in ANY implementation:
        # such pieces are compared with a 1e-6 relative tolerance
        f.loose = True
    return f


def amap(m, f):
    """image of piece f under the matrix m=(a,b,c,d,e,f): x' = a x + c y + e ; y' = b x + d y + f"""
    a, b, c, d, e, ff = m

    def g(t):
        x, y = f(t)
        return (a * x + c * y + e, b * x + d * y + ff)

    if getattr(f, "loose", False):
        g.loose = True
    g.spec = ("M", m, f.spec)
    return g


def refine(fn, lo, hi, key):
    """golden-section maximisation of key(fn(t)) on [lo,hi]"""
    a, b = lo, hi
    c = b - GOLD * (b - a)
    d = a + GOLD * (b - a)
    fc, fd = key(fn(c)), key(fn(d))
    for _ in range(80):
        if fc > fd:
            b, d, fd = d, c, fc
            c = b - GOLD * (b - a)
            fc = key(fn(c))
        else:
            a, c, fc = c, d, fd
            d = a + GOLD * (b - a)
            fd = key(fn(d))
        if b - a < 1e-15:
            break
    return max(fc, fd)


_TB_CACHE = {}


def true_box(pieces, ns=NS):
    """(xmin, ymin, xmax, ymax, maxabs) of a list of callables by sampling + refinement."""
    ck = (tuple(id(f) for f in pieces), ns)
    hit = _TB_CACHE.get(ck)
    if hit is not None and hit[0] == list(pieces):
        return hit[1]
    best = [math.inf, math.inf, -math.inf, -math.inf]
    keys = [lambda p: -p[0], lambda p: -p[1], lambda p: p[0], lambda p: p[1]]
    maxabs = 0.0
    ts = [i / ns for i in range(ns + 1)]
    for fn in pieces:
        pts = [fn(t) for t in ts]
        for k, key in enumerate(keys):
            vals = [key(p) for p in pts]
            m = max(vals)
            lowest = min(vals)
            cand = m
            # refine the sampled local maxima that are close to the best one (refinement gains O(dt^2) only)
            thr = m - 1e-4 * (m - lowest)
            locs = []
            for i in range(len(vals)):
                if vals[i] < thr:
                    continue
                l = vals[i - 1] if i > 0 else -math.inf
                r = vals[i + 1] if i + 1 < len(vals) else -math.inf
                if vals[i] >= l and vals[i] >= r:
                    locs.append((vals[i], i))
            locs.sort(reverse=True)
            for _, i in locs[:4]:
                lo = ts[max(i - 1, 0)]
                hi = ts[min(i + 1, ns)]
                if m == lowest:
                    break
                v = refine(fn, lo, hi, key)
                if v > cand:
                    cand = v
            if k < 2:
                best[k] = min(best[k], -cand)
            else:
                best[k] = max(best[k], cand)
        for p in pts:
            maxabs = max(maxabs, abs(p[0]), abs(p[1]))
    res = (best[0], best[1], best[2], best[3], maxabs)
    if len(_TB_CACHE) > 64:
        _TB_CACHE.clear()
    _TB_CACHE[ck] = (list(pieces), res)
    return res


# ----------------------------------------------------------------------------- value generators
def snap(v):
    """keep inside the quantified domain: exactly 0 or 1e-3 <= |v| <= 1e5"""
    if v == 0:
        return 0.0
    if abs(v) < 1e-3:
        return 0.0
    if abs(v) > 1e5:
        return math.copysign(1e5, v)
    return v


def rmag(R):
    return snap(R.choice((-1, 1)) * 10 ** R.uniform(-3, 5))


def rcoord(R):
    u = R.random()
    if u < 0.1:
        return 0.0
    if u < 0.3:
        return float(R.randint(-100, 100))
    return rmag(R)


class Frame:
    """a coordinate cloud: scale S, optional offset"""

    def __init__(self, R):
        self.R = R
        self.mode = R.choice(("mixed", "scaled", "scaled", "scaled_off", "int"))
        self.S = 10 ** R.uniform(-3, 5)
        if self.mode == "scaled_off":
            self.S = 10 ** R.uniform(-3, 4)
            self.ox, self.oy = rmag(R), rmag(R)
        else:
            self.ox = self.oy = 0.0

    def v(self, off):
        R = self.R
        if self.mode == "mixed":
            return rcoord(R)
        if self.mode == "int":
            return float(R.randint(-20, 20))
        x = self.S * R.uniform(-1, 1)
        if R.random() < 0.1:
            x = 0.0
        return snap(x + off)

    def pt(self):
        return (self.v(self.ox), self.v(self.oy))


def rmatrix(R, similarity, maxabs):
    """random invertible matrix as 6-tuple keeping |image| <= 1e5"""
    for _ in range(50):
        kind = R.choice(("ident", "trans", "rot", "sim", "refl", "gen", "scale2"))
        s = 10 ** R.uniform(-2, 2)
        th = R.choice((0.0, TAU / 4, TAU / 2, -TAU / 4, TAU / 8, R.uniform(-TAU, TAU)))
        e, f = R.choice(((0.0, 0.0), (rcoord(R), rcoord(R))))
        if kind == "ident":
            m = (1.0, 0.0, 0.0, 1.0, 0.0, 0.0)
        elif kind == "trans":
            m = (1.0, 0.0, 0.0, 1.0, e, f)
        elif kind == "rot":
            m = (math.cos(th), math.sin(th), -math.sin(th), math.cos(th), e, f)
        elif kind == "sim":
            m = (s * math.cos(th), s * math.sin(th), -s * math.sin(th), s * math.cos(th), e, f)
        elif kind == "refl":
            m = (s * math.cos(th), s * math.sin(th), s * math.sin(th), -s * math.cos(th), e, f)
        elif kind == "scale2":
            if similarity:
                continue
            m = (s, 0.0, 0.0, R.choice((-1, 1)) * 10 ** R.uniform(-2, 2), e, f)
        else:
            if similarity:
                continue
            m = tuple(R.uniform(-2, 2) for _ in range(4)) + (e, f)
            if abs(m[0] * m[3] - m[1] * m[2]) < 1e-2:
                continue
        big = (abs(m[0]) + abs(m[2])) * maxabs + abs(m[4]), (abs(m[1]) + abs(m[3])) * maxabs + abs(m[5])
        if max(big) <= 1e5:
            return m
    return (1.0, 0.0, 0.0, 1.0, 0.0, 0.0)


def mexpr(m):
    return "Matrix(%r, %r, %r, %r, %r, %r)" % m


def pexpr(p):
    return "(%r, %r)" % (p[0], p[1])


# ----------------------------------------------------------------------------- segment generators
# each returns (expr, piece) : expr evaluates to a PathSegment, piece is the own callable
def gen_line(R, F, start=None):
    a = start if start is not None else F.pt()
    b = F.pt()
    return "Line(%s, %s)" % (pexpr(a), pexpr(b)), bez([a, b]), b


def gen_quad(R, F, start=None):
    a = start if start is not None else F.pt()
    c, b = F.pt(), F.pt()
    k = R.random()
    if k < 0.1:
        c = ((a[0] + b[0]) / 2, (a[1] + b[1]) / 2)
    elif k < 0.15:
        c = a
    elif k < 0.2:
        c = b
    elif k < 0.3:  # collinear, control beyond / between
        u = R.uniform(-2, 3)
        c = (snap(a[0] + u * (b[0] - a[0])), snap(a[1] + u * (b[1] - a[1])))
    elif k < 0.35:
        b = a
    return "QuadraticBezier(%s, %s, %s)" % (pexpr(a), pexpr(c), pexpr(b)), bez([a, c, b]), b


def gen_cubic(R, F, start=None):
    a = start if start is not None else F.pt()
    c1, c2, b = F.pt(), F.pt(), F.pt()
    k = R.random()
    if k < 0.08:  # axis degenerate
        ax = R.choice((0, 1))
        v = a[ax]
        lst = [list(p) for p in (a, c1, c2, b)]
        for p in lst:
            p[ax] = v
        a, c1, c2, b = [tuple(p) for p in lst]
        if start is not None:
            a = start
    elif k < 0.2:  # near-linear: evenly (or unevenly) spaced on the chord + tiny perturbation
        eps = R.choice((0.0, 1e-12, 1e-10, 1e-8, 1e-6, 1e-4, 1e-2)) * max(abs(b[0] - a[0]), abs(b[1] - a[1]), 1e-3)
        u1, u2 = R.choice(((1 / 3, 2 / 3), (R.uniform(-1, 2), R.uniform(-1, 2))))
        c1 = (snap(a[0] + u1 * (b[0] - a[0]) + eps * R.uniform(-1, 1)), snap(a[1] + u1 * (b[1] - a[1]) + eps * R.uniform(-1, 1)))
        c2 = (snap(a[0] + u2 * (b[0] - a[0]) + eps * R.uniform(-1, 1)), snap(a[1] + u2 * (b[1] - a[1]) + eps * R.uniform(-1, 1)))
    elif k < 0.32:  # degree elevated quadratic + perturbation  (denominator near the 1e-8 threshold)
        q = F.pt()
        eps = R.choice((0.0, 0.0, 1e-9, 1e-8, 3e-8, 1e-7, 1e-6, 1e-5, 1e-3))
        c1 = (a[0] + 2 / 3 * (q[0] - a[0]), a[1] + 2 / 3 * (q[1] - a[1]))
        c2 = (b[0] + 2 / 3 * (q[0] - b[0]) + eps * R.uniform(-1, 1), b[1] + 2 / 3 * (q[1] - b[1]) + eps * R.uniform(-1, 1))
        c1 = (snap(c1[0]), snap(c1[1]))
        c2 = (snap(c2[0]), snap(c2[1]))
    elif k < 0.40:  # coincident controls
        w = R.choice(("c1a", "c2b", "c1c2", "both", "all", "loop"))
        if w == "c1a":
            c1 = a
        elif w == "c2b":
            c2 = b
        elif w == "c1c2":
            c2 = c1
        elif w == "both":
            c1, c2 = a, b
        elif w == "all":
            c1 = c2 = b = a
        else:
            b = a
    elif k < 0.46:  # cusp / symmetric S
        w = R.choice(("cusp", "S"))
        if w == "cusp":
            c1, c2 = (b[0], a[1]) if False else c2, c1
            c1 = (snap(b[0] + (b[0] - a[0])), snap(a[1] + (c1[1] - a[1])))
            c2 = (snap(a[0] - (b[0] - a[0])), c1[1])
        else:
            d = (F.S * R.uniform(-1, 1), F.S * R.uniform(-1, 1))
            c1 = (snap(a[0] + d[0]), snap(a[1] + d[1]))
            c2 = (snap(b[0] - d[0]), snap(b[1] - d[1]))
    return (
        "CubicBezier(%s, %s, %s, %s)" % (pexpr(a), pexpr(c1), pexpr(c2), pexpr(b)),
        bez([a, c1, c2, b]),
        b,
    )


ROTS = (0.0, 90.0, 180.0, 270.0, -90.0, 360.0, 45.0, 30.0, 450.0)


def gen_arc_svg(R, F, start=None):
    a = start if start is not None else F.pt()
    b = F.pt()
    if R.random() < 0.05:
        b = a
    chord = math.hypot(a[0] - b[0], a[1] - b[1])
    base = chord / 2 if chord > 0 else F.S
    rx = snap(base * 10 ** R.uniform(-0.7, 1.5))
    ry = rx if R.random() < 0.3 else snap(base * 10 ** R.uniform(-0.7, 1.5))
    if R.random() < 0.03:
        rx = 0.0
    rot = R.choice(ROTS) if R.random() < 0.6 else R.uniform(-360, 360)
    fa, fs = R.randint(0, 1), R.randint(0, 1)
    expr = "Arc(%s, %r, %r, %r, %d, %d, %s)" % (pexpr(a), rx, ry, rot, fa, fs, pexpr(b))
    return expr, svg_arc_center(a[0], a[1], rx, ry, rot, fa, fs, b[0], b[1]), b


def gen_arc_native(R, F, start=None):
    """centre parameterisation; extents from tiny to beyond a full turn; start is ignored"""
    c = F.pt()
    rx = max(1e-3, F.S * R.uniform(0.01, 1))
    ry = rx if R.random() < 0.3 else max(1e-3, F.S * R.uniform(0.01, 1))
    phi = math.radians(R.choice(ROTS)) if R.random() < 0.6 else R.uniform(-TAU, TAU)
    t0 = R.choice((0.0, TAU / 4, TAU / 2, -TAU / 4, R.uniform(-TAU, TAU), R.uniform(-TAU, TAU)))
    k = R.random()
    if k < 0.15:
        dt = R.choice((-1, 1)) * 10 ** R.uniform(-6, -1)
    elif k < 0.3:
        dt = R.choice((-1, 1)) * R.choice((TAU / 4, TAU / 2, 3 * TAU / 4, TAU, 2 * TAU))
    elif k < 0.45:
        dt = R.choice((-1, 1)) * R.uniform(TAU, 3 * TAU)
    else:
        dt = R.uniform(-TAU, TAU)
    piece = ell(c[0], c[1], rx, ry, phi, t0, dt)
    s, e = piece(0.0), piece(1.0)
    prx = (c[0] + rx * math.cos(phi), c[1] + rx * math.sin(phi))
    pry = (c[0] - ry * math.sin(phi), c[1] + ry * math.cos(phi))
    expr = "Arc(%s, %s, %s, %s, %s, %r)" % (pexpr(s), pexpr(e), pexpr(c), pexpr(prx), pexpr(pry), dt)
    return expr, piece, e


def gen_arc_control(R, F, start=None):
    """circular arc through three points"""
    c = F.pt()
    r = max(1e-3, F.S * R.uniform(0.01, 1))
    t0 = R.uniform(-TAU, TAU)
    dt = R.choice((-1, 1)) * R.uniform(0.05, 0.95) * TAU
    piece = ell(c[0], c[1], r, r, 0.0, t0, dt)
    s, m, e = piece(0.0), piece(R.uniform(0.2, 0.8)), piece(1.0)
    expr = "Arc(start=%s, control=%s, end=%s)" % (pexpr(s), pexpr(m), pexpr(e))
    return expr, piece, e


SEG_GENS = {
    "line": gen_line,
    "quad": gen_quad,
    "cubic": gen_cubic,
    "arc_svg": gen_arc_svg,
    "arc_native": gen_arc_native,
    "arc_control": gen_arc_control,
}


# ----------------------------------------------------------------------------- checking
FAILS = []
COUNTS = {}


def record(family, kind, expr, msg, err, tol, extra=None):
    rec = {"family": family, "kind": kind, "expr": expr, "msg": msg, "err": err, "tol": tol}
    if extra:
        rec.update(extra)
    FAILS.append(rec)
    print(json.dumps(rec))
    sys.stdout.flush()


def check_box(family, kind, expr, box, pieces, grow=0.0, note=""):
    """compare library box with oracle box of pieces (grown by `grow`)"""
    COUNTS[(family, kind)] = COUNTS.get((family, kind), 0) + 1
    if not pieces:
        if box is not None:
            record(family, kind, expr, "box for empty geometry %s: %r" % (note, box), 1.0, 0.0)
        return
    if box is None:
        record(family, kind, expr, "box is None %s" % note, 1.0, 0.0)
        return
    x0, y0, x1, y1, maxabs = true_box(pieces)
    tol = max(1e-9 * (maxabs + grow), 1e-13)
    if any(getattr(f, "loose", False) for f in pieces):
        tol *= 1000
    exp = (x0 - grow, y0 - grow, x1 + grow, y1 + grow)
    try:
        box = tuple(float(v) for v in box)
    except Exception as ex:
        record(family, kind, expr, "box not numeric %s: %r" % (note, box), 1.0, 0.0)
        return
    if any(math.isnan(v) or math.isinf(v) for v in box):
        record(family, kind, expr, "box not finite %s: %r" % (note, box), 1.0, 0.0)
        return
    if box[0] > box[2] or box[1] > box[3]:
        record(family, kind, expr, "malformed box %s: %r" % (note, box), 1.0, 0.0)
    names = ("xmin", "ymin", "xmax", "ymax")
    for i in range(4):
        d = box[i] - exp[i]
        outward = -d if i < 2 else d  # >0 : box is larger than geometry (not tight); <0 : geometry sticks out
        if abs(d) > tol:
            what = "NOT TIGHT" if outward > 0 else "NOT CONTAINED"
            record(
                family,
                kind,
                expr,
                "%s %s %s: got %r expected %r" % (what, names[i], note, box[i], exp[i]),
                abs(d),
                tol,
                {"extent": max(x1 - x0, y1 - y0), "maxabs": maxabs, "box": box, "expected": exp},
            )


def guarded(family, kind, expr, fn):
    try:
        return fn()
    except RecursionError as ex:
        COUNTS[(family, kind)] = COUNTS.get((family, kind), 0) + 1
        record(family, kind, expr, "EXCEPTION RecursionError", 1.0, 0.0)
    except Exception as ex:
        COUNTS[(family, kind)] = COUNTS.get((family, kind), 0) + 1
        record(family, kind, expr, "EXCEPTION %s: %s" % (type(ex).__name__, ex), 1.0, 0.0)
    return None


# ----------------------------------------------------------------------------- families
def fam_segment(R):
    F = Frame(R)
    kind = R.choice(list(SEG_GENS))
    expr, piece, _ = SEG_GENS[kind](R, F)

    def run():
        seg = eval(expr)
        check_box("segment", kind, expr, seg.bbox(), [piece])
        # transformed copy of the segment
        _, _, _, _, maxabs = true_box([piece], 50)
        m = rmatrix(R, similarity=kind.startswith("arc"), maxabs=maxabs)
        e2 = "(%s * %s)" % (expr, mexpr(m))
        seg2 = eval(e2)
        check_box("segment*matrix", kind, e2, seg2.bbox(), [amap(m, piece)])

    guarded("segment", kind, expr, run)


def build_path(R, F, allow_arcs=True):
    """returns (d-expression list, pieces per subpath)  -- every subpath starts with a Move"""
    nsub = R.choice((1, 1, 2, 3))
    segs = []
    sub_pieces = []
    kinds = ["line", "quad", "cubic"] + (["arc_svg"] * 2 if allow_arcs else [])
    for _ in range(nsub):
        p0 = F.pt()
        segs.append("Move(None, %s)" % pexpr(p0))
        cur = p0
        pieces = []
        for _ in range(R.randint(1, 4)):
            k = R.choice(kinds)
            expr, piece, cur2 = SEG_GENS[k](R, F, start=cur)
            segs.append(expr)
            pieces.append(piece)
            cur = cur2
        if R.random() < 0.5:
            segs.append("Close(%s, %s)" % (pexpr(cur), pexpr(p0)))
            pieces.append(bez([cur, p0]))
        sub_pieces.append(pieces)
    return segs, sub_pieces


def stroke_args(R):
    """returns (kwargs expr, painted?, width)"""
    w = R.choice((0.0, 1.0, 2.0, 0.5, 10 ** R.uniform(-2, 2)))
    st = R.choice(("None", "'none'", "'black'", "'red'", "'#00f'"))
    painted = st not in ("None", "'none'")
    return "stroke=%s, stroke_width=%r" % (st, w), painted, w


def fam_path(R):
    F = Frame(R)
    allow_arcs = R.random() < 0.5
    segs, subs = build_path(R, F, allow_arcs)
    allp = [p for s in subs for p in s]
    _, _, _, _, maxabs = true_box(allp, 20)
    sk, painted, w = stroke_args(R)
    m = rmatrix(R, similarity=allow_arcs, maxabs=maxabs)
    expr = "Path(%s, transform=%s, %s)" % (", ".join(segs), mexpr(m), sk)
    det = abs(m[0] * m[3] - m[1] * m[2])

    def run():
        p = eval(expr)
        allpT = [amap(m, f) for f in allp]
        for transformed in (True, False):
            for ws in (True, False):
                grow = 0.0
                if ws and painted:
                    grow = w * math.sqrt(det) / 2 if transformed else w / 2
                pcs = allpT if transformed else allp
                box = p.bbox(transformed=transformed, with_stroke=ws)
                check_box("path", "arcs" if allow_arcs else "noarcs", expr, box, pcs, grow, "transformed=%s with_stroke=%s" % (transformed, ws))
        # subpaths
        sp = list(p.as_subpaths())
        if len(sp) != len(subs):
            record("subpath", "count", expr, "as_subpaths gave %d, expected %d" % (len(sp), len(subs)), 1.0, 0.0)
        else:
            for i, (s, pcs0) in enumerate(zip(sp, subs)):
                pcs0T = [amap(m, f) for f in pcs0]
                for transformed in (True, False):
                    for ws in (True, False):
                        grow = 0.0
                        if ws and painted:
                            grow = w * math.sqrt(det) / 2 if transformed else w / 2
                        pcs = pcs0T if transformed else pcs0
                        box = s.bbox(transformed=transformed, with_stroke=ws)
                        check_box("subpath", "arcs" if allow_arcs else "noarcs", expr, box, pcs, grow, "subpath %d transformed=%s with_stroke=%s" % (i, transformed, ws))

    guarded("path", "arcs" if allow_arcs else "noarcs", expr, run)


def rect_pieces(x, y, w, h, rx, ry):
    if rx == 0 or ry == 0:
        c = [(x, y), (x + w, y), (x + w, y + h), (x, y + h)]
        return [bez([c[i], c[(i + 1) % 4]]) for i in range(4)]
    out = [
        bez([(x + rx, y), (x + w - rx, y)]),
        ell(x + w - rx, y + ry, rx, ry, 0, -TAU / 4, TAU / 4),
        bez([(x + w, y + ry), (x + w, y + h - ry)]),
        ell(x + w - rx, y + h - ry, rx, ry, 0, 0, TAU / 4),
        bez([(x + w - rx, y + h), (x + rx, y + h)]),
        ell(x + rx, y + h - ry, rx, ry, 0, TAU / 4, TAU / 4),
        bez([(x, y + h - ry), (x, y + ry)]),
        ell(x + rx, y + ry, rx, ry, 0, TAU / 2, TAU / 4),
    ]
    return out


def gen_shape(R, F):
    """returns (ctor-name, args-expr, pieces, needs_similarity)"""
    kind = R.choice(("rect", "rrect", "circle", "ellipse", "line", "polyline", "polygon"))
    if kind in ("rect", "rrect"):
        x, y = F.pt()
        w, h = max(1e-3, abs(F.S * R.uniform(0.01, 1))), max(1e-3, abs(F.S * R.uniform(0.01, 1)))
        if kind == "rect":
            return kind, "Rect(%r, %r, %r, %r" % (x, y, w, h), rect_pieces(x, y, w, h, 0, 0), False
        rx = w * R.uniform(0.05, 0.5)
        ry = rx if R.random() < 0.5 and rx <= h / 2 else h * R.uniform(0.05, 0.5)
        return kind, "Rect(%r, %r, %r, %r, %r, %r" % (x, y, w, h, rx, ry), rect_pieces(x, y, w, h, rx, ry), True
    if kind == "circle":
        cx, cy = F.pt()
        r = max(1e-3, F.S * R.uniform(0.01, 1))
        return kind, "Circle(%r, %r, %r" % (cx, cy, r), [ell(cx, cy, r, r, 0, 0, TAU)], True
    if kind == "ellipse":
        cx, cy = F.pt()
        rx, ry = max(1e-3, F.S * R.uniform(0.01, 1)), max(1e-3, F.S * R.uniform(0.01, 1))
        return kind, "Ellipse(%r, %r, %r, %r" % (cx, cy, rx, ry), [ell(cx, cy, rx, ry, 0, 0, TAU)], True
    if kind == "line":
        a, b = F.pt(), F.pt()
        return kind, "SimpleLine(%r, %r, %r, %r" % (a[0], a[1], b[0], b[1]), [bez([a, b])], False
    pts = [F.pt() for _ in range(R.randint(2, 6))]
    flat = ", ".join("%r, %r" % p for p in pts)
    pcs = [bez([pts[i], pts[i + 1]]) for i in range(len(pts) - 1)]
    if kind == "polygon":
        pcs.append(bez([pts[-1], pts[0]]))
        return kind, "Polygon(%s" % flat, pcs, False
    return kind, "Polyline(%s" % flat, pcs, False


def fam_shape(R):
    F = Frame(R)
    kind, head, pcs0, sim = gen_shape(R, F)
    _, _, _, _, maxabs = true_box(pcs0, 20)
    m = rmatrix(R, similarity=sim, maxabs=maxabs)
    # for round shapes avoid the known non-similarity limitation only; similarity incl. reflection is in
    sk, painted, w = stroke_args(R)
    expr = "%s, transform=%s, %s)" % (head, mexpr(m), sk)
    det = abs(m[0] * m[3] - m[1] * m[2])

    def run():
        s = eval(expr)
        pcs0T = [amap(m, f) for f in pcs0]
        for transformed in (True, False):
            for ws in (True, False):
                grow = 0.0
                if ws and painted:
                    grow = w * math.sqrt(det) / 2 if transformed else w / 2
                pcs = pcs0T if transformed else pcs0
                box = s.bbox(transformed=transformed, with_stroke=ws)
                check_box("shape", kind, expr, box, pcs, grow, "transformed=%s with_stroke=%s" % (transformed, ws))
        # the same through Path(shape) and through reify (abs)
        p = Path(s)
        box = p.bbox(transformed=True, with_stroke=False)
        check_box("Path(shape)", kind, "Path(%s)" % expr, box, pcs0T, 0.0, "transformed=True")
        a = abs(s)
        box = a.bbox(transformed=True, with_stroke=False)
        check_box("abs(shape)", kind, "abs(%s)" % expr, box, pcs0T, 0.0, "transformed=True")

    guarded("shape", kind, expr, run)


def fam_group(R):
    """programmatic group of shapes/paths; union of members, group *= matrix"""
    F = Frame(R)
    n = R.randint(1, 4)
    members = []
    for _ in range(n):
        if R.random() < 0.4:
            segs, subs = build_path(R, F, allow_arcs=False)
            pcs0 = [p for s in subs for p in s]
            head = "Path(%s" % ", ".join(segs)
            sim = False
        else:
            kind, head, pcs0, sim = gen_shape(R, F)
        _, _, _, _, maxabs = true_box(pcs0, 20)
        m = rmatrix(R, similarity=sim, maxabs=maxabs)
        sk, painted, w = stroke_args(R)
        members.append(("%s, transform=%s, %s)" % (head, mexpr(m), sk), pcs0, m, painted, w, sim))
    expr = "[" + ", ".join(mm[0] for mm in members) + "]"

    def run():
        g = Group()
        g.extend(eval(expr))
        # nested group holding the last member
        if R.random() < 0.5 and len(g) > 1:
            inner = Group()
            inner.append(g.pop())
            g.append(inner)
        tb = {}
        for idx, (e, pcs0, m, painted, w, sim) in enumerate(members):
            tb[(idx, True)] = true_box([amap(m, f) for f in pcs0])
            tb[(idx, False)] = true_box(pcs0)
        for transformed in (True, False):
            for ws in (True, False):
                # union of grown member boxes
                xs0, ys0, xs1, ys1 = [], [], [], []
                mab = 0.0
                for idx, (e, pcs0, m, painted, w, sim) in enumerate(members):
                    det = abs(m[0] * m[3] - m[1] * m[2])
                    grow = 0.0
                    if ws and painted:
                        grow = w * math.sqrt(det) / 2 if transformed else w / 2
                    x0, y0, x1, y1, ma = tb[(idx, transformed)]
                    xs0.append(x0 - grow)
                    ys0.append(y0 - grow)
                    xs1.append(x1 + grow)
                    ys1.append(y1 + grow)
                    mab = max(mab, ma + grow)
                exp = (min(xs0), min(ys0), max(xs1), max(ys1))
                box = g.bbox(transformed=transformed, with_stroke=ws)
                COUNTS[("group", "prog")] = COUNTS.get(("group", "prog"), 0) + 1
                tol = max(1e-9 * mab, 1e-13)
                if box is None:
                    record("group", "prog", expr, "box None", 1.0, 0.0)
                    continue
                for i, nm in enumerate(("xmin", "ymin", "xmax", "ymax")):
                    if abs(box[i] - exp[i]) > tol:
                        record("group", "prog", expr, "%s transformed=%s with_stroke=%s: got %r expected %r" % (nm, transformed, ws, box[i], exp[i]), abs(box[i] - exp[i]), tol)

    guarded("group", "prog", expr, run)


def fmt(v):
    return repr(float(v))


def fam_svgdoc(R):
    """parsed document: nested <g transform>, <use x y>, shapes with own transform; compare group / use / svg
    boxes with the union of the independently transformed member geometry."""
    F = Frame(R)
    F.mode = R.choice(("scaled", "int"))
    F.ox = F.oy = 0.0
    F.S = 10 ** R.uniform(-1, 3)

    def tstr(m):
        return "matrix(%s)" % ",".join(fmt(v) for v in m)

    def compose(outer, inner):
        # point -> outer(inner(point))
        a, b, c, d, e, f = outer
        a2, b2, c2, d2, e2, f2 = inner
        return (
            a * a2 + c * b2,
            b * a2 + d * b2,
            a * c2 + c * d2,
            b * c2 + d * d2,
            a * e2 + c * f2 + e,
            b * e2 + d * f2 + f,
        )

    ident = (1.0, 0.0, 0.0, 1.0, 0.0, 0.0)
    uid = [0]
    expected = {}  # id -> list of (pieces, grow)

    def shape_xml(ctm, sim_only, idattr="", raw=False):
        """returns xml, list of (pieces in document space, grow)"""
        kind = R.choice(("rect", "circle", "ellipse", "line", "polyline", "polygon", "path"))
        m = rmatrix(R, similarity=True, maxabs=F.S * 2) if R.random() < 0.6 else ident
        total = compose(ctm, m)
        st = R.choice(("none", "black", None))
        w = R.choice((1.0, 2.0, 0.5, 3.0))
        sattr = ""
        if st is not None:
            sattr += ' stroke="%s"' % st
        sattr += ' stroke-width="%s"' % fmt(w)
        painted = st == "black"
        det = abs(total[0] * total[3] - total[1] * total[2])
        grow = w * math.sqrt(det) / 2 if painted else 0.0
        tattr = ' transform="%s"' % tstr(m) if m is not ident else ""
        tattr = idattr + tattr
        if kind == "rect":
            x, y = F.pt()
            ww, hh = max(1e-3, abs(F.S * R.uniform(0.01, 1))), max(1e-3, abs(F.S * R.uniform(0.01, 1)))
            xml = '<rect x="%s" y="%s" width="%s" height="%s"%s%s/>' % (fmt(x), fmt(y), fmt(ww), fmt(hh), tattr, sattr)
            pcs = rect_pieces(x, y, ww, hh, 0, 0)
        elif kind == "circle":
            cx, cy = F.pt()
            r = max(1e-3, F.S * R.uniform(0.01, 1))
            xml = '<circle cx="%s" cy="%s" r="%s"%s%s/>' % (fmt(cx), fmt(cy), fmt(r), tattr, sattr)
            pcs = [ell(cx, cy, r, r, 0, 0, TAU)]
        elif kind == "ellipse":
            cx, cy = F.pt()
            rx, ry = max(1e-3, F.S * R.uniform(0.01, 1)), max(1e-3, F.S * R.uniform(0.01, 1))
            xml = '<ellipse cx="%s" cy="%s" rx="%s" ry="%s"%s%s/>' % (fmt(cx), fmt(cy), fmt(rx), fmt(ry), tattr, sattr)
            pcs = [ell(cx, cy, rx, ry, 0, 0, TAU)]
        elif kind == "line":
            a, b = F.pt(), F.pt()
            xml = '<line x1="%s" y1="%s" x2="%s" y2="%s"%s%s/>' % (fmt(a[0]), fmt(a[1]), fmt(b[0]), fmt(b[1]), tattr, sattr)
            pcs = [bez([a, b])]
        elif kind in ("polyline", "polygon"):
            pts = [F.pt() for _ in range(R.randint(2, 5))]
            xml = '<%s points="%s"%s%s/>' % (kind, " ".join("%s,%s" % (fmt(p[0]), fmt(p[1])) for p in pts), tattr, sattr)
            pcs = [bez([pts[i], pts[i + 1]]) for i in range(len(pts) - 1)]
            if kind == "polygon":
                pcs.append(bez([pts[-1], pts[0]]))
        else:
            p0 = F.pt()
            d = "M %s,%s" % (fmt(p0[0]), fmt(p0[1]))
            cur = p0
            pcs = []
            for _ in range(R.randint(1, 3)):
                k = R.choice("LQC")
                if k == "L":
                    b = F.pt()
                    d += " L %s,%s" % (fmt(b[0]), fmt(b[1]))
                    pcs.append(bez([cur, b]))
                elif k == "Q":
                    c, b = F.pt(), F.pt()
                    d += " Q %s,%s %s,%s" % (fmt(c[0]), fmt(c[1]), fmt(b[0]), fmt(b[1]))
                    pcs.append(bez([cur, c, b]))
                else:
                    c1, c2, b = F.pt(), F.pt(), F.pt()
                    d += " C %s,%s %s,%s %s,%s" % (fmt(c1[0]), fmt(c1[1]), fmt(c2[0]), fmt(c2[1]), fmt(b[0]), fmt(b[1]))
                    pcs.append(bez([cur, c1, c2, b]))
                cur = b
            if R.random() < 0.4:
                d += " Z"
                pcs.append(bez([cur, p0]))
            xml = '<path d="%s"%s%s/>' % (d, tattr, sattr)
        if raw:
            return xml, (pcs, m, w, painted)
        return xml, [([amap(total, f) for f in pcs], grow)]

    defs = []  # (id, pcs, m, w, painted)
    defs_xml = []
    for i in range(R.randint(0, 2)):
        x, rawparts = shape_xml(ident, True, idattr=' id="d%d"' % i, raw=True)
        defs_xml.append(x)
        defs.append(("d%d" % i,) + rawparts)

    def use_xml(ctm):
        did, pcs, sm, w, painted = R.choice(defs)
        uid[0] += 1
        uidn = "u%d" % uid[0]
        um = rmatrix(R, similarity=True, maxabs=F.S * 2) if R.random() < 0.6 else ident
        ux, uy = R.choice(((0.0, 0.0), F.pt()))
        total = compose(compose(compose(ctm, um), (1.0, 0.0, 0.0, 1.0, ux, uy)), sm)
        det = abs(total[0] * total[3] - total[1] * total[2])
        grow = w * math.sqrt(det) / 2 if painted else 0.0
        tattr = ' transform="%s"' % tstr(um) if um is not ident else ""
        href = R.choice(("xlink:href", "href"))
        xml = '<use id="%s" %s="#%s" x="%s" y="%s"%s/>' % (uidn, href, did, fmt(ux), fmt(uy), tattr)
        items = [([amap(total, f) for f in pcs], grow)]
        expected[uidn] = items
        return xml, items

    def group_xml(ctm, depth):
        uid[0] += 1
        gid = "g%d" % uid[0]
        m = rmatrix(R, similarity=True, maxabs=F.S * 2) if R.random() < 0.7 else ident
        total = compose(ctm, m)
        tattr = ' transform="%s"' % tstr(m) if m is not ident else ""
        inner = []
        items = []
        for _ in range(R.randint(1, 3)):
            if depth < 2 and R.random() < 0.3:
                x, it = group_xml(total, depth + 1)
            elif defs and R.random() < 0.4:
                x, it = use_xml(total)
            else:
                x, it = shape_xml(total, True)
            inner.append(x)
            items.extend(it)
        expected[gid] = items
        return '<g id="%s"%s>%s</g>' % (gid, tattr, "".join(inner)), items

    body = []
    allitems = []
    for _ in range(R.randint(1, 3)):
        x, it = group_xml(ident, 0)
        body.append(x)
        allitems.extend(it)
    dx = "<defs>%s</defs>" % "".join(defs_xml) if defs_xml else ""
    xml = '<svg xmlns="http://www.w3.org/2000/svg" xmlns:xlink="http://www.w3.org/1999/xlink">%s%s</svg>' % (dx, "".join(body))
    expr = "SVG.parse(io.StringIO(%r), reify=%s)" % (xml, R.choice(("True", "False")))

    def run():
        svg = eval(expr)
        found = {}
        for e in svg.elements():
            if isinstance(e, (Group, Use)) and e.id in expected:
                found[e.id] = e
        for gid, items in expected.items():
            if gid not in found:
                record("svgdoc", "group", expr, "group %s not found" % gid, 1.0, 0.0)
                continue
            tbs = [true_box(pcs, 500) for pcs, grow in items]
            for ws in (True, False):
                xs0, ys0, xs1, ys1 = [], [], [], []
                mab = 0.0
                for (pcs, grow), tbv in zip(items, tbs):
                    gr = grow if ws else 0.0
                    x0, y0, x1, y1, ma = tbv
                    xs0.append(x0 - gr)
                    ys0.append(y0 - gr)
                    xs1.append(x1 + gr)
                    ys1.append(y1 + gr)
                    mab = max(mab, ma + gr)
                exp = (min(xs0), min(ys0), max(xs1), max(ys1))
                box = found[gid].bbox(transformed=True, with_stroke=ws)
                COUNTS[("svgdoc", "group")] = COUNTS.get(("svgdoc", "group"), 0) + 1
                tol = max(1e-7 * mab, 1e-13)  # looser: sampling with 500 points + text round trip
                if box is None:
                    record("svgdoc", "group", expr, "box None for %s" % gid, 1.0, 0.0)
                    continue
                for i, nm in enumerate(("xmin", "ymin", "xmax", "ymax")):
                    if abs(box[i] - exp[i]) > tol:
                        record("svgdoc", "group", expr, "%s of #%s with_stroke=%s: got %r expected %r" % (nm, gid, ws, box[i], exp[i]), abs(box[i] - exp[i]), tol)

    guarded("svgdoc", "group", expr, run)


def fam_moves(R):
    """paths with moves that draw nothing (trailing move, doubled leading move, move-only subpath in the middle).
    A moveto that is not followed by a drawing command renders nothing (SVG 1.1 8.3.2 / 11.4: "a subpath consisting of
    a single moveto is not stroked"), so it is not part of the geometry."""
    F = Frame(R)
    segs, subs = build_path(R, F, allow_arcs=False)
    allp = [p for s in subs for p in s]
    where = R.choice(("trailing", "leading", "middle"))
    stray = "Move(None, %s)" % pexpr(F.pt())
    if where == "trailing":
        segs = segs + [stray]
    elif where == "leading":
        segs = [stray] + segs
    else:
        idx = [i for i, s in enumerate(segs) if s.startswith("Move")]
        k = R.choice(idx)
        segs = segs[:k] + [stray] + segs[k:]
    expr = "Path(%s)" % ", ".join(segs)

    def run():
        p = eval(expr)
        check_box("path-stray-move", where, expr, p.bbox(), allp, 0.0, "")

    guarded("path-stray-move", where, expr, run)


FAMILIES = {
    "moves": fam_moves,
    "segment": fam_segment,
    "path": fam_path,
    "shape": fam_shape,
    "group": fam_group,
    "svgdoc": fam_svgdoc,
}


def main():
    seed = int(sys.argv[1]) if len(sys.argv) > 1 else 1
    n = int(sys.argv[2]) if len(sys.argv) > 2 else 200
    fams = sys.argv[3:] or list(FAMILIES)
    for fam in fams:
        for i in range(n):
            R = random.Random("%s/%d/%d" % (fam, seed, i))
            FAMILIES[fam](R)
    sys.stderr.write("cases checked (boxes compared):\n")
    for k in sorted(COUNTS):
        nf = sum(1 for f in FAILS if (f["family"], f["kind"]) == k)
        sys.stderr.write("  %-16s %-12s %6d boxes  %5d failure records\n" % (k[0], k[1], COUNTS[k], nf))
    sys.stderr.write("total failure records: %d\n" % len(FAILS))


if __name__ == "__main__":
    main()
