"""Random round-trip harness for property C07 (d() -> parse reproduces the path).

usage: /venv/bin/python harness_C07.py SEED N [-v]

For every random path P (built from path data or through the API, optionally carrying a
similarity transform) and every (relative, smooth) in {None,False,True}^2 we take
s = P.d(relative=..., smooth=...), re-parse R = Path(s) and demand
  * same number and kinds of segments,
  * same geometry, compared by sampling BOTH paths with oracle_common.sample(), i.e. with our
    own Bezier / ellipse formulas applied to the segments' stored defining points.
str(P) and Subpath.d() (for subpaths that own a Move) are checked the same way.

Tolerance: 2e-11 * (largest |coordinate| of the path) * (nseg+2); the 12-digit format
rounds each number by <= 5e-12 relative and relative output can accumulate that per segment.
Arcs get the conditioning-aware widening of oracle_common.arc_tolerance().
Stays inside the quantified domain: |coordinate| in [1e-3, 1e5], <= 12 significant digits per
written number, arc radii / rotation <= 6 significant digits (known %G limitation), every path
starts with a Move.
"""
import json
import math
import random
import re
import sys
import traceback

sys.path.insert(0, "/tmp/dz/C07_C16")
from oracle_common import (  # noqa: E402
    TS,
    arc_end_consistency,
    arc_tolerance,
    dist,
    fmt_num,
    rnd_value,
    round_sig,
    sample,
    scale_of,
    snapshot,
)
from svgelements import (  # noqa: E402
    Arc,
    Close,
    CubicBezier,
    Line,
    Matrix,
    Move,
    Path,
    Point,
    QuadraticBezier,
)

LO, HI = 1e-3, 1e5
NO_NEAR = "--no-near" in sys.argv  # disable the deliberately near-coincident points
# %G always prints >= 2 exponent digits; a 1-digit exponent betrays Point.__str__'s zero stripping
EXP_STRIP = re.compile(r"E[-+]\d(?!\d)")
PROFILES = ((-3, -1), (-1, 2), (0, 3), (3, 5), (-3, 5), (-3, 5))


def in_domain(v, allow_zero=False):
    return LO <= abs(v) <= HI or (allow_zero and v == 0)


class Gen:
    """Builds a model path: a list of commands with the numbers *as written* plus the absolute
    truth derived with the SVG rules."""

    def __init__(self, rng, allow_zero=False):
        self.rng = rng
        self.profile = rng.choice(PROFILES)
        self.cur = None
        self.sub = None
        self.prev = None  # ('Q', control) / ('C', control2) / None
        self.cmds = []
        self.allow_zero = allow_zero
        self.digits = rng.choice((None, None, 12, 12, 3))

    # ---- numbers
    def fresh(self):
        return rnd_value(self.rng, self.profile[0], self.profile[1], self.digits)

    def coord(self, cur, rel, mode):
        """-> (written, absolute) for one axis."""
        rng = self.rng
        for _ in range(200):
            if cur is None:
                mode = "fresh"
            if mode == "fresh":
                t = 0.0 if (self.allow_zero and rng.random() < 0.12) else self.fresh()
                if rel:
                    w = round_sig(t - cur, 12)
                    a = cur + w
                else:
                    w = a = t
            elif mode == "same":
                if rel:
                    w, a = 0.0, cur
                else:
                    w = a = cur
            else:  # near
                e = math.floor(math.log10(abs(cur))) if cur else 0
                k = rng.choice((1, 15, 25, 125, rng.randint(1, 999)))
                delta = k * 10.0 ** (e - rng.randint(2, 13))
                if rng.random() < 0.5:
                    delta = -delta
                if rel:
                    w = round_sig(delta, 12)
                    a = cur + w
                else:
                    w = a = round_sig(cur + delta, 12)
            if in_domain(a, self.allow_zero) and (not rel or w == 0 or abs(w) >= 1e-300):
                # absolute written numbers must also be representable with 12 digits
                return w, a
        raise RuntimeError("no coordinate")

    def point(self, rel, mode=None, ref=None):
        """-> (written (x,y), absolute (x,y)); relative numbers are offsets from self.cur,
        'near'/'same' modes are relative to ref (default: current point)."""
        rng = self.rng
        if mode is None:
            mode = rng.choices(("fresh", "near", "same", "samex", "samey"), (70, 12, 4, 7, 7))[0]
        if NO_NEAR and mode == "near":
            mode = "fresh"
        base = self.cur
        if ref is None:
            ref = base
        mx = my = mode
        if mode == "samex":
            mx, my = "same", "fresh"
        elif mode == "samey":
            mx, my = "fresh", "same"
        out_w, out_a = [], []
        for axis, m in ((0, mx), (1, my)):
            b = None if base is None else base[axis]
            r = None if ref is None else ref[axis]
            if b is None or m == "fresh":
                w, a = self.coord(b, rel and b is not None, "fresh")
            elif r == b:
                w, a = self.coord(b, rel, m)
            else:
                # near/same with respect to a reference other than the current point
                _, target = self.coord(r, False, m)
                if rel:
                    w = round_sig(target - b, 12)
                    a = b + w
                    if not in_domain(a):
                        w, a = self.coord(b, rel, "fresh")
                else:
                    w = a = target
            out_w.append(w)
            out_a.append(a)
        return tuple(out_w), tuple(out_a)

    # ---- commands
    def add_move(self):
        rel = self.rng.random() < 0.4
        w, a = self.point(rel, mode="fresh" if self.rng.random() < 0.85 else "near")
        if self.cur is None:
            # first move: relative is measured from the origin -> written == absolute
            w = a
        self.cmds.append(dict(k="M", rel=rel, w=[w], a=[a], start=self.cur))
        self.cur = a
        self.sub = a
        self.prev = None

    def add_line(self):
        rel = self.rng.random() < 0.45
        w, a = self.point(rel)
        hv = None
        if a[1] == self.cur[1] and self.rng.random() < 0.7:
            hv = "H"
        elif a[0] == self.cur[0] and self.rng.random() < 0.7:
            hv = "V"
        self.cmds.append(dict(k="L", rel=rel, w=[w], a=[a], hv=hv, start=self.cur))
        self.cur = a
        self.prev = None

    def reflect(self):
        c = self.prev[1]
        return (2 * self.cur[0] - c[0], 2 * self.cur[1] - c[1])

    def add_quad(self):
        rng = self.rng
        rel = rng.random() < 0.45
        smooth = rng.random() < 0.35
        start = self.cur
        if smooth:
            c_a = self.reflect() if (self.prev and self.prev[0] == "Q") else start
            c_w = None
        else:
            r = rng.random()
            if r < 0.25 and self.prev and self.prev[0] == "Q":
                # explicit control that is (nearly) the reflection -> S/T eligibility edge
                refl = self.reflect()
                if all(in_domain(v) for v in refl):
                    c_w, c_a = self.point(rel, mode=rng.choice(("same", "near")), ref=refl)
                else:
                    c_w, c_a = self.point(rel)
            elif r < 0.35:
                c_w, c_a = self.point(rel, mode=rng.choice(("same", "near")))
            else:
                c_w, c_a = self.point(rel)
        e_w, e_a = self.point(rel)
        self.cmds.append(
            dict(k="Q", rel=rel, smooth=smooth, w=[c_w, e_w], a=[c_a, e_a], start=start)
        )
        self.cur = e_a
        self.prev = ("Q", c_a)

    def add_cubic(self):
        rng = self.rng
        rel = rng.random() < 0.45
        smooth = rng.random() < 0.35
        start = self.cur
        if smooth:
            c1_a = self.reflect() if (self.prev and self.prev[0] == "C") else start
            c1_w = None
        else:
            r = rng.random()
            if r < 0.25 and self.prev and self.prev[0] == "C":
                refl = self.reflect()
                if all(in_domain(v) for v in refl):
                    c1_w, c1_a = self.point(rel, mode=rng.choice(("same", "near")), ref=refl)
                else:
                    c1_w, c1_a = self.point(rel)
            elif r < 0.35:
                c1_w, c1_a = self.point(rel, mode=rng.choice(("same", "near")))
            else:
                c1_w, c1_a = self.point(rel)
        c2_w, c2_a = self.point(rel)
        e_w, e_a = self.point(rel)
        self.cmds.append(
            dict(
                k="C",
                rel=rel,
                smooth=smooth,
                w=[c1_w, c2_w, e_w],
                a=[c1_a, c2_a, e_a],
                start=start,
            )
        )
        self.cur = e_a
        self.prev = ("C", c2_a)

    def add_arc(self):
        rng = self.rng
        rel = rng.random() < 0.45
        start = self.cur
        style = rng.choices(("generous", "barely", "scaled_nice", "circle"), (50, 20, 15, 15))[0]
        rot = rng.choice((0.0, 0.0, 90.0, 45.0, 30.0, -30.0, 180.0, round(rng.uniform(-180, 180), 3), float(rng.randint(-179, 180)), round_sig(rng.uniform(-720, 720), 6)))
        fa = rng.random() < 0.5
        fs = rng.random() < 0.5
        scaled = False
        if style == "scaled_nice":
            # final (scaled-up) radii are 6-digit numbers; chord built from them
            for _ in range(50):
                rxs = rnd_value(rng, max(self.profile[0], -2), self.profile[1] - 0.4, 6, signed=False)
                rys = rxs if rng.random() < 0.4 else rnd_value(
                    rng, math.log10(rxs) - 1, math.log10(rxs) + 1, 6, signed=False
                )
                al = rng.uniform(0, 2 * math.pi)
                ph = math.radians(rot)
                xp, yp = rxs * math.cos(al), rys * math.sin(al)
                dx = math.cos(ph) * xp - math.sin(ph) * yp
                dy = math.sin(ph) * xp + math.cos(ph) * yp
                ex, ey = start[0] - 2 * dx, start[1] - 2 * dy
                if rel:
                    w = (round_sig(ex - start[0], 12), round_sig(ey - start[1], 12))
                    a = (start[0] + w[0], start[1] + w[1])
                else:
                    w = a = (round_sig(ex, 12), round_sig(ey, 12))
                if in_domain(a[0]) and in_domain(a[1]):
                    k = rng.choice((2.0, 4.0, 5.0, 10.0, 100.0))
                    rx, ry = rxs / k, rys / k
                    scaled = True
                    break
            else:
                style = "generous"
        if style != "scaled_nice":
            w, a = self.point(rel, mode=rng.choices(("fresh", "near", "same"), (85, 10, 5))[0])
            chord = dist(start, a)
            if chord == 0:
                chord = abs(start[0]) or 1.0
            if style == "circle":
                r = round_sig(chord * rng.uniform(0.5001, 3), 6)
                if r < chord / 2:
                    r = round_sig(chord * 0.6, 6)
                rx = ry = r
            elif style == "barely":
                f = 1 + 10.0 ** (-rng.randint(1, 5))
                r = round_sig(chord / 2 * f, 6)
                while r <= chord / 2:
                    r = round_sig(r * (1 + 2e-6), 6)
                rx = ry = r
                if rng.random() < 0.5:
                    ry = round_sig(r * rng.uniform(1, 4), 6)
                    rot_dir = math.degrees(math.atan2(a[1] - start[1], a[0] - start[0]))
                    rot = round(rot_dir, 3)  # chord along the rx axis (approximately)
                    rx = round_sig(r * 1.0005, 6)
            else:
                rx = round_sig(chord * rng.uniform(0.75, 5), 6)
                ry = round_sig(chord * rng.uniform(0.75, 5), 6)
        if style == "generous" and rng.random() < 0.1:
            ry = round_sig(rx * 10 ** rng.uniform(1, 3), 6)  # very flat ellipse
        rx = max(rx, 1e-3)
        ry = max(ry, 1e-3)
        self.cmds.append(
            dict(k="A", rel=rel, w=[w], a=[a], arc=(rx, ry, rot, fa, fs), start=start, scaled=scaled)
        )
        self.cur = a
        self.prev = None

    def add_close(self):
        rel = self.rng.random() < 0.5
        self.cmds.append(dict(k="Z", rel=rel, w=[], a=[self.sub], start=self.cur))
        self.cur = self.sub
        self.prev = None

    def build(self):
        rng = self.rng
        n = rng.choice((1, 2, 3, 4, 5, 6, 8, 12))
        self.add_move()
        adders = (self.add_line, self.add_quad, self.add_cubic, self.add_arc, self.add_close, self.add_move)
        weights = rng.choice(((30, 20, 20, 20, 8, 6), (10, 35, 35, 5, 8, 6), (10, 5, 5, 60, 8, 6), (25, 15, 15, 15, 20, 10)))
        for _ in range(n):
            rng.choices(adders, weights)[0]()
        return self.cmds


# ------------------------------------------------------------------ model -> path data


def write_d(rng, cmds):
    out = []
    last_letter = None

    def num(v):
        return fmt_num(rng, v)

    def sep():
        return rng.choice((",", " ", " , ", "  "))

    def pt(p):
        return num(p[0]) + sep() + num(p[1])

    for c in cmds:
        k = c["k"]
        rel = c["rel"]
        if k == "M":
            letter, args = "M", pt(c["w"][0])
        elif k == "Z":
            letter, args = "Z", ""
        elif k == "L":
            if c.get("hv") == "H":
                letter, args = "H", num(c["w"][0][0])
            elif c.get("hv") == "V":
                letter, args = "V", num(c["w"][0][1])
            else:
                letter, args = "L", pt(c["w"][0])
        elif k == "Q":
            if c["smooth"]:
                letter, args = "T", pt(c["w"][1])
            else:
                letter, args = "Q", pt(c["w"][0]) + " " + pt(c["w"][1])
        elif k == "C":
            if c["smooth"]:
                letter, args = "S", pt(c["w"][1]) + " " + pt(c["w"][2])
            else:
                letter, args = "C", " ".join(pt(p) for p in c["w"])
        elif k == "A":
            rx, ry, rot, fa, fs = c["arc"]
            flags = rng.choice(("%d %d ", "%d,%d,", "%d%d ")) % (fa, fs)
            letter = "A"
            neg = "-" if rng.random() < 0.05 else ""  # negative radii are legal: |r| is used
            args = "%s%s%s %s %s%s" % (
                neg + fmt_num(rng, rx, plain=True),
                sep(),
                neg + fmt_num(rng, ry, plain=True),
                fmt_num(rng, rot, plain=True),
                flags,
                pt(c["w"][0]),
            )
        if rel:
            letter = letter.lower()
        implicit = False
        if letter == last_letter and letter not in "MmZz" and rng.random() < 0.4:
            implicit = True
        if last_letter in ("M", "m") and letter == ("L" if last_letter == "M" else "l") and rng.random() < 0.4:
            implicit = True
        if implicit:
            out.append(" " + args)
            # the effective letter for further implicit repetition stays
            if last_letter in ("M", "m"):
                last_letter = "L" if last_letter == "M" else "l"
        else:
            out.append(rng.choice(("", " ")) + letter + rng.choice(("", " ")) + args)
            last_letter = letter
    return "".join(out).strip()


# ------------------------------------------------------------------ model -> API calls


def build_api(rng, cmds):
    """Builds the path with the public construction API; returns (path, description)."""
    style = rng.choice(("methods", "segments", "ctor"))
    desc = [style]
    if style == "methods":
        p = Path()
        for c in cmds:
            k, rel = c["k"], c["rel"]
            a = c["a"]
            if k == "M":
                p.move(a[0], relative=rel)
            elif k == "Z":
                p.closed(relative=rel)
            elif k == "L":
                p.line(a[0], relative=rel)
            elif k == "Q":
                if c["smooth"]:
                    p.smooth_quad(a[1], relative=rel)
                else:
                    p.quad(a[0], a[1], relative=rel)
            elif k == "C":
                if c["smooth"]:
                    p.smooth_cubic(a[1], a[2], relative=rel)
                else:
                    p.cubic(a[0], a[1], a[2], relative=rel)
            elif k == "A":
                rx, ry, rot, fa, fs = c["arc"]
                p.arc(rx, ry, rot, fa, fs, a[0], relative=rel)
        return p, desc
    segs = []
    for c in cmds:
        k, rel = c["k"], c["rel"]
        a = c["a"]
        st = c["start"]
        # the smooth flag of the object is deliberately independent of the geometry
        sm = rng.random() < 0.5
        if k == "M":
            # NB Move(p, relative=...) silently drops p (1 positional + keyword), so name the end
            segs.append(Move(st, a[0], relative=rel) if st is not None else Move(end=a[0], relative=rel))
        elif k == "Z":
            s = Close(st, a[0])
            s.relative = rel
            segs.append(s)
        elif k == "L":
            segs.append(Line(st, a[0], relative=rel))
        elif k == "Q":
            segs.append(QuadraticBezier(st, a[0], a[1], relative=rel, smooth=sm))
        elif k == "C":
            segs.append(CubicBezier(st, a[0], a[1], a[2], relative=rel, smooth=sm))
        elif k == "A":
            rx, ry, rot, fa, fs = c["arc"]
            segs.append(Arc(st, rx, ry, rot, fa, fs, a[0], relative=rel))
    if style == "ctor":
        p = Path(*segs) if len(segs) != 1 else Path(segs[0])
    else:
        p = Path()
        for s in segs:
            if rng.random() < 0.5:
                p.append(s)
            else:
                p += s
    return p, desc


# ------------------------------------------------------------------ truth from the model (own F.6.5)


def model_snaps(cmds):
    """Snapshot-format truth for the model (used only as a secondary 'first parse' check)."""
    out = []
    for c in cmds:
        k = c["k"]
        st, a = c["start"], c["a"]
        if k == "M":
            out.append(("Move", st, a[0]))
        elif k == "Z":
            out.append(("Close", st, a[0]))
        elif k == "L":
            out.append(("Line", st, a[0]))
        elif k == "Q":
            out.append(("QuadraticBezier", st, a[0], a[1]))
        elif k == "C":
            out.append(("CubicBezier", st, a[0], a[1], a[2]))
        elif k == "A":
            out.append(svg_arc(st, a[0], *c["arc"]))
    return out


def svg_arc(p1, p2, rx, ry, rot, fa, fs):
    """SVG 1.1 F.6.5/F.6.6 endpoint -> centre conversion, returned in snapshot format."""
    x1, y1 = p1
    x2, y2 = p2
    rx, ry = abs(rx), abs(ry)
    if (x1 == x2 and y1 == y2) or rx == 0 or ry == 0:
        return ("Arc", p1, p2, p1, p1, p1, 0.0)
    ph = math.radians(rot)
    cp, sp = math.cos(ph), math.sin(ph)
    dx, dy = (x1 - x2) / 2, (y1 - y2) / 2
    x1p = cp * dx + sp * dy
    y1p = -sp * dx + cp * dy
    lam = x1p * x1p / (rx * rx) + y1p * y1p / (ry * ry)
    if lam > 1:
        rx *= math.sqrt(lam)
        ry *= math.sqrt(lam)
    num = rx * rx * ry * ry - rx * rx * y1p * y1p - ry * ry * x1p * x1p
    den = rx * rx * y1p * y1p + ry * ry * x1p * x1p
    co = math.sqrt(max(0.0, num / den))
    if fa == fs:
        co = -co
    cxp = co * rx * y1p / ry
    cyp = -co * ry * x1p / rx
    cx = cp * cxp - sp * cyp + (x1 + x2) / 2
    cy = sp * cxp + cp * cyp + (y1 + y2) / 2

    def ang(ux, uy, vx, vy):
        return math.atan2(ux * vy - uy * vx, ux * vx + uy * vy)

    th1 = ang(1, 0, (x1p - cxp) / rx, (y1p - cyp) / ry)
    dth = ang((x1p - cxp) / rx, (y1p - cyp) / ry, (-x1p - cxp) / rx, (-y1p - cyp) / ry)
    if not fs and dth > 0:
        dth -= 2 * math.pi
    elif fs and dth < 0:
        dth += 2 * math.pi
    prx = (cx + rx * cp, cy + rx * sp)
    pry = (cx - ry * sp, cy + ry * cp)
    return ("Arc", p1, p2, (cx, cy), prx, pry, dth)


# ------------------------------------------------------------------ comparison


def apply(m, p):
    if m is None or p is None:
        return p
    a, b, c, d, e, f = m
    return (a * p[0] + c * p[1] + e, b * p[0] + d * p[1] + f)


def compare(orig, new, tol, matrix=None, mscale=1.0):
    """orig/new: snapshot lists.  Returns None or a dict describing the first difference."""
    ko = [s[0] for s in orig]
    kn = [s[0] for s in new]
    if ko != kn:
        return dict(what="kinds", expected=ko, actual=kn)
    for i, (so, sn) in enumerate(zip(orig, new)):
        t_here = tol
        if so[0] == "Arc":
            t_here = max(arc_tolerance(so, tol / mscale) * mscale, tol)
        ts = (1.0,) if so[0] == "Move" else TS
        for t in ts:
            pe = apply(matrix, sample(so, t))
            pa = sample(sn, t)
            if pe is None or pa is None:
                if pe is not pa:
                    return dict(what="none-point", index=i, kind=so[0], t=t, expected=pe, actual=pa)
                continue
            err = dist(pe, pa)
            if not err <= t_here:
                return dict(what="geometry", index=i, kind=so[0], t=t, expected=pe, actual=pa, err=err, tol=t_here)
        if sn[0] == "Arc":
            e = arc_end_consistency(sn)
            if not e <= t_here:
                return dict(what="arc-inconsistent", index=i, kind="Arc", err=e, tol=t_here)
    return None


def six_digit_ok(snaps):
    """True when every arc's stored radii / rotation are reproduced by %G (known limitation)."""
    for s in snaps:
        if s[0] != "Arc" or s[6] == 0:
            continue
        c, prx, pry = s[3], s[4], s[5]
        rx, ry = dist(c, prx), dist(c, pry)
        rot = math.degrees(math.atan2(prx[1] - c[1], prx[0] - c[0]))
        for v, rel in ((rx, 2e-10), (ry, 2e-10)):
            if v and abs(float("%G" % v) - v) > rel * v:
                return False
        if abs(rx - ry) > 1e-9 * rx and abs(float("%G" % rot) - rot) > 1e-9:
            return False
    return True


SIMILARITIES = (None, None, None, "t", "s10", "s01", "flipx", "flipy", "rot", "rotflip")


def rnd_matrix(rng):
    kind = rng.choice(SIMILARITIES)
    if kind is None:
        return None, 1.0
    if kind == "t":
        return (1, 0, 0, 1, float(rng.randint(-50, 50)), float(rng.randint(-50, 50))), 1.0
    if kind == "s10":
        return (10, 0, 0, 10, 0, 0), 10.0
    if kind == "s01":
        return (0.1, 0, 0, 0.1, 0, 0), 0.1
    if kind == "flipx":
        return (-1, 0, 0, 1, 0, 0), 1.0
    if kind == "flipy":
        return (1, 0, 0, -1, 0, 0), 1.0
    deg = rng.choice((90.0, 180.0, 45.0, 30.0, float(rng.randint(-179, 180)), round(rng.uniform(-180, 180), 2)))
    c, s = math.cos(math.radians(deg)), math.sin(math.radians(deg))
    if kind == "rot":
        return (c, s, -s, c, 0, 0), 1.0
    return (c, s, s, -c, 0, 0), 1.0  # rotation combined with a reflection


def run_case(rng, verbose=False):
    """-> (status, list of failure dicts).  status in ok / skipped / fail"""
    g = Gen(rng)
    cmds = g.build()
    source = rng.choice(("d", "d", "api"))
    info = dict(source=source)
    if source == "d":
        d_in = write_d(rng, cmds)
        info["d_in"] = d_in
        path = Path(d_in)
    else:
        path, desc = build_api(rng, cmds)
        info["api"] = desc
        info["model"] = repr([(c["k"], c["rel"], c.get("smooth"), c["a"], c.get("arc")) for c in cmds])
    truth = model_snaps(cmds)
    base = snapshot(path._segments)
    failures = []
    # secondary check: did construction reproduce the model?  (not C07 itself)
    sc0 = max(scale_of(truth), 1e-3)
    diff0 = compare(truth, base, 1e-12 * sc0 * (len(base) + 2))
    if diff0 is not None:
        # Point equality tolerance / arc degeneracy make the first parse differ; record separately
        info["construction_diff"] = diff0
    matrix, mscale = rnd_matrix(rng)
    if matrix is not None and rng.random() < 0.5 and not any(s[0] == "Arc" for s in base):
        # arcs are only exact under similarities (known); everything else takes any affine map
        matrix = tuple(round(rng.uniform(-2, 2), 3) for _ in range(4)) + (float(rng.randint(-50, 50)), float(rng.randint(-50, 50)))
        mscale = 4.0
    if matrix is not None:
        # keep the transformed coordinates inside the domain
        pts = [apply(matrix, p) for s in base for p in s[1:] if isinstance(p, tuple)]
        if any(not in_domain(v) for p in pts for v in p):
            matrix, mscale = None, 1.0
    if matrix is not None:
        path *= Matrix(*matrix)
        info["matrix"] = matrix
        # radii / rotation must stay in the 6-digit domain after the transform
        if not six_digit_ok(snapshot(abs(path)._segments)):
            return "skipped", [], info
    elif not six_digit_ok(base):
        return "skipped", [], info
    sc = max(scale_of(base) * max(mscale, 1.0), 1e-3)
    if matrix is not None:
        sc = max(sc, max(abs(v) for p in pts for v in p))
    tol = 2e-11 * sc * (len(base) + 2)

    def check(label, text, orig_snaps, mat):
        try:
            re = Path(text)
            new = snapshot(re._segments)
        except Exception as ex:  # the output must be parseable
            failures.append(dict(label=label, out=text, what="reparse-exception", exc=repr(ex)))
            return
        diff = compare(orig_snaps, new, tol, mat, mscale)
        if diff is not None:
            diff.update(label=label, out=text)
            failures.append(diff)

    for relative in (None, False, True):
        for smooth in (None, False, True):
            label = "d(relative=%s, smooth=%s)" % (relative, smooth)
            try:
                text = path.d(relative=relative, smooth=smooth)
            except Exception as ex:
                failures.append(dict(label=label, what="d-exception", exc=repr(ex), tb=traceback.format_exc(limit=3)))
                continue
            check(label, text, base, matrix)
    try:
        check("str(path)", str(path), base, matrix)
    except Exception as ex:
        failures.append(dict(label="str(path)", what="d-exception", exc=repr(ex)))
    # Subpath.d(): only subpaths that own their Move are self-contained
    try:
        subs = list(path.as_subpaths())
    except Exception as ex:
        failures.append(dict(label="as_subpaths", what="d-exception", exc=repr(ex)))
        subs = []
    for si, sp in enumerate(subs):
        segs = path._segments[sp._start : sp._end + 1]
        if not isinstance(segs[0], Move):
            continue
        osn = snapshot(segs)
        for relative, smooth in ((None, None), (False, True), (True, False), (True, True)):
            label = "subpath(%d).d(relative=%s, smooth=%s)" % (si, relative, smooth)
            try:
                text = sp.d(relative=relative, smooth=smooth)
            except Exception as ex:
                failures.append(dict(label=label, what="d-exception", exc=repr(ex)))
                continue
            # Subpath.d() works on the untransformed backing segments
            check(label, text, osn, None)
        if rng.random() < 0.3:
            try:
                check("str(subpath %d)" % si, str(sp), osn, None)
            except Exception as ex:
                failures.append(dict(label="str(subpath %d)" % si, what="d-exception", exc=repr(ex)))
    return ("fail" if failures else "ok"), failures, info


def main():
    seed = int(sys.argv[1])
    n = int(sys.argv[2])
    verbose = "-v" in sys.argv
    counts = dict(ok=0, skipped=0, fail=0, construction_diff=0)
    sigs = {}
    for i in range(n):
        rng = random.Random(seed * 1000003 + i)
        try:
            status, failures, info = run_case(rng, verbose)
        except Exception as ex:
            status, failures, info = "fail", [dict(what="harness-exception", exc=repr(ex), tb=traceback.format_exc())], {}
        counts[status] += 1
        if "construction_diff" in info:
            counts["construction_diff"] += 1
        if "construction_diff" in info and "-c" in sys.argv:
            print("CONSTRUCTION case=%d" % i, json.dumps(info, default=str)[:1500])
        if failures:
            # do not let the (very frequent) exponent-stripping defect mask anything else
            others = [ff for ff in failures if not EXP_STRIP.search(ff.get("out", ""))]
            if others:
                failures = others
                f = failures[0]
                sig = (f["what"], f.get("kind"), f.get("label", "").split("(")[0])
            else:
                sig = ("exp-strip",)
            sigs.setdefault(sig, []).append(i)
            if verbose or len(sigs[sig]) <= 3:
                print("FAIL case=%d seed=%d n_fail=%d" % (i, seed, len(failures)))
                print("  info:", json.dumps(info, default=str)[:1500])
                for f in failures[:3]:
                    print("  ", json.dumps(f, default=str)[:1200])
    print("SUMMARY seed=%d n=%d %s" % (seed, n, counts))
    for sig, cases in sorted(sigs.items(), key=lambda kv: -len(kv[1])):
        print("  %-60s %d  e.g. cases %s" % (sig, len(cases), cases[:8]))


if __name__ == "__main__":
    main()
