"""Random-input harness for property C05 (endpoint-form arcs are the arcs of SVG F.6).

usage: /venv/bin/python harness_C05.py SEED N [-v]

Oracle: an independent implementation of SVG implementation note F.6.2/F.6.5/F.6.6
(centre parameterisation with radii scaling, flags, degenerate cases). The library's
arc is compared with it through start/end, centre, radii, sweep and points sampled
along the arc; degenerate arcs are compared with the straight line / nothing.
"""
import os
import sys
import math
import random
from math import sin, cos, sqrt, atan2, pi, tau, hypot

sys.path.insert(0, os.path.dirname(os.path.abspath(__file__)))
from svgelements import Arc, Path, Point, Move, Line  # noqa: E402

REL_TOL = 1e-6  # relative to the scale of the case (coordinates, radii)
ANG_TOL = 1e-6  # radians


# --------------------------------------------------------------------------- oracle
def exact_cs(phi_deg):
    """cos/sin of an angle given in degrees, exact at multiples of 90."""
    r = math.fmod(phi_deg, 360.0)
    if r < 0:
        r += 360.0
    table = {0.0: (1.0, 0.0), 90.0: (0.0, 1.0), 180.0: (-1.0, 0.0), 270.0: (0.0, -1.0)}
    if r in table:
        return table[r]
    a = math.radians(r)
    return cos(a), sin(a)


class Ref:
    """F.6 reference arc. kind in {'nothing','line','arc'}"""

    def __init__(self, x1, y1, rx, ry, phi_deg, fa, fs, x2, y2):
        self.x1, self.y1, self.x2, self.y2 = x1, y1, x2, y2
        fa, fs = bool(fa), bool(fs)
        self.fa, self.fs = fa, fs
        if x1 == x2 and y1 == y2:
            self.kind = "nothing"  # F.6.2: identical endpoints -> omit the segment
            return
        if rx == 0 or ry == 0:
            self.kind = "line"  # F.6.2: zero radius -> straight line
            return
        self.kind = "arc"
        rx, ry = abs(rx), abs(ry)  # F.6.6 step 1
        c, s = exact_cs(phi_deg)
        self.c, self.s = c, s
        dx, dy = (x1 - x2) / 2.0, (y1 - y2) / 2.0
        x1p = c * dx + s * dy
        y1p = -s * dx + c * dy
        lam = (x1p / rx) ** 2 + (y1p / ry) ** 2
        self.lam = lam
        self.scaled = lam > 1
        if lam > 1:  # F.6.6 step 3
            k = sqrt(lam)
            rx *= k
            ry *= k
        self.rx, self.ry = rx, ry
        # evaluate the radicand in normalised coordinates (better conditioned)
        a, b = x1p / rx, y1p / ry
        q = a * a + b * b
        rad = (1.0 - q) / q
        if rad < 0 or self.scaled:
            rad = 0.0
        coef = sqrt(rad)
        if fa == fs:
            coef = -coef
        cxp = coef * rx * y1p / ry
        cyp = -coef * ry * x1p / rx
        self.cx = c * cxp - s * cyp + (x1 + x2) / 2.0
        self.cy = s * cxp + c * cyp + (y1 + y2) / 2.0
        ux, uy = (x1p - cxp) / rx, (y1p - cyp) / ry
        vx, vy = (-x1p - cxp) / rx, (-y1p - cyp) / ry
        self.theta1 = atan2(uy, ux)
        d = atan2(ux * vy - uy * vx, ux * vx + uy * vy)  # signed angle u->v in (-pi, pi]
        if self.scaled:
            d = pi  # exact half turn
        if fs and d < 0:
            d += tau
        elif not fs and d > 0:
            d -= tau
        self.dtheta = d

    def point(self, p):
        if self.kind == "nothing":
            return self.x1, self.y1
        if self.kind == "line":
            return (self.x1 + p * (self.x2 - self.x1), self.y1 + p * (self.y2 - self.y1))
        t = self.theta1 + p * self.dtheta
        ex, ey = self.rx * cos(t), self.ry * sin(t)
        return (self.cx + self.c * ex - self.s * ey, self.cy + self.s * ex + self.c * ey)

    def scale(self):
        m = max(abs(self.x1), abs(self.y1), abs(self.x2), abs(self.y2))
        if self.kind == "arc":
            m = max(m, self.rx, self.ry)
        return max(m, 1e-300)


# ---------------------------------------------------------------------- generators
def rcoord(rng):
    k = rng.random()
    if k < 0.15:
        return 0.0
    mag = 10 ** rng.uniform(-3, 5)
    if k < 0.3:
        mag = float(round(mag)) if mag >= 1 else mag
    return mag if rng.random() < 0.5 else -mag


SPECIAL_ROT = [0, 90, 180, 270, 360, -90, -180, -270, -360, 450, 720, -450, 45, -45, 30, -30, 1e-9, 89.999999, 540, 1080]


def rrot(rng):
    k = rng.random()
    if k < 0.35:
        return float(rng.choice(SPECIAL_ROT)) if rng.random() < 0.7 else rng.choice(SPECIAL_ROT)
    if k < 0.75:
        return rng.uniform(-360, 360)
    return rng.uniform(-2000, 2000)


def gen_case(rng):
    x1, y1 = rcoord(rng), rcoord(rng)
    k = rng.random()
    if k < 0.06:
        x2, y2 = x1, y1  # coincident
    elif k < 0.45:
        # nearby end point (chord small against the coordinates)
        ch = 10 ** rng.uniform(-3, 3)
        a = rng.uniform(0, tau) if rng.random() < 0.7 else rng.choice([0, pi / 2, pi, -pi / 2])
        x2, y2 = x1 + ch * cos(a), y1 + ch * sin(a)
        if rng.random() < 0.3:
            x2, y2 = float(round(x2, 3)), float(round(y2, 3))
    else:
        x2, y2 = rcoord(rng), rcoord(rng)
    chord = hypot(x2 - x1, y2 - y1)
    if chord == 0:
        chord = 1.0

    def rad():
        k = rng.random()
        if k < 0.06:
            return 0.0
        if k < 0.16:
            return chord / 2.0  # exactly reaching (circle: exact half turn)
        if k < 0.22:
            return chord / 2.0 * (1 + rng.choice([-1, 1]) * 10 ** rng.uniform(-15, -3))
        r = chord * 10 ** rng.uniform(-3, 3)
        return r

    rx = rad()
    ry = rx if rng.random() < 0.3 else rad()
    if rng.random() < 0.2:
        rx = -rx
    if rng.random() < 0.2:
        ry = -ry
    rot = rrot(rng)
    fa = rng.random() < 0.5
    fs = rng.random() < 0.5
    return x1, y1, rx, ry, rot, fa, fs, x2, y2


def flagval(rng, f):
    return rng.choice([int(f), bool(f)])


def build(rng, case):
    """Build the library arc via one of the public argument forms. Returns (form, arc, container_path_or_None)."""
    x1, y1, rx, ry, rot, fa, fs, x2, y2 = case
    form = rng.choice(["args7", "args7pt", "complex", "kwargs", "path.arc", "path.arc2", "parse", "parse_rel", "parse_multi", "after_close"])
    fa_, fs_ = flagval(rng, fa), flagval(rng, fs)
    if form == "args7":
        return form, Arc(complex(x1, y1), rx, ry, rot, fa_, fs_, complex(x2, y2)), None
    if form == "args7pt":
        return form, Arc((x1, y1), rx, ry, rot, fa_, fs_, Point(x2, y2)), None
    if form == "complex":
        return form, Arc(complex(x1, y1), complex(rx, ry), rot, fa_, fs_, complex(x2, y2)), None
    if form == "kwargs":
        return form, Arc(start=(x1, y1), radius=complex(rx, ry), rotation=rot, arc_flag=fa_, sweep_flag=fs_, end=(x2, y2)), None
    if form == "path.arc":
        p = Path().move((x1, y1)).arc(rx, ry, rot, fa_, fs_, (x2, y2))
        return form, p[1], p
    if form == "path.arc2":
        # two arcs in one call; the arc under test is the second one
        mx, my = x1 + 1.5, y1 - 2.25
        p = Path().move((mx, my)).arc(3.0, 2.0, 10, 0, 1, (x1, y1), rx, ry, rot, fa_, fs_, (x2, y2))
        return form, p[2], p
    if form == "parse_multi":
        # implicit repetition of the A command; the arc under test is the second one
        d = "M%r,%r A3 2 10 0 1 %r %r %r %r %r %d %d %r %r" % (x1 + 1.5, y1 - 2.25, x1, y1, rx, ry, float(rot), fa, fs, x2, y2)
        p = Path(d)
        return form + ":" + d, p[2], p
    if form == "after_close":
        # arc starting at the current point left by a closepath
        d = "M%r,%r l3,4 l-5,1 z A%r %r %r %d %d %r %r" % (x1, y1, rx, ry, float(rot), fa, fs, x2, y2)
        p = Path(d)
        return form + ":" + d, p[4], p
    if form == "parse":
        sep = rng.choice([" ", ","])
        fl = rng.choice(["%d %d " % (fa, fs), "%d,%d," % (fa, fs), "%d%d" % (fa, fs), "%d%d " % (fa, fs)])
        d = "M%r,%r A%r%s%r %r %s%r%s%r" % (x1, y1, rx, sep, ry, float(rot), fl, x2, sep, y2)
        p = Path(d)
        return form + ":" + d, p[1], p
    if form == "parse_rel":
        # relative: the end is given as an offset; the actual end point is whatever float addition yields
        ox, oy = x2 - x1, y2 - y1
        d = "M%r,%r a%r %r %r %d %d %r %r" % (x1, y1, rx, ry, float(rot), fa, fs, ox, oy)
        p = Path(d)
        return form + ":" + d, p[1], p
    raise AssertionError


# -------------------------------------------------------------------------- checks
def dist(p, q):
    return hypot(p[0] - q[0], p[1] - q[1])


POSITIONS = [0.0, 1.0, 1e-9, 1 - 1e-9, 0.5, 0.25, 0.75, 1 / 3.0, 0.9]


def check(case, form, arc, path, rng):
    """Returns list of (tag, message)."""
    fails = []
    x1, y1, rx, ry, rot, fa, fs, x2, y2 = case
    if form.startswith("parse_rel"):
        # the end actually requested is start + offset in floating point
        x2, y2 = x1 + (x2 - x1), y1 + (y2 - y1)
    ref = Ref(x1, y1, rx, ry, rot, fa, fs, x2, y2)
    sc = ref.scale()
    tol = REL_TOL * sc

    def bad(tag, msg):
        fails.append((tag, msg))

    # endpoints exactly as given
    if (arc.start.x, arc.start.y) != (x1, y1):
        bad("start-not-exact", "start %r != %r" % (arc.start, (x1, y1)))
    if (arc.end.x, arc.end.y) != (x2, y2):
        bad("end-not-exact", "end %r != %r" % (arc.end, (x2, y2)))
    try:
        p0 = arc.point(0)
        p1 = arc.point(1)
        if (p0.x, p0.y) != (x1, y1):
            bad("point0-not-exact", "point(0) %r != %r" % (p0, (x1, y1)))
        if ref.kind == "arc" and (p1.x, p1.y) != (x2, y2):
            bad("point1-not-exact", "point(1) %r != %r" % (p1, (x2, y2)))
        # (for the zero-radius line, point(1) is start + 1*(end-start): 1 ulp of rounding is tolerated)
        if ref.kind == "line" and dist((p1.x, p1.y), (x2, y2)) > 1e-12 * sc:
            bad("point1-line", "point(1) %r != %r" % (p1, (x2, y2)))
    except Exception as e:  # noqa
        bad("exception-point", "%s: %s" % (type(e).__name__, e))
        return fails

    positions = POSITIONS + [rng.random() for _ in range(4)]
    try:
        pts = arc.npoint(positions)
    except Exception as e:  # noqa
        bad("exception-npoint", "%s: %s" % (type(e).__name__, e))
        return fails
    worst = 0.0
    worst_at = None
    for p, q in zip(positions, pts):
        e = ref.point(p)
        d = dist(e, (q[0], q[1]))
        if d > worst:
            worst, worst_at = d, (p, e, (q[0], q[1]))
    if worst > tol:
        bad("points-%s" % ref.kind, "pos %r expected %r got %r (off by %.3g, scale %.3g)" % (worst_at + (worst, sc)))

    if ref.kind == "arc":
        if dist((arc.center.x, arc.center.y), (ref.cx, ref.cy)) > tol:
            bad("centre", "centre %r expected %r" % (arc.center, (ref.cx, ref.cy)))
        # radii are stored as points centre+r: allow for the rounding of the coordinates as well
        if abs(arc.rx - ref.rx) > REL_TOL * ref.rx + 1e-9 * sc or abs(arc.ry - ref.ry) > REL_TOL * ref.ry + 1e-9 * sc:
            bad("radii", "rx,ry %r,%r expected %r,%r" % (arc.rx, arc.ry, ref.rx, ref.ry))
        if abs(arc.sweep - ref.dtheta) > ANG_TOL:
            bad("sweep", "sweep %r expected %r (fa=%r fs=%r scaled=%r)" % (arc.sweep, ref.dtheta, fa, fs, ref.scaled))
        if (arc.sweep > 0) != bool(fs):
            bad("sweep-direction", "sweep %r but sweep flag %r" % (arc.sweep, fs))
        if not ref.scaled and abs(abs(ref.dtheta) - pi) > 1e-5:
            if (abs(arc.sweep) > pi) != bool(fa):
                bad("large-arc", "sweep %r but large-arc flag %r" % (arc.sweep, fa))
        # (that every point lies on the F.6 ellipse follows from the comparison with the reference
        # points above: distance to the ellipse <= distance to the reference point <= tol)
    else:
        # degenerate: nothing or straight line, with that line's length and bbox
        try:
            ln = arc.length()
            exp = 0.0 if ref.kind == "nothing" else hypot(x2 - x1, y2 - y1)
            if abs(ln - exp) > tol:
                bad("length-%s" % ref.kind, "length %r expected %r" % (ln, exp))
        except Exception as e:  # noqa
            bad("exception-length", "%s: %s" % (type(e).__name__, e))
        try:
            bb = arc.bbox()
            exp = (min(x1, x2), min(y1, y2), max(x1, x2), max(y1, y2))
            if max(abs(a - b) for a, b in zip(bb, exp)) > tol:
                bad("bbox-%s" % ref.kind, "bbox %r expected %r" % (bb, exp))
        except Exception as e:  # noqa
            bad("exception-bbox", "%s: %s" % (type(e).__name__, e))
        if path is not None and len(path) == 2:
            try:
                ln = path.length()
                exp = 0.0 if ref.kind == "nothing" else hypot(x2 - x1, y2 - y1)
                if abs(ln - exp) > tol:
                    bad("path-length-%s" % ref.kind, "Path.length %r expected %r" % (ln, exp))
                bb = path.bbox()
                exp = (min(x1, x2), min(y1, y2), max(x1, x2), max(y1, y2))
                if bb is None or max(abs(a - b) for a, b in zip(bb, exp)) > tol:
                    bad("path-bbox-%s" % ref.kind, "Path.bbox %r expected %r" % (bb, exp))
                if ref.kind == "line":
                    q = path.point(0.5)
                    e = ref.point(0.5)
                    if dist(e, (q.x, q.y)) > tol:
                        bad("path-point-line", "Path.point(.5) %r expected %r" % (q, e))
            except Exception as e:  # noqa
                bad("exception-path-degenerate", "%s: %s" % (type(e).__name__, e))
    return fails


def main():
    seed = int(sys.argv[1]) if len(sys.argv) > 1 else 0
    n = int(sys.argv[2]) if len(sys.argv) > 2 else 1000
    verbose = "-v" in sys.argv
    rng = random.Random(seed)
    counts = {}
    first = {}
    for i in range(n):
        case = gen_case(rng)
        try:
            form, arc, path = build(rng, case)
        except Exception as e:  # noqa
            tag = "exception-build"
            counts[tag] = counts.get(tag, 0) + 1
            first.setdefault(tag, (case, "?", "%s: %s" % (type(e).__name__, e)))
            continue
        fails = check(case, form, arc, path, rng)
        for tag, msg in fails:
            counts[tag] = counts.get(tag, 0) + 1
            if tag not in first:
                first[tag] = (case, form, msg)
            if verbose:
                print("FAIL", tag, case, form, msg)
    print("C05 seed=%d cases=%d" % (seed, n))
    if not counts:
        print("no failures")
    for tag in sorted(counts):
        case, form, msg = first[tag]
        print("%-28s %6d of %d   first: case=%r form=%s :: %s" % (tag, counts[tag], n, case, form, msg))


if __name__ == "__main__":
    main()
