#!/venv/bin/python
"""
Random-input harness for property C04 (transform strings and Matrix algebra).

usage: /venv/bin/python harness_C04.py SEED N [--libconst] [--quiet]

The oracle is an independent evaluator: 3x3 (here 2x3 affine) composition of the
elementary matrices of SVG 1.1 section 7.6 / CSS Transforms 1, column vector
convention, right-most function applied to the point first.  Nothing of the
library is used to compute an expected value.

  --no-dotnum  never generate the SVG 1.1 spellings "1." and "1.e2"
  --no-skew1   never generate the one-argument CSS form skew(ax)
  --units=a,b  restrict the length units of the "all-units" generator (empty name = unitless)
  --libconst   resolve cm/mm with the library's rounded factors (0.393701,
               0.0393701) instead of the exact 1in = 2.54cm.  Used only to see
               what remains once that (separately reported) root cause is masked.

Failure classes are printed as  KIND | reproducer | expected | actual.
"""
import sys
import os
import math
import random
import collections

sys.path.insert(0, os.path.dirname(os.path.abspath(__file__)))
from svgelements import Matrix, Point, Angle, Length  # noqa: E402

TAU = 2 * math.pi
LIBCONST = "--libconst" in sys.argv
QUIET = "--quiet" in sys.argv

# --------------------------------------------------------------------------
# independent oracle: affine maps as (a, b, c, d, e, f) meaning
#   x' = a x + c y + e ; y' = b x + d y + f
# --------------------------------------------------------------------------
I6 = (1.0, 0.0, 0.0, 1.0, 0.0, 0.0)


def compose(A, B):
    """A o B : B is applied to the point first, then A (column-vector product A.B)."""
    a1, b1, c1, d1, e1, f1 = A
    a2, b2, c2, d2, e2, f2 = B
    return (
        a1 * a2 + c1 * b2,
        b1 * a2 + d1 * b2,
        a1 * c2 + c1 * d2,
        b1 * c2 + d1 * d2,
        a1 * e2 + c1 * f2 + e1,
        b1 * e2 + d1 * f2 + f1,
    )


def apply(M, p):
    a, b, c, d, e, f = M
    return (a * p[0] + c * p[1] + e, b * p[0] + d * p[1] + f)


def o_translate(tx, ty=0.0):
    return (1.0, 0.0, 0.0, 1.0, tx, ty)


def o_scale(sx, sy=None):
    if sy is None:
        sy = sx
    return (sx, 0.0, 0.0, sy, 0.0, 0.0)


def o_rotate(rad, cx=0.0, cy=0.0):
    c, s = math.cos(rad), math.sin(rad)
    R = (c, s, -s, c, 0.0, 0.0)
    return compose(o_translate(cx, cy), compose(R, o_translate(-cx, -cy)))


def o_skew(ax, ay=0.0):
    return (1.0, math.tan(ay), math.tan(ax), 1.0, 0.0, 0.0)


def o_inverse(M):
    a, b, c, d, e, f = M
    det = a * d - b * c
    return (d / det, -b / det, -c / det, a / det, (c * f - d * e) / det, (b * e - a * f) / det)


def about(M, x, y):
    return compose(o_translate(x, y), compose(M, o_translate(-x, -y)))


def norm(M):
    return max(abs(v) for v in M)


def close6(exp, act, rel=1e-9, floor=1.0):
    scale = max(floor, norm(exp))
    return all(abs(x - y) <= rel * scale for x, y in zip(exp, act))


def lib6(m):
    return tuple(float(m[i]) for i in range(6))


# --------------------------------------------------------------------------
# generators for the transform-string part
# --------------------------------------------------------------------------
RENDER = dict(ppi=96.0, width=640.0, height=360.0, font_size=12.0, font_height=7.0,
              viewbox="0 0 200 50")
VB_W, VB_H = 200.0, 50.0


def length_factor(unit, axis):
    """px per 1 <unit>; axis 0 = x, 1 = y.  CSS Values 3: 1in = 2.54cm = 96px(ppi)."""
    ppi = RENDER["ppi"]
    if unit in ("", "px"):
        return 1.0
    if unit == "pt":
        return 4.0 / 3.0
    if unit == "pc":
        return 16.0
    if unit == "in":
        return ppi
    if unit == "cm":
        return ppi * 0.393701 if LIBCONST else ppi / 2.54
    if unit == "mm":
        return ppi * 0.0393701 if LIBCONST else ppi / 25.4
    if unit == "%":
        return (RENDER["width"] if axis == 0 else RENDER["height"]) / 100.0
    if unit == "em":
        return RENDER["font_size"]
    if unit == "ex":
        return RENDER["font_height"]
    if unit == "vw":
        return VB_W / 100.0
    if unit == "vh":
        return VB_H / 100.0
    if unit == "vmin":
        return min(VB_W, VB_H) / 100.0
    if unit == "vmax":
        return max(VB_W, VB_H) / 100.0
    raise KeyError(unit)


def angle_factor(unit):
    return {"": TAU / 360.0, "deg": TAU / 360.0, "grad": TAU / 400.0, "rad": 1.0, "turn": TAU}[unit]


def rnd_case(rng, s, p=0.35):
    if rng.random() < 0.6:
        return s
    return "".join(ch.upper() if rng.random() < p else ch for ch in s)


SPELL_TAGS = set()
NO_DOTNUM = "--no-dotnum" in sys.argv


def spell_number(rng, v, allow_dot=True):
    """Return (text, exact value of that text)."""
    style = rng.randrange(8)
    if allow_dot and not NO_DOTNUM and rng.random() < 0.04:
        # SVG 1.1 number grammar: fractional-constant ::= digit-sequence "." ; optionally with exponent
        iv = int(round(v)) or 1
        if rng.random() < 0.5:
            SPELL_TAGS.add("num'1.'")
            return "%d." % iv, float(iv)
        SPELL_TAGS.add("num'1.e2'")
        ex = rng.choice([1, 2, -1])
        return "%d.e%d" % (iv, ex), float("%de%d" % (iv, ex))
    if style == 0:
        v = float(round(v))
        t = "%d" % v
    elif style == 1:
        t = "%.3f" % v
    elif style == 2:
        t = "%.2f" % v
        if t.startswith("0."):
            t = t[1:]
        elif t.startswith("-0."):
            t = "-" + t[2:]
    elif style == 3:
        t = "%.3e" % v
    elif style == 4:
        t = "%.2E" % v
    elif style == 5:
        t = "%.6g" % v
        if not t.startswith("-") and rng.random() < 0.5:
            t = "+" + t
    elif style == 6:
        t = repr(float("%.5g" % v))
    else:
        t = "%.1f" % v
    return t, float(t)


def pick_value(rng, kind):
    r = rng.random()
    if kind == "len":
        if r < 0.1:
            return 0.0
        return rng.uniform(-200, 200) if r < 0.8 else rng.uniform(-3, 3)
    if kind == "scale":
        if r < 0.15:
            return rng.choice([1.0, -1.0, 2.0, 0.5])
        v = rng.uniform(0.2, 4.0)
        return v if rng.random() < 0.8 else -v
    if kind == "mat":
        return rng.uniform(-3, 3)
    raise KeyError(kind)


ANGLE_UNITS = ["", "", "deg", "grad", "rad", "turn"]
LEN_UNITS_BASIC = ["", "", "", "px"]
LEN_UNITS_ALL = ["", "px", "pt", "pc", "in", "cm", "mm", "%", "em", "vw", "vh", "vmin", "vmax", "ex"]


def gen_angle(rng, skew=False):
    """Return (text, radians)."""
    unit = rng.choice(ANGLE_UNITS)
    if skew:
        deg = rng.uniform(-75, 75)
    else:
        deg = rng.choice([rng.uniform(-720, 720), rng.uniform(-180, 180), 90.0, 45.0, 180.0, -90.0, 30.0])
    v = deg * (TAU / 360.0) / angle_factor(unit)
    t, val = spell_number(rng, v, allow_dot=(unit == ""))  # "1.deg" is in neither grammar
    if skew:
        # keep away from the tangent poles after rounding of the spelling
        rad = val * angle_factor(unit)
        if abs(math.cos(rad)) < 0.2:
            return gen_angle(rng, skew)
    return t + rnd_case(rng, unit), val * angle_factor(unit)


def gen_length(rng, axis, units):
    unit = rng.choice(units)
    px = pick_value(rng, "len")
    v = px / length_factor(unit, axis)
    t, val = spell_number(rng, v, allow_dot=(unit == ""))
    if unit == "em" and ("e" in t or "E" in t):
        t = "%.2f" % val
        val = float(t)
    return t + rnd_case(rng, unit), val * length_factor(unit, axis), unit


def opt(name, default=None):
    for a in sys.argv[1:]:
        if a.startswith("--%s=" % name):
            return a.split("=", 1)[1]
    return default


NO_SKEW1 = "--no-skew1" in sys.argv
UNITS_OPT = opt("units")


def join_args(rng, args):
    out = args[0]
    for a in args[1:]:
        k = rng.randrange(7)
        if k == 0:
            sep = ","
        elif k == 1:
            sep = " "
        elif k == 2:
            sep = ", "
        elif k == 3:
            sep = " , "
        elif k == 4:
            sep = "\t"
        elif k == 5:
            sep = "\n "
        else:
            # a sign or a leading '.' after a number that already has a '.' separates by itself
            if a[0] in "+-":
                sep = ""
            else:
                sep = " "
        out += sep + a
    return out


def gen_function(rng, units, feature_log):
    """Return (text, oracle matrix)."""
    name = rng.choice(
        ["matrix", "translate", "translate", "translateX", "translateY", "scale", "scale", "scaleX",
         "scaleY", "rotate", "rotate", "skew", "skewX", "skewY"]
    )
    args = []
    if name == "matrix":
        vals = []
        for i in range(6):
            t, v = spell_number(rng, pick_value(rng, "mat") if i < 4 else pick_value(rng, "len"))
            args.append(t)
            vals.append(v)
        M = tuple(vals)
    elif name == "translate":
        t, tx, u1 = gen_length(rng, 0, units)
        feature_log.add("u:" + u1)
        args.append(t)
        if rng.random() < 0.4:
            M = o_translate(tx, 0.0)
            feature_log.add("translate/1")
        else:
            t, ty, u2 = gen_length(rng, 1, units)
            feature_log.add("u:" + u2)
            args.append(t)
            M = o_translate(tx, ty)
    elif name == "translateX":
        t, tx, u1 = gen_length(rng, 0, units)
        feature_log.add("u:" + u1)
        args.append(t)
        M = o_translate(tx, 0.0)
    elif name == "translateY":
        t, ty, u2 = gen_length(rng, 1, units)
        feature_log.add("u:" + u2)
        args.append(t)
        M = o_translate(0.0, ty)
    elif name == "scale":
        t, sx = spell_number(rng, pick_value(rng, "scale"))
        args.append(t)
        if rng.random() < 0.4:
            M = o_scale(sx)
            feature_log.add("scale/1")
        else:
            t, sy = spell_number(rng, pick_value(rng, "scale"))
            args.append(t)
            M = o_scale(sx, sy)
    elif name == "scaleX":
        t, sx = spell_number(rng, pick_value(rng, "scale"))
        args.append(t)
        M = o_scale(sx, 1.0)
    elif name == "scaleY":
        t, sy = spell_number(rng, pick_value(rng, "scale"))
        args.append(t)
        M = o_scale(1.0, sy)
    elif name == "rotate":
        t, rad = gen_angle(rng)
        args.append(t)
        if rng.random() < 0.5:
            M = o_rotate(rad)
        else:
            # SVG 1.1: rotate(<angle> <cx> <cy>), cx cy are user-unit numbers
            t1, cx, _ = gen_length(rng, 0, LEN_UNITS_BASIC)
            t2, cy, _ = gen_length(rng, 1, LEN_UNITS_BASIC)
            args += [t1, t2]
            M = o_rotate(rad, cx, cy)
            feature_log.add("rotate/3")
    elif name == "skew":
        t, ax = gen_angle(rng, skew=True)
        args.append(t)
        if rng.random() < 0.4 and not NO_SKEW1:
            M = o_skew(ax, 0.0)  # CSS: skew(ax) == skew(ax, 0)
            feature_log.add("skew/1")
        else:
            t, ay = gen_angle(rng, skew=True)
            args.append(t)
            M = o_skew(ax, ay)
    elif name == "skewX":
        t, ax = gen_angle(rng, skew=True)
        args.append(t)
        M = o_skew(ax, 0.0)
    else:
        t, ay = gen_angle(rng, skew=True)
        args.append(t)
        M = o_skew(0.0, ay)
    feature_log.add(name)
    pad_l = rng.choice(["", "", " ", "\n"])
    pad_r = rng.choice(["", "", " ", "\t"])
    gap = rng.choice(["", "", "", " "])
    text = "%s%s(%s%s%s)" % (rnd_case(rng, name), gap, pad_l, join_args(rng, args), pad_r)
    return text, M


def gen_transform_list(rng, units):
    n = rng.choice([1, 1, 2, 2, 3, 3, 4, 5, 6, 7, 8])
    feats = set()
    SPELL_TAGS.clear()
    parts, mats = [], []
    for _ in range(n):
        t, M = gen_function(rng, units, feats)
        parts.append(t)
        mats.append(M)
    text = parts[0]
    for p in parts[1:]:
        text += rng.choice([" ", " ", ", ", ",", "  ", "\n", ""]) + p
    if rng.random() < 0.2:
        text = " " + text + " "
    expected = I6
    for M in mats:
        expected = compose(expected, M)  # F1.F2...Fn, right-most applied first
    feats |= SPELL_TAGS
    return text, expected, feats


# --------------------------------------------------------------------------
# checks
# --------------------------------------------------------------------------
failures = collections.OrderedDict()
counts = collections.Counter()


def fail(kind, repro, expected, actual):
    counts["FAIL " + kind] += 1
    lst = failures.setdefault(kind, [])
    if len(lst) < 6:
        lst.append((repro, expected, actual))


def check_string(rng, units, tag):
    text, expected, feats = gen_transform_list(rng, units)
    counts["cases " + tag] += 1
    try:
        m = Matrix(text, **RENDER)
        actual = lib6(m)
    except Exception as ex:  # noqa
        fail("%s: exception %s" % (tag, type(ex).__name__), "Matrix(%r, **RENDER)" % text, expected, repr(ex))
        return
    if not close6(expected, actual):
        sub = classify_string(text, feats)
        fail("%s: value %s" % (tag, sub), "Matrix(%r, **RENDER)" % text, expected, actual)
        return
    # the same list must act on a point like the successive functions, right-most first
    p = (rng.uniform(-50, 50), rng.uniform(-50, 50))
    q = Point(p[0], p[1]) * m
    e = apply(expected, p)
    if not (abs(q.x - e[0]) <= 1e-9 * max(1, norm(expected) * 50) and abs(q.y - e[1]) <= 1e-9 * max(1, norm(expected) * 50)):
        fail("%s: point application" % tag, "Point%r * Matrix(%r)" % (p, text), e, (q.x, q.y))


def classify_string(text, feats):
    keys = [f[2:] for f in feats if f.startswith("u:") and f[2:] not in ("", "px")]
    if "skew/1" in feats:
        keys.append("skew/1")
    keys += [f for f in feats if f.startswith("num")]
    return "[" + ",".join(sorted(set(keys))) + "]"


def rnd_matrix6(rng):
    while True:
        style = rng.randrange(4)
        if style == 0:
            v = [rng.uniform(-5, 5) for _ in range(4)]
        elif style == 1:
            v = [rng.uniform(-1, 1) * 10 ** rng.uniform(-3, 3) for _ in range(4)]
        elif style == 2:
            a = rng.uniform(0, TAU)
            s = rng.uniform(0.1, 10)
            v = [s * math.cos(a), s * math.sin(a), -s * math.sin(a), s * math.cos(a)]
        else:
            v = [float(rng.randint(-4, 4)) for _ in range(4)]
        det = v[0] * v[3] - v[1] * v[2]
        size = max(abs(x) for x in v) or 1.0
        if abs(det) > 0.05 * size * size:
            break
    e = rng.choice([0.0, rng.uniform(-100, 100), rng.uniform(-1e4, 1e4)])
    f = rng.choice([0.0, rng.uniform(-100, 100), rng.uniform(-1e4, 1e4)])
    return tuple(v) + (e, f)


def rnd_point(rng):
    return (rng.choice([0.0, rng.uniform(-100, 100)]), rng.choice([0.0, rng.uniform(-100, 100)]))


def cmp_alg(kind, repro, expected, actual, rel=1e-9, floor=1.0):
    if not close6(expected, actual, rel=rel, floor=floor):
        fail(kind, repro, expected, actual)
        return False
    return True


def check_algebra(rng):
    counts["cases algebra"] += 1
    A6, B6, C6 = rnd_matrix6(rng), rnd_matrix6(rng), rnd_matrix6(rng)
    p = rnd_point(rng)
    A, B = Matrix(*A6), Matrix(*B6)
    # constructor variants
    cmp_alg("ctor: Matrix(*6)", "Matrix(*%r)" % (A6,), A6, lib6(A))
    cmp_alg("ctor: Matrix(tuple)", "Matrix(%r)" % (A6,), A6, lib6(Matrix(A6)))
    cmp_alg("ctor: Matrix(Matrix)", "Matrix(Matrix(*%r))" % (A6,), A6, lib6(Matrix(A)))
    # product: A*B = first A then B  (so in column convention B.A)
    AB = compose(B6, A6)
    prod = A * B
    sc = max(1.0, norm(A6) * norm(B6))
    cmp_alg("product A*B", "Matrix(*%r) * Matrix(*%r)" % (A6, B6), AB, lib6(prod), floor=sc)
    cmp_alg("product A@B", "A @ B", AB, lib6(A @ B), floor=sc)
    cmp_alg("operands untouched by *", "A after A*B", A6, lib6(A))
    cmp_alg("operands untouched by *", "B after A*B", B6, lib6(B))
    m = Matrix(A)
    m *= B
    cmp_alg("product A*=B", "A *= B", AB, lib6(m), floor=sc)
    m = Matrix(A)
    m @= B
    cmp_alg("product A@=B", "A @= B", AB, lib6(m), floor=sc)
    m = Matrix(A)
    m *= m
    cmp_alg("product A*=A", "A *= A", compose(A6, A6), lib6(m), floor=max(1.0, norm(A6) ** 2))
    # associativity with points
    pa = Point(*p) * A
    pab1 = pa * B
    pab2 = Point(*p) * prod
    e = apply(B6, apply(A6, p))
    psc = max(1.0, sc * max(1.0, abs(p[0]), abs(p[1])), norm(AB))
    if max(abs(pab1.x - e[0]), abs(pab1.y - e[1])) > 1e-9 * psc:
        fail("point (p*A)*B", "Point%r * Matrix(*%r) * Matrix(*%r)" % (p, A6, B6), e, (pab1.x, pab1.y))
    if max(abs(pab2.x - e[0]), abs(pab2.y - e[1])) > 1e-9 * psc:
        fail("point p*(A*B)", "Point%r * (Matrix(*%r) * Matrix(*%r))" % (p, A6, B6), e, (pab2.x, pab2.y))
    # other point application entry points
    q = Point(*p)
    q *= A
    e1 = apply(A6, p)
    if max(abs(q.x - e1[0]), abs(q.y - e1[1])) > 1e-9 * psc:
        fail("point p*=A", "p=Point%r; p*=Matrix(*%r)" % (p, A6), e1, (q.x, q.y))
    q = A.point_in_matrix_space(p)
    if max(abs(q.x - e1[0]), abs(q.y - e1[1])) > 1e-9 * psc:
        fail("point_in_matrix_space", "Matrix(*%r).point_in_matrix_space(%r)" % (A6, p), e1, (q.x, q.y))
    v = [p[0], p[1]]
    A.transform_point(v)
    if max(abs(v[0] - e1[0]), abs(v[1] - e1[1])) > 1e-9 * psc:
        fail("transform_point", "Matrix(*%r).transform_point(%r)" % (A6, list(p)), e1, tuple(v))
    v = [p[0], p[1]]
    A.transform_vector(v)
    e2 = (A6[0] * p[0] + A6[2] * p[1], A6[1] * p[0] + A6[3] * p[1])
    if max(abs(v[0] - e2[0]), abs(v[1] - e2[1])) > 1e-9 * psc:
        fail("transform_vector", "Matrix(*%r).transform_vector(%r)" % (A6, list(p)), e2, tuple(v))
    q = A.point_in_inverse_space(p)
    e3 = apply(o_inverse(A6), p)
    isc = max(1.0, norm(o_inverse(A6)) * max(1.0, abs(p[0]), abs(p[1]), abs(A6[4]), abs(A6[5])))
    if max(abs(q.x - e3[0]), abs(q.y - e3[1])) > 1e-8 * isc:
        fail("point_in_inverse_space", "Matrix(*%r).point_in_inverse_space(%r)" % (A6, p), e3, (q.x, q.y))
    # inverse
    inv_e = o_inverse(A6)
    inv = ~A
    isc6 = max(1.0, norm(inv_e))
    cmp_alg("inverse ~A", "~Matrix(*%r)" % (A6,), inv_e, lib6(inv), rel=1e-8, floor=isc6)
    cmp_alg("~ leaves operand", "A after ~A", A6, lib6(A))
    # two-sided: conditioning-aware tolerance
    cond = max(1.0, norm(A6) * norm(inv_e))
    cmp_alg("~A*A == I", "~A * A, A=Matrix(*%r)" % (A6,), I6, lib6(inv * A), rel=1e-9 * cond)
    cmp_alg("A*~A == I", "A * ~A, A=Matrix(*%r)" % (A6,), I6, lib6(A * inv), rel=1e-9 * cond)
    m = Matrix(A)
    r = m.inverse()
    cmp_alg("inverse() in place", "Matrix(*%r).inverse()" % (A6,), inv_e, lib6(m), rel=1e-8, floor=isc6)
    if r is not m:
        fail("inverse() returns self", "m.inverse() is m", True, False)
    # identity neutral
    cmp_alg("I*A", "Matrix() * A", A6, lib6(Matrix() * A))
    cmp_alg("A*I", "A * Matrix()", A6, lib6(A * Matrix()))
    cmp_alg("identity()*A", "Matrix.identity() * A", A6, lib6(Matrix.identity() * A))
    if not Matrix().is_identity() or not Matrix.identity().is_identity():
        fail("is_identity", "Matrix().is_identity()", True, False)
    # string operand
    cmp_alg("A * str", "A * 'translate(3,4)'", compose(o_translate(3, 4), A6), lib6(A * "translate(3,4)"))
    # determinant
    det_e = A6[0] * A6[3] - A6[1] * A6[2]
    if abs(A.determinant - det_e) > 1e-9 * max(1.0, abs(det_e)):
        fail("determinant", "Matrix(*%r).determinant" % (A6,), det_e, A.determinant)
    # vector()
    cmp_alg("vector()", "A.vector()", A6[:4] + (0.0, 0.0), lib6(A.vector()))

    # pre_/post_ operations and elementary constructors
    ang = rng.choice([rng.uniform(-7, 7), TAU / 4, TAU / 2, 0.3])
    ska, skb = rng.uniform(-1.2, 1.2), rng.uniform(-1.2, 1.2)
    sx, sy = pick_value(rng, "scale"), pick_value(rng, "scale")
    tx, ty = pick_value(rng, "len"), pick_value(rng, "len")
    centre_kind = rng.randrange(6)
    if centre_kind == 0:
        cx, cy = 0.0, 0.0
    elif centre_kind == 1:
        cx, cy = rng.uniform(-50, 50), 0.0
    elif centre_kind == 2:
        cx, cy = 0.0, rng.uniform(-50, 50)
    else:
        cx, cy = rng.uniform(-50, 50), rng.uniform(-50, 50)
    elem = [
        ("scale", (sx, sy, cx, cy), about(o_scale(sx, sy), cx, cy)),
        ("scale", (sx, sy), o_scale(sx, sy)),
        ("scale", (sx,), o_scale(sx, sx)),
        ("scale", (sx, None, cx, cy), about(o_scale(sx, sx), cx, cy)),
        ("scale_x", (sx, cx, cy), about(o_scale(sx, 1.0), cx, cy)),
        ("scale_x", (sx,), o_scale(sx, 1.0)),
        ("scale_y", (sy, cx, cy), about(o_scale(1.0, sy), cx, cy)),
        ("scale_y", (sy,), o_scale(1.0, sy)),
        ("translate", (tx, ty), o_translate(tx, ty)),
        ("translate", (tx,), o_translate(tx, 0.0)),
        ("translate_x", (tx,), o_translate(tx, 0.0)),
        ("translate_y", (ty,), o_translate(0.0, ty)),
        ("rotate", (ang,), o_rotate(ang)),
        ("rotate", (ang, cx, cy), o_rotate(ang, cx, cy)),
        ("rotate", (ang, cx), o_rotate(ang, cx, 0.0)),
        ("rotate", (ang, None, cy), o_rotate(ang, 0.0, cy)),
        ("rotate", (Angle.degrees(math.degrees(ang)), cx, cy), o_rotate(ang, cx, cy)),
        ("skew", (ska, skb), o_skew(ska, skb)),
        ("skew", (ska, skb, cx, cy), about(o_skew(ska, skb), cx, cy)),
        ("skew", (ska,), o_skew(ska, 0.0)),
        ("skew_x", (ska,), o_skew(ska, 0.0)),
        ("skew_x", (ska, cx, cy), about(o_skew(ska, 0.0), cx, cy)),
        ("skew_y", (skb,), o_skew(0.0, skb)),
        ("skew_y", (skb, cx, cy), about(o_skew(0.0, skb), cx, cy)),
        ("cat", C6, C6),
    ]
    for name, args, E in elem:
        sc2 = max(1.0, norm(A6) * max(1.0, norm(E)))
        # post_: M then E   => E.M
        m = Matrix(A)
        getattr(m, "post_" + name)(*args)
        cmp_alg("post_%s%s" % (name, "/%d" % len(args)), "m=Matrix(*%r); m.post_%s(*%r)" % (A6, name, args),
                compose(E, A6), lib6(m), floor=sc2)
        # pre_: E then M    => M.E
        m = Matrix(A)
        getattr(m, "pre_" + name)(*args)
        cmp_alg("pre_%s%s" % (name, "/%d" % len(args)), "m=Matrix(*%r); m.pre_%s(*%r)" % (A6, name, args),
                compose(A6, E), lib6(m), floor=sc2)
    # elementary constructors (class methods)
    ctor = [
        ("scale", (sx, sy), o_scale(sx, sy)),
        ("scale", (sx,), o_scale(sx, sx)),
        ("scale_x", (sx,), o_scale(sx, 1.0)),
        ("scale_y", (sy,), o_scale(1.0, sy)),
        ("translate", (tx, ty), o_translate(tx, ty)),
        ("translate", (tx,), o_translate(tx, 0.0)),
        ("translate_x", (tx,), o_translate(tx, 0.0)),
        ("translate_y", (ty,), o_translate(0.0, ty)),
        ("rotate", (ang,), o_rotate(ang)),
        ("skew", (ska, skb), o_skew(ska, skb)),
        ("skew", (ska,), o_skew(ska, 0.0)),
        ("skew_x", (ska,), o_skew(ska, 0.0)),
        ("skew_y", (skb,), o_skew(0.0, skb)),
    ]
    for name, args, E in ctor:
        cmp_alg("Matrix.%s" % name, "Matrix.%s(*%r)" % (name, args), E, lib6(getattr(Matrix, name)(*args)),
                floor=max(1.0, norm(E)))
    # Angle constructors against the units table
    d = rng.uniform(-720, 720)
    for txt, rad in (
        ("%rdeg" % d, d * TAU / 360), ("%r" % d, d * TAU / 360), ("%rgrad" % d, d * TAU / 400),
        ("%rrad" % d, d), ("%rturn" % d, d * TAU), ("%rDeg" % d, d * TAU / 360), ("%rTURN" % d, d * TAU),
    ):
        a = Angle.parse(txt)
        if abs(float(a) - rad) > 1e-9 * max(1.0, abs(rad)):
            fail("Angle.parse", "Angle.parse(%r)" % txt, rad, float(a))


def main():
    seed = int(sys.argv[1]) if len(sys.argv) > 1 else 0
    n = int(sys.argv[2]) if len(sys.argv) > 2 else 2000
    rng = random.Random(seed)
    for i in range(n):
        check_string(rng, LEN_UNITS_BASIC, "string/user-units")
        check_string(rng, UNITS_OPT.split(",") if UNITS_OPT is not None else LEN_UNITS_ALL, "string/all-units")
        check_algebra(rng)
    print("seed=%d n=%d libconst=%s" % (seed, n, LIBCONST))
    for k in sorted(counts):
        print("  %-60s %d" % (k, counts[k]))
    if not QUIET:
        for kind, lst in failures.items():
            print("== %s" % kind)
            for repro, e, a in lst[:3]:
                print("   %s\n      expected %r\n      actual   %r" % (repro, e, a))
    return 1 if failures else 0


if __name__ == "__main__":
    sys.exit(main())
