"""
C01 harness: random grammar-conforming path data  vs  independent reference interpreter.

usage: /venv/bin/python harness_C01.py SEED N [profile]

profiles (cycled per case when none is given):
  plain      every command / every spelling, no arcs with zero radius, SVG2 'z' completion of the
             final pair only
  arcs       arc heavy, packed flags, negative and zero radii
  zc         frequent segment-completing z (incl. more than one missing pair)
  dot        SVG 1.1 trailing-dot numbers ('1.' , '1.e2') allowed
  small      tiny integer coordinates (collisions: start==end, coincident controls, zero offsets)
"""
import sys
import os
import random
import collections
import traceback

HERE = os.path.dirname(os.path.abspath(__file__))
sys.path.insert(0, HERE)
from svgelements import Path  # noqa: E402
import pathoracle as po  # noqa: E402

PROFILES = {
    "plain": dict(zcomplete=0.06),
    "arcs": dict(zcomplete=0.05, zero_radius=0.12, neg_radius=True, arc_heavy=True),
    "zc": dict(zcomplete=0.5, zc_deep=True),
    "dot": dict(zcomplete=0.05, trailing_dot=True),
    "small": dict(zcomplete=0.1, small=True, zero_radius=0.05),
}
ORDER = ["plain", "arcs", "zc", "small", "plain", "dot", "arcs", "small"]


def one_case(rng, profile):
    opts = PROFILES[profile]
    items = po.gen_items(rng, opts=opts)
    if opts.get("arc_heavy"):
        # replace about half of the non-move items by arcs
        for k, it in enumerate(items[1:], 1):
            if it.letter.upper() in "LHV" and rng.random() < 0.6:
                L = rng.choice("Aa")
                ng = rng.randint(1, 3)
                items[k] = po.Item(L, [po.gen_group(rng, L, opts) for _ in range(ng)])
                items[k].explicit = [True] + [rng.random() < 0.25 for _ in range(ng - 1)]
    d = po.render(rng, items, opts)
    ref = po.reference(items)
    return items, d, ref


def run(seed, n, profile=None, verbose=True):
    rng = random.Random(seed)
    buckets = collections.defaultdict(list)
    per_profile = collections.Counter()
    fails = 0
    for case in range(n):
        prof = profile or ORDER[case % len(ORDER)]
        per_profile[prof] += 1
        items, d, ref = one_case(rng, prof)
        try:
            p = Path(d)
            probs = po.compare(list(p), ref)
        except Exception as e:
            tb = traceback.extract_tb(sys.exc_info()[2])[-1]
            probs = ["EXC %s at line %d: %s" % (type(e).__name__, tb.lineno, e)]
        if probs:
            fails += 1
            sig = prof + " | " + po.signature(probs[0])
            if probs[0].startswith("EXC"):
                sig = prof + " | " + probs[0].split(":")[0]
            buckets[sig].append((len(d), d, probs[0]))
    if verbose:
        print("seed=%d cases=%d failing=%d  per profile %s" % (seed, n, fails, dict(per_profile)))
        for sig, lst in sorted(buckets.items(), key=lambda kv: -len(kv[1])):
            lst.sort()
            print("\n== %s : %d cases" % (sig, len(lst)))
            for ln, d, prob in lst[:3]:
                print("   d=%r\n      %s" % (d, prob))
    return buckets


def run_triples(seed):
    """deterministic sweep: every ordered triple of the 20 command letters after an initial move,
    two random spellings each."""
    rng = random.Random(seed)
    letters = "MmLlHhVvCcSsQqTtAaZz"
    opts = dict(small=True)
    bad = collections.defaultdict(list)
    n = 0
    for a in letters:
        for b in letters:
            for c in letters:
                for rep in range(2):
                    items = [po.Item("M" if rep else "m", [po.gen_group(rng, "M", opts)])]
                    for L in (a, b, c):
                        if L in "Zz":
                            items.append(po.Item(L, []))
                        else:
                            ng = rng.randint(1, 2)
                            items.append(po.Item(L, [po.gen_group(rng, L, opts) for _ in range(ng)]))
                    for it in items:
                        it.explicit = [True] + [False for _ in it.groups[1:]]
                    d = po.render(rng, items, opts)
                    ref = po.reference(items)
                    n += 1
                    try:
                        probs = po.compare(list(Path(d)), ref)
                    except Exception as e:
                        probs = ["EXC %r" % e]
                    if probs:
                        bad[a + b + c].append((d, probs[0]))
    print("triples: %d cases, %d failing triples" % (n, len(bad)))
    for k, v in list(bad.items())[:10]:
        print(k, v[0])


if __name__ == "__main__":
    if len(sys.argv) > 3 and sys.argv[3] == "triples":
        run_triples(int(sys.argv[1]))
        sys.exit(0)
    seed = int(sys.argv[1]) if len(sys.argv) > 1 else 1
    n = int(sys.argv[2]) if len(sys.argv) > 2 else 2000
    prof = sys.argv[3] if len(sys.argv) > 3 else None
    run(seed, n, prof)
