"""Random-input harness for property C19 (arc -> Bezier conversion).

usage: /venv/bin/python harness_C19.py SEED N [-v] [--zero-radius] [--no-moveless-close]
  --zero-radius        also embed zero-radius arcs (C05's straight line; outside C19's quantified domain)
  --no-moveless-close  do not generate Close in path fragments that begin without a Move

Oracle: the arc's ellipse is known from the generator (centre, radii, rotation, start
parameter, sweep are chosen by the harness, or computed by an own F.6 implementation for
endpoint-form arcs). The Bezier curves returned by the library are evaluated with an own
de Casteljau evaluation from their control points, sampled densely, and each sample's
true distance to the ellipse is computed by an own point-to-ellipse routine.
"""
import os
import sys
import math
import random
from math import sin, cos, sqrt, atan2, pi, tau, hypot, ceil

sys.path.insert(0, os.path.dirname(os.path.abspath(__file__)))
from svgelements import Arc, Path, Point, Move, Line, Close, QuadraticBezier, CubicBezier, Matrix  # noqa: E402

ZERO_RADIUS = "--zero-radius" in sys.argv      # include zero-radius arcs (C05's straight line) in paths; tagged separately
MOVELESS_CLOSE = "--no-moveless-close" not in sys.argv   # include Close in path fragments that do not begin with a Move; tagged separately
CUBIC_BOUND = 1e-3
QUAD_BOUND = 1e-2
SAMPLES = 24  # per Bezier curve


# ------------------------------------------------------------------ geometry oracle
class Ellipse:
    def __init__(self, cx, cy, rx, ry, phi):
        self.cx, self.cy, self.rx, self.ry, self.phi = cx, cy, rx, ry, phi
        self.c, self.s = cos(phi), sin(phi)

    def at(self, t):
        ex, ey = self.rx * cos(t), self.ry * sin(t)
        return (self.cx + self.c * ex - self.s * ey, self.cy + self.s * ex + self.c * ey)

    def local(self, p):
        X, Y = p[0] - self.cx, p[1] - self.cy
        return (self.c * X + self.s * Y, -self.s * X + self.c * Y)

    def param(self, p):
        x, y = self.local(p)
        return atan2(y / self.ry, x / self.rx)

    def distance(self, p):
        """True Euclidean distance of p to the ellipse: Newton on the parameter from the radial guess;
        Eberly's bisection when Newton does not settle."""
        x, y = self.local(p)
        a, b = self.rx, self.ry
        t = atan2(y / b, x / a)
        ok = False
        for _ in range(12):
            ct, st = cos(t), sin(t)
            ex, ey = a * ct, b * st
            # f = d/dt of half squared distance
            f = (ex - x) * (-a * st) + (ey - y) * (b * ct)
            fp = (a * st) ** 2 + (b * ct) ** 2 + (ex - x) * (-a * ct) + (ey - y) * (-b * st)
            if fp <= 0:
                break
            dt = f / fp
            t -= dt
            if abs(dt) < 1e-13:
                ok = True
                break
        if ok:
            d = hypot(a * cos(t) - x, b * sin(t) - y)
            if d < 0.05 * min(a, b):
                return d
        return self.distance_eberly(p)

    def distance_eberly(self, p):
        x, y = self.local(p)
        x, y = abs(x), abs(y)
        a, b = self.rx, self.ry
        if a < b:
            a, b, x, y = b, a, y, x
        # now a >= b
        if y > 0:
            if x > 0:
                z0, z1 = x / a, y / b
                g = z0 * z0 + z1 * z1 - 1
                if g == 0:
                    return 0.0
                r0 = (a / b) ** 2
                n0 = r0 * z0
                s0, s1 = z1 - 1, (hypot(n0, z1) - 1 if g > 0 else 0.0)
                sbar = 0.0
                for _ in range(200):
                    sbar = (s0 + s1) / 2
                    if sbar == s0 or sbar == s1:
                        break
                    ratio0, ratio1 = n0 / (sbar + r0), z1 / (sbar + 1)
                    gg = ratio0 * ratio0 + ratio1 * ratio1 - 1
                    if gg > 0:
                        s0 = sbar
                    elif gg < 0:
                        s1 = sbar
                    else:
                        break
                px, py = r0 * x / (sbar + r0), y / (sbar + 1)
                return hypot(px - x, py - y)
            return abs(y - b)
        numer0 = a * x
        denom0 = a * a - b * b
        if numer0 < denom0:
            xde0 = numer0 / denom0
            px, py = a * xde0, b * sqrt(max(0.0, 1 - xde0 * xde0))
            return hypot(px - x, py)
        return abs(x - a)


def bez(ctrl, t):
    pts = [tuple(map(float, p)) for p in ctrl]
    while len(pts) > 1:
        pts = [((1 - t) * a[0] + t * b[0], (1 - t) * a[1] + t * b[1]) for a, b in zip(pts, pts[1:])]
    return pts[0]


def controls(seg):
    if isinstance(seg, CubicBezier):
        return [(seg.start.x, seg.start.y), (seg.control1.x, seg.control1.y), (seg.control2.x, seg.control2.y), (seg.end.x, seg.end.y)]
    if isinstance(seg, QuadraticBezier):
        return [(seg.start.x, seg.start.y), (seg.control.x, seg.control.y), (seg.end.x, seg.end.y)]
    raise TypeError(type(seg))


def snapshot(seg):
    """Value snapshot of a segment (all its points)."""
    out = [type(seg).__name__]
    for name in ("start", "control", "control1", "control2", "end", "center", "prx", "pry"):
        v = getattr(seg, name, None)
        out.append(None if v is None else (v.x, v.y))
    out.append(getattr(seg, "sweep", None))
    return tuple(out)


# ----------------------------------------------------------------------- generators
def rcoord(rng):
    k = rng.random()
    if k < 0.15:
        return 0.0
    mag = 10 ** rng.uniform(-3, 5)
    return mag if rng.random() < 0.5 else -mag


def gen_arc(rng):
    """Returns (arc, Ellipse, t0, sweep, description)."""
    cx, cy = rcoord(rng), rcoord(rng)
    rmax = 10 ** rng.uniform(-3, 5)
    ratio = 1.0 if rng.random() < 0.2 else 10 ** rng.uniform(0, 2)
    rx, ry = (rmax, rmax / ratio) if rng.random() < 0.5 else (rmax / ratio, rmax)
    k = rng.random()
    if k < 0.3:
        phi = rng.choice([0, pi / 2, pi, -pi / 2, pi / 4, -pi / 6])
    else:
        phi = rng.uniform(-pi, pi)
    t0 = rng.uniform(-pi, pi) if rng.random() < 0.8 else rng.choice([0, pi / 2, pi, -pi / 2])
    k = rng.random()
    if k < 0.15:
        mag = 10 ** rng.uniform(-3, 0)
    elif k < 0.75:
        mag = rng.uniform(0.001, tau)
    elif k < 0.85:
        mag = rng.choice([pi / 2, pi, tau, tau / 12, tau / 10, tau / 6, 3 * pi / 2])
    else:
        mag = rng.uniform(tau, 3 * tau)
    sweep = mag if rng.random() < 0.5 else -mag
    el = Ellipse(cx, cy, rx, ry, phi)
    mode = rng.choice(["native", "native", "svg", "native_tf", "svg_f6", "native_axis_scale"])
    if mode == "svg_f6":
        # general endpoint form: random end point, radii possibly too small (scaled up, exact half turn);
        # the ellipse comes from the harness's own F.6 implementation (harness_C05.Ref)
        from harness_C05 import Ref
        x1, y1 = cx, cy
        ch = rmax * 10 ** rng.uniform(-1, 1)
        a = rng.uniform(0, tau)
        x2, y2 = x1 + ch * cos(a), y1 + ch * sin(a)
        rot = math.degrees(phi) if rng.random() < 0.7 else rng.choice([0.0, 90.0, -90.0, 180.0, 450.0])
        fa, fs = rng.random() < 0.5, rng.random() < 0.5
        ref = Ref(x1, y1, rx, ry, rot, fa, fs, x2, y2)
        arc = Arc(complex(x1, y1), rx, ry, rot, fa, fs, complex(x2, y2))
        el = Ellipse(ref.cx, ref.cy, ref.rx, ref.ry, math.radians(rot))
        desc = "Arc(%r, %r, %r, %r, %r, %r, %r)" % (complex(x1, y1), rx, ry, rot, fa, fs, complex(x2, y2))
        return arc, el, ref.theta1, ref.dtheta, desc
    if mode == "svg" and abs(sweep) < tau - 1e-3:
        s, e = el.at(t0), el.at(t0 + sweep)
        arc = Arc(complex(*s), rx, ry, math.degrees(phi), abs(sweep) > pi, sweep > 0, complex(*e))
        # the arc's own ellipse may differ marginally (F.6 recomputes the centre): use F.6 results of the harness
        # only through the generator's ellipse; the difference is far below the bounds checked.
        desc = "Arc(%r, %r, %r, %r, %r, %r, %r)" % (complex(*s), rx, ry, math.degrees(phi), abs(sweep) > pi, sweep > 0, complex(*e))
        return arc, el, t0, sweep, desc
    s, e = el.at(t0), el.at(t0 + sweep)
    prx, pry = el.at(0), el.at(pi / 2)
    arc = Arc(Point(*s), Point(*e), Point(cx, cy), Point(*prx), Point(*pry), sweep)
    desc = "Arc(Point%r, Point%r, Point%r, Point%r, Point%r, %r)" % (s, e, (cx, cy), prx, pry, sweep)
    if mode == "native_axis_scale":
        # axis-aligned ellipse under an axis-aligned (possibly mirroring) non-uniform scale: still an exact image
        phi = rng.choice([0.0, pi / 2, pi, -pi / 2])
        el = Ellipse(cx, cy, rx, ry, phi)
        s_, e_ = el.at(t0), el.at(t0 + sweep)
        prx, pry = el.at(0), el.at(pi / 2)
        arc = Arc(Point(*s_), Point(*e_), Point(cx, cy), Point(*prx), Point(*pry), sweep)
        sx = rng.choice([-1, 1]) * rng.choice([1.0, 2.0, 0.5, 3.0])
        sy = rng.choice([-1, 1]) * rng.choice([1.0, 2.0, 0.5, 3.0])
        m = Matrix(sx, 0, 0, sy, 0, 0)
        desc = "Arc(Point%r, Point%r, Point%r, Point%r, Point%r, %r) * Matrix(%r,0,0,%r,0,0)" % (s_, e_, (cx, cy), prx, pry, sweep, sx, sy)
        arc = arc * m
        # image ellipse: local x axis direction (cos phi, sin phi) -> (sx cos phi, sy sin phi)
        horiz = abs(cos(phi)) > 0.5
        nrx = rx * (abs(sx) if horiz else abs(sy))
        nry = ry * (abs(sy) if horiz else abs(sx))
        nphi = atan2(sy * sin(phi), sx * cos(phi))
        # orientation of the local frame: the image of the local y axis against the rotated one
        lyx, lyy = -sin(phi) * sx, cos(phi) * sy
        flip = (lyx * (-sin(nphi)) + lyy * cos(nphi)) < 0
        el = Ellipse(cx * sx, cy * sy, nrx, nry, nphi)
        if flip:
            t0, sweep = -t0, -sweep
        return arc, el, t0, sweep, desc
    if mode == "native_tf":
        # similarity transform (rotation, uniform scale, translation, optional mirror): exact image for arcs
        ang = rng.uniform(-pi, pi)
        sc = 10 ** rng.uniform(-1, 1)
        mirror = rng.random() < 0.5
        tx, ty = rng.uniform(-100, 100), rng.uniform(-100, 100)
        ca, sa = sc * cos(ang), sc * sin(ang)
        if mirror:
            m = Matrix(ca, sa, sa, -ca, tx, ty)
        else:
            m = Matrix(ca, sa, -sa, ca, tx, ty)
        arc = arc * m
        desc += " * Matrix(%r,%r,%r,%r,%r,%r)" % (m.a, m.b, m.c, m.d, m.e, m.f)

        def tf(p):
            return (m.a * p[0] + m.c * p[1] + m.e, m.b * p[0] + m.d * p[1] + m.f)

        ncx, ncy = tf((cx, cy))
        if mirror:
            # image of (c + R(phi) (rx cos t, ry sin t)): mirror about x then rotate by ang
            el = Ellipse(ncx, ncy, rx * sc, ry * sc, ang - phi)
            t0, sweep = -t0, -sweep
        else:
            el = Ellipse(ncx, ncy, rx * sc, ry * sc, ang + phi)
    return arc, el, t0, sweep, desc


def gen_other(rng, cur):
    """A random non-arc segment continuing at cur."""
    def pt():
        return Point(cur.x + rng.uniform(-50, 50), cur.y + rng.uniform(-50, 50))
    k = rng.random()
    if k < 0.5:
        return Line(Point(cur), pt())
    if k < 0.75:
        return QuadraticBezier(Point(cur), pt(), pt())
    return CubicBezier(Point(cur), pt(), pt(), pt())


# --------------------------------------------------------------------------- checks
def check_chain(curves, arc_start, arc_end, el, t0, sweep, kind, nslices_expected, default, fails, desc, rmax, measure=True):
    def bad(tag, msg):
        fails.append((tag, desc + " :: " + msg))

    if nslices_expected is not None and len(curves) != nslices_expected:
        bad("%s-slice-count" % kind, "got %d curves expected %d" % (len(curves), nslices_expected))
    if not curves:
        return None
    want = CubicBezier if kind == "cubic" else QuadraticBezier
    for c in curves:
        if type(c) is not want:
            bad("%s-type" % kind, "got %s" % type(c).__name__)
            return None
    f, l = curves[0], curves[-1]
    if (f.start.x, f.start.y) != arc_start:
        bad("%s-start" % kind, "chain starts at %r, arc starts at %r" % ((f.start.x, f.start.y), arc_start))
    if (l.end.x, l.end.y) != arc_end:
        bad("%s-end" % kind, "chain ends at %r, arc ends at %r" % ((l.end.x, l.end.y), arc_end))
    for i, (a, b) in enumerate(zip(curves, curves[1:])):
        if (a.end.x, a.end.y) != (b.start.x, b.start.y):
            bad("%s-gap" % kind, "curve %d ends %r, curve %d starts %r" % (i, (a.end.x, a.end.y), i + 1, (b.start.x, b.start.y)))
            break
    if not measure:
        return None
    # distance to ellipse
    worst = 0.0
    worst_at = None
    n = len(curves)
    worst_track = 0.0
    for i, c in enumerate(curves):
        ctrl = controls(c)
        for j in range(SAMPLES + 1):
            u = j / SAMPLES
            p = bez(ctrl, u)
            d = el.distance(p)
            if d > worst:
                worst, worst_at = d, (i, u, p)
            # does the chain trace the arc (and not another part of the ellipse)? compare with the arc point
            # at the same fraction; loose: within a tenth of a slice plus the radial error
            tt = t0 + sweep * (i + u) / n
            q = el.at(tt)
            dd = hypot(p[0] - q[0], p[1] - q[1])
            if dd > worst_track:
                worst_track = dd
    return worst / rmax, worst_at, worst_track / rmax


def arc_case(rng, fails, stats):
    arc, el, t0, sweep, desc = gen_arc(rng)
    rmax = max(el.rx, el.ry)
    a_start, a_end = (arc.start.x, arc.start.y), (arc.end.x, arc.end.y)
    coord_noise = 1e-11 * max(abs(el.cx), abs(el.cy), rmax) / rmax  # rounding of large coordinates, relative to rmax

    def bad(tag, msg):
        fails.append((tag, desc + " :: " + msg))

    for kind, meth, bound in (("cubic", "as_cubic_curves", CUBIC_BOUND), ("quad", "as_quad_curves", QUAD_BOUND)):
        # default subdivision
        try:
            curves = list(getattr(arc, meth)())
        except Exception as e:  # noqa
            bad("%s-exception" % kind, "%s: %s" % (type(e).__name__, e))
            continue
        r = check_chain(curves, a_start, a_end, el, t0, sweep, kind, None, True, fails, desc + " ." + meth + "()", rmax)
        if r is None:
            bad("%s-empty" % kind, "no curves for sweep %r" % sweep)
            continue
        err, at, track = r
        stats[kind] = max(stats.get(kind, 0), err)
        if err > bound + coord_noise:
            bad("%s-bound-default" % kind, "max distance to ellipse %.3g of the larger radius (bound %g) at curve %d u=%.3f point %r; %d curves for sweep %r" % ((err, bound) + at + (len(curves), sweep)))
        slice_angle = abs(sweep) / len(curves)
        if track > 0.1 * slice_angle + 2 * bound + coord_noise:
            bad("%s-not-tracking-arc" % kind, "chain deviates %.3g (rel.) from the arc points at equal fraction" % track)
        # coarser explicit subdivision: no error bound claimed, but endpoints/continuity/count must hold
        ncoarse = rng.choice([1, 2, 3])
        try:
            coarse = list(getattr(arc, meth)(ncoarse))
        except Exception as e:  # noqa
            bad("%s-exception-explicit" % kind, "%s: %s" % (type(e).__name__, e))
            coarse = None
        if coarse is not None:
            check_chain(coarse, a_start, a_end, el, t0, sweep, kind, ncoarse, False, fails, desc + " ." + meth + "(%d)" % ncoarse, rmax, measure=False)
        # finer explicit subdivision: error must not grow
        ndef = len(curves)
        k = rng.choice([2, 3, 4])
        nfine = ndef * k
        try:
            fine = list(getattr(arc, meth)(nfine))
        except Exception as e:  # noqa
            bad("%s-exception-explicit" % kind, "%s: %s" % (type(e).__name__, e))
            continue
        r2 = check_chain(fine, a_start, a_end, el, t0, sweep, kind, nfine, False, fails, desc + " ." + meth + "(%d)" % nfine, rmax)
        if r2 is not None:
            err2 = r2[0]
            if err2 > bound + coord_noise:
                bad("%s-bound-finer" % kind, "finer subdivision (%d) error %.3g exceeds the default bound" % (nfine, err2))
            if err > 1e-6 + 10 * coord_noise and err2 > err * 0.75:  # below 1e-6 the F.6 centre noise (sqrt(eps)) of either side dominates
                bad("%s-not-shrinking" % kind, "error %.3g with %d curves, %.3g with %d curves" % (err, ndef, err2, nfine))


def path_case(rng, fails, stats):
    """Arcs embedded in a path, converted by Path.approximate_arcs_with_*."""
    nseg = rng.randint(1, 7)
    with_move = rng.random() < 0.9
    segs = []
    arcs_info = {}
    cur = Point(rcoord(rng), rcoord(rng))
    if with_move:
        segs.append(Move(None, Point(cur)))
    sub_start = Point(cur)
    descs = []
    for i in range(nseg):
        k = rng.random()
        if k < 0.45:
            arc, el, t0, sweep, desc = gen_arc(rng)
            # translate the arc so that it starts at cur
            dx, dy = cur.x - arc.start.x, cur.y - arc.start.y
            arc = arc * Matrix(1, 0, 0, 1, dx, dy)
            el = Ellipse(el.cx + dx, el.cy + dy, el.rx, el.ry, el.phi)
            desc += " * translate(%r,%r)" % (dx, dy)
            arc.start = Point(cur)
            segs.append(arc)
            arcs_info[id(arc)] = (el, t0, sweep, desc)
            descs.append(desc)
        elif k < 0.5:
            # zero-extent arc (coincident endpoints)
            arc = Arc(Point(cur), 5.0, 3.0, 20.0, rng.random() < 0.5, rng.random() < 0.5, Point(cur))
            segs.append(arc)
            arcs_info[id(arc)] = None
            descs.append("zero-extent arc at %r" % (cur,))
        elif k < 0.53 and ZERO_RADIUS:
            # zero-radius arc: the straight line of C05 (sweep 0 but start != end)
            e = Point(cur.x + rng.uniform(-50, 50), cur.y + rng.uniform(-50, 50))
            arc = Arc(Point(cur), 0.0, 3.0, 20.0, False, True, e)
            segs.append(arc)
            arcs_info[id(arc)] = "zero-radius"
            descs.append("zero-radius arc %r -> %r" % (cur, e))
        elif k < 0.6 and segs and not isinstance(segs[-1], (Move, Close)) and (with_move or MOVELESS_CLOSE):
            if not any(isinstance(sg, Move) for sg in segs):
                # the library's own convention for fragments without a Move: Close returns to the END of the first segment
                sub_start = Point(segs[0].end)
            segs.append(Close(Point(cur), Point(sub_start)))
            if rng.random() < 0.5:
                np_ = Point(rcoord(rng), rcoord(rng))
                segs.append(Move(Point(sub_start), np_))
                sub_start = Point(np_)
        else:
            segs.append(gen_other(rng, cur))
        cur = Point(segs[-1].end)
    if not any(isinstance(s, Arc) for s in segs):
        return
    which = rng.choice(["cubics", "quads"])
    kind = "cubic" if which == "cubics" else "quad"
    bound = CUBIC_BOUND if kind == "cubic" else QUAD_BOUND
    ek = rng.random()
    if ek < 0.5:
        error, args = 0.1, ()
    else:
        error = rng.choice([0.1, 0.05, 0.02, 0.01, 1 / 12.0, 0.0625, 0.003])
        args = (error,)
    path = Path(*segs) if len(segs) != 1 else Path(segs[0])
    pdesc = "Path(%s).approximate_arcs_with_%s%r" % ("; ".join(type(s).__name__ for s in segs), which, args)

    def bad(tag, msg):
        fails.append((tag, pdesc + " :: " + msg + " :: arcs: " + " | ".join(descs)))

    before = [(s, snapshot(s)) for s in path]
    try:
        getattr(path, "approximate_arcs_with_" + which)(*args)
    except Exception as e:  # noqa
        bad("path-%s-exception" % kind, "%s: %s" % (type(e).__name__, e))
        return
    after = list(path)
    original_ids = set(id(sg) for sg, _ in before)
    if any(isinstance(s, Arc) for s in after):
        bad("path-%s-arc-left" % kind, "an Arc is still in the path")
    # walk: align untouched segments and the chains
    j = 0
    zero_radius_dropped = False
    for seg, snap in before:
        if isinstance(seg, Arc):
            info = arcs_info[id(seg)]
            a_start, a_end = snap[1], snap[5]
            if info is None:
                continue  # zero extent: yields no curves
            if info == "zero-radius":
                # C05: this arc is the straight line start->end. Whatever replaces it must still lead from start to end.
                nxt = after[j] if j < len(after) else None
                if nxt is not None and id(nxt) not in original_ids and nxt.start is not None \
                        and (nxt.start.x, nxt.start.y) == a_start and (nxt.end.x, nxt.end.y) == a_end:
                    j += 1  # replaced by something new that leads from start to end
                else:
                    bad("path-%s-zero-radius-line-dropped" % kind, "zero-radius arc %r -> %r vanished" % (a_start, a_end))
                    return  # what follows is pulled back to the arc's start; nothing more to align
                continue
            el, t0, sweep, desc = info
            ratio = abs(sweep) / (tau * error)
            n = int(ceil(ratio))
            allowed = {int(ceil(ratio * (1 - 1e-9))), int(ceil(ratio * (1 + 1e-9)))}  # sweeps at an exact multiple of the slice
            for cand in sorted(allowed):
                if 0 < cand <= len(after) - j and (after[j + cand - 1].end.x, after[j + cand - 1].end.y) == a_end \
                        and id(after[j + cand - 1]) not in original_ids:
                    n = cand
                    break
            chain = after[j:j + n]
            j += n
            rmax = max(el.rx, el.ry)
            coord_noise = 1e-11 * max(abs(el.cx), abs(el.cy), rmax) / rmax
            if len(chain) != n or not all(isinstance(c, (CubicBezier, QuadraticBezier)) for c in chain):
                bad("path-%s-chain-shape" % kind, "expected %d curves for sweep %r, got %s" % (n, sweep, [type(c).__name__ for c in chain]))
                return
            sub = []
            r = check_chain(chain, a_start, a_end, el, t0, sweep, kind, n, error == 0.1, sub, desc, rmax)
            for tag, msg in sub:
                fails.append(("path-" + tag, pdesc + " :: " + msg))
            if r is not None:
                err = r[0]
                # bound at the default setting; finer settings must meet it as well
                if err > bound + coord_noise:
                    bad("path-%s-bound" % kind, "error %.3g > %g (error setting %r) for %s" % (err, bound, error, desc))
        else:
            if j >= len(after):
                bad("path-%s-segment-lost" % kind, "segment %s missing" % (snap,))
                return
            if after[j] is not seg:
                bad("path-%s-rest-replaced" % kind, "segment %d is %r, expected the original %s" % (j, after[j], snap[0]))
            elif snapshot(after[j]) != snap and zero_radius_dropped:
                pass  # consequence of the dropped zero-radius line, already reported
            elif snapshot(after[j]) != snap:
                bad("path-%s-rest-touched%s" % (kind, "" if with_move else "-moveless"), "segment %d changed: before %r after %r" % (j, snap, snapshot(after[j])))
                if not with_move:
                    return  # a retargeted Close drags the start of what follows along: reported once
            j += 1
    if j != len(after):
        bad("path-%s-extra-segments" % kind, "%d segments after, %d accounted for" % (len(after), j))
    # connected
    prev = None
    for i, s in enumerate(after):
        if prev is not None and s.start is not None and prev.end is not None:
            if (s.start.x, s.start.y) != (prev.end.x, prev.end.y):
                bad("path-%s-disconnected" % kind, "segment %d %r starts at %r, previous ends at %r" % (i, type(s).__name__, s.start, prev.end))
                break
        prev = s


def main():
    seed = int(sys.argv[1]) if len(sys.argv) > 1 else 0
    n = int(sys.argv[2]) if len(sys.argv) > 2 else 1000
    verbose = "-v" in sys.argv
    rng = random.Random(seed)
    counts, first, stats = {}, {}, {}
    ncase = {"arc": 0, "path": 0}
    for i in range(n):
        fails = []
        if rng.random() < 0.6:
            ncase["arc"] += 1
            arc_case(rng, fails, stats)
        else:
            ncase["path"] += 1
            path_case(rng, fails, stats)
        seen = set()
        for tag, msg in fails:
            if tag in seen:
                continue
            seen.add(tag)
            counts[tag] = counts.get(tag, 0) + 1
            first.setdefault(tag, msg)
            if verbose:
                print("FAIL", tag, msg)
    print("C19 seed=%d cases=%d (%r) worst default error: %r" % (seed, n, ncase, stats))
    if not counts:
        print("no failures")
    for tag in sorted(counts):
        print("%-30s %6d of %d   first: %s" % (tag, counts[tag], n, first[tag]))


if __name__ == "__main__":
    main()
