# -*- coding: utf-8 -*-
"""
Random SVG document generator + independent geometry oracle, shared by harness_C03.py and harness_C20.py.

Nothing in here imports svgelements.  The oracle evaluates the *semantic model* of the generated document
(not the text), with its own:
  * length/percentage resolution (CSS absolute units: 1in = 96px is NOT assumed; 1in = ppi user units,
    1pt = 4/3 px, 1pc = 16px, 1mm = ppi/25.4, 1cm = ppi/2.54)
  * transform-list composition (elementary 2x3 matrices multiplied numerically)
  * viewport transform following SVG 2 section 8.2 step by step
  * use expansion (transform then translate(x, y), referenced element rendered as child of the use)
  * shape decomposition following SVG 2 chapter 10 (rect incl. rx/ry auto+clamp, circle, ellipse, line, poly*)
  * path data interpretation for M L H V C S Q T Z (absolute and relative)
"""
import math
import random

# ----------------------------------------------------------------------------------------------- matrices
# matrix = (a, b, c, d, e, f):  x' = a x + c y + e ; y' = b x + d y + f


def m_mul(m, n):
    """m * n : n is applied first (n is the inner / later-in-list transform)."""
    a, b, c, d, e, f = m
    A, B, C, D, E, F = n
    return (
        a * A + c * B,
        b * A + d * B,
        a * C + c * D,
        b * C + d * D,
        a * E + c * F + e,
        b * E + d * F + f,
    )


IDENT = (1.0, 0.0, 0.0, 1.0, 0.0, 0.0)


def m_apply(m, p):
    a, b, c, d, e, f = m
    return (a * p[0] + c * p[1] + e, b * p[0] + d * p[1] + f)


def m_translate(tx, ty=0.0):
    return (1.0, 0.0, 0.0, 1.0, tx, ty)


def m_scale(sx, sy=None):
    if sy is None:
        sy = sx
    return (sx, 0.0, 0.0, sy, 0.0, 0.0)


def m_rotate(deg, cx=0.0, cy=0.0):
    r = math.radians(deg)
    co, si = math.cos(r), math.sin(r)
    m = (co, si, -si, co, 0.0, 0.0)
    if cx or cy:
        m = m_mul(m_mul(m_translate(cx, cy), m), m_translate(-cx, -cy))
    return m


def m_skewx(deg):
    return (1.0, 0.0, math.tan(math.radians(deg)), 1.0, 0.0, 0.0)


def m_skewy(deg):
    return (1.0, math.tan(math.radians(deg)), 0.0, 1.0, 0.0, 0.0)


def m_inv(m):
    a, b, c, d, e, f = m
    det = a * d - b * c
    ia, ib, ic, id_ = d / det, -b / det, -c / det, a / det
    return (ia, ib, ic, id_, -(ia * e + ic * f), -(ib * e + id_ * f))


# ----------------------------------------------------------------------------------------------- numbers

def fmt_num(rnd, v):
    """A legal SVG spelling of the number v (value preserved exactly enough: we re-read the spelling)."""
    k = rnd.random()
    if v == int(v) and abs(v) < 1e6:
        iv = int(v)
        if k < 0.6:
            return "%d" % iv
        if k < 0.7:
            return "%d.0" % iv
        if k < 0.75 and iv >= 0:
            return "+%d" % iv
        if k < 0.8:
            return "%d." % iv if False else "%d" % iv
        if k < 0.9 and iv != 0:
            return "%de0" % iv
        return "%d" % iv
    s = repr(float(v))
    if k < 0.1 and s.startswith("0."):
        return s[1:]
    if k < 0.2 and s.startswith("-0."):
        return "-" + s[2:]
    return s


def rnd_num(rnd, lo, hi, intprob=0.6):
    if rnd.random() < intprob:
        return float(rnd.randint(int(math.ceil(lo)), int(math.floor(hi))))
    v = rnd.uniform(lo, hi)
    q = rnd.choice([1, 2, 3])
    return float(round(v, q))


# 1mm in inches. CSS: 1in = 25.4mm exactly. The library uses the 6-digit constant 0.0393701 (relative error 5.1e-7,
# reported separately as a low-severity finding); ORACLE_MM=lib makes the oracle use the same constant so that this
# deviation does not mask or pollute everything else.
import os as _os
# pt / pc: the library fixes 1pt = 4/3 px and 1pc = 16 px whatever ppi is (so 72pt != 1in unless ppi == 96).
# ORACLE_PT=css makes the oracle use CSS's 1pt = 1/72 in, 1pc = 1/6 in instead (reported as an ambiguity, not as a defect).
PT_CSS = _os.environ.get("ORACLE_PT", "lib") == "css"
MM_IN = 0.0393701 if _os.environ.get("ORACLE_MM", "lib") == "lib" else 1.0 / 25.4


class Len:
    """A length with unit. unit in '', px, pt, pc, mm, cm, in, %"""

    UNITS = ["", "px", "pt", "pc", "mm", "cm", "in"]

    def __init__(self, num, unit="", text=None):
        self.num = float(num)
        self.unit = unit
        self.text = text

    def spell(self, rnd):
        if self.text is None:
            self.text = fmt_num(rnd, self.num) + self.unit
            # the number actually denoted is the one we spelled
            self.num = float(self.text[: len(self.text) - len(self.unit)] if self.unit else self.text)
        return self.text

    def resolve(self, ppi, rel):
        u = self.unit
        n = self.num
        if u in ("", "px"):
            return n
        if u == "pt":
            return n * ppi / 72.0 if PT_CSS else n * 4.0 / 3.0
        if u == "pc":
            return n * ppi / 6.0 if PT_CSS else n * 16.0
        if u == "in":
            return n * ppi
        if u == "mm":
            return n * ppi * MM_IN
        if u == "cm":
            return n * ppi * MM_IN * 10.0
        if u == "%":
            return n * rel / 100.0
        raise ValueError(u)

    def __repr__(self):
        return "Len(%r,%r)" % (self.num, self.unit)


def rnd_len(rnd, lo, hi, cfg, allow_pct=True, pct_lo=None, pct_hi=None):
    """random length roughly within lo..hi user units (for unit-less); units scaled so the magnitude is similar"""
    k = rnd.random()
    if allow_pct and k < cfg["p_pct"]:
        plo = 0 if lo >= 0 else -60
        if pct_lo is not None:
            plo = pct_lo
        phi = 120 if pct_hi is None else pct_hi
        return Len(rnd_num(rnd, plo, phi), "%")
    if k < cfg["p_pct"] + cfg["p_unit"]:
        u = rnd.choice(["px", "pt", "pc", "mm", "cm", "in"])
        scale = {"px": 1, "pt": 4 / 3.0, "pc": 16, "mm": 96 / 25.4, "cm": 96 / 2.54, "in": 96}[u]
        v = rnd_num(rnd, lo, hi, 0.3) / scale
        v = float(round(v, 2))
        if v == 0 and lo > 0:
            v = 0.5
        if lo >= 0 and v < 0:
            v = -v
        return Len(v, u)
    return Len(rnd_num(rnd, lo, hi), "")


# ----------------------------------------------------------------------------------------------- transforms

def rnd_transform(rnd, cfg, similarity=False):
    """returns (text, matrix)"""
    n = rnd.choice([1, 1, 1, 2, 2, 3])
    parts = []
    m = IDENT
    for i in range(n):
        kinds = ["translate", "scale", "rotate", "translate", "scale1"]
        if not similarity:
            kinds += ["skewX", "skewY", "matrix", "scale2", "rotatec", "flip"]
        else:
            kinds += ["rotatec", "flipu"]
        k = rnd.choice(kinds)
        sep = rnd.choice([",", " ", ", ", " , "])
        if k == "translate":
            tx = rnd_num(rnd, -50, 50)
            if rnd.random() < 0.25:
                t = "translate(%s)" % fmt_num(rnd, tx)
                ty = 0.0
                tx = float(t[10:-1])
            else:
                ty = rnd_num(rnd, -50, 50)
                a, b = fmt_num(rnd, tx), fmt_num(rnd, ty)
                tx, ty = float(a), float(b)
                t = "translate(%s%s%s)" % (a, sep, b)
            mm = m_translate(tx, ty)
        elif k in ("scale", "scale1"):
            s = rnd.choice([0.5, 2.0, 1.5, 0.25, 3.0, 1.0, 0.8])
            t = "scale(%s)" % fmt_num(rnd, s)
            mm = m_scale(s)
        elif k == "scale2":
            sx = rnd.choice([0.5, 2.0, 1.5, 1.0, -1.0, 3.0])
            sy = rnd.choice([0.5, 2.0, 1.5, 1.0, -1.0, 0.25])
            t = "scale(%s%s%s)" % (fmt_num(rnd, sx), sep, fmt_num(rnd, sy))
            mm = m_scale(sx, sy)
        elif k == "flip":
            sx, sy = rnd.choice([(-1, 1), (1, -1), (-2, 1), (-1, -1), (1, -0.5)])
            t = "scale(%s%s%s)" % (fmt_num(rnd, sx), sep, fmt_num(rnd, sy))
            mm = m_scale(sx, sy)
        elif k == "flipu":
            sx, sy = rnd.choice([(-1, 1), (1, -1), (-1, -1), (-2, 2)])
            t = "scale(%s%s%s)" % (fmt_num(rnd, sx), sep, fmt_num(rnd, sy))
            mm = m_scale(sx, sy)
        elif k == "rotate":
            a = rnd.choice([90, 180, 270, -90, 45, 30, 360, 0]) if rnd.random() < 0.5 else rnd_num(rnd, -360, 360)
            t = "rotate(%s)" % fmt_num(rnd, a)
            mm = m_rotate(a)
        elif k == "rotatec":
            a = rnd.choice([90, 180, 270, -90, 45, 30]) if rnd.random() < 0.5 else rnd_num(rnd, -360, 360)
            cx, cy = rnd_num(rnd, -50, 50), rnd_num(rnd, -50, 50)
            t = "rotate(%s%s%s%s%s)" % (fmt_num(rnd, a), sep, fmt_num(rnd, cx), sep, fmt_num(rnd, cy))
            mm = m_rotate(a, cx, cy)
        elif k == "skewX":
            a = rnd.choice([10, 30, 45, -20, 60])
            t = "skewX(%s)" % fmt_num(rnd, a)
            mm = m_skewx(a)
        elif k == "skewY":
            a = rnd.choice([10, 30, 45, -20, 60])
            t = "skewY(%s)" % fmt_num(rnd, a)
            mm = m_skewy(a)
        else:
            while True:
                vals = [rnd_num(rnd, -2, 2, 0.3) for _ in range(4)] + [rnd_num(rnd, -50, 50), rnd_num(rnd, -50, 50)]
                if abs(vals[0] * vals[3] - vals[1] * vals[2]) > 0.2:
                    break
            mm = tuple(vals)
            t = "matrix(%s)" % sep.join(repr(v) if v != int(v) else "%d" % v for v in vals)
        if rnd.random() < cfg.get("tr_ws", 0.0):
            k = rnd.choice(["name", "inner", "both"])
            if k in ("name", "both"):
                t = t.replace("(", " (", 1)
            if k in ("inner", "both"):
                t = t.replace("(", "( ", 1).replace(")", " )")
        parts.append(t)
        m = m_mul(m, mm)
    text = rnd.choice([" ", " ", ",", "", "  "]).join(parts)
    return text, m


# ----------------------------------------------------------------------------------------------- model


class Node:
    def __init__(self, tag):
        self.tag = tag
        self.attrs = []  # list of (name, text) in output order
        self.children = []
        self.id = None
        self.matrix = IDENT  # own transform
        self.display_none = False
        self.geom = {}  # semantic geometry attributes
        self.ref = None  # for use: target id
        self.paint = {}  # presentation attributes (specified on this element)
        self.ns_href = False

    def set(self, name, text):
        if name == "style":
            for i, (k, v) in enumerate(self.attrs):
                if k == "style":
                    self.attrs[i] = (k, v.rstrip(";") + ";" + text)
                    return
        self.attrs.append((name, text))


DEFAULT_CFG = {
    "p_pct": 0.12,
    "p_unit": 0.12,
    "p_transform": 0.45,
    "p_display_none": 0.04,
    "p_viewbox": 0.6,
    "p_use": 1.0,
    "max_depth": 4,
    "max_children": 4,
    "paint": True,
    "style": True,
    "round": True,
    "path": True,
    "rootxy": 0.0,
    "pct_r_circle": False,
    "degenerate": 0.03,
    "rx_pct": 0.0,
    "negative": False,
    "use_units": True,
    "rrect_units": True,
    "missing": 0.0,
    "par_ws": 0.0,
    "svg_zero": 0.0,
    "tr_ws": 0.0,
}

COLORS = ["red", "blue", "#0f0", "#123456", "none", "black", "rgb(10,20,30)", "#FF00FF", "rgba(255,0,0,0.5)",
          "currentColor", "#12345678", "rgb(50%,0%,100%)", "yellow"]


class Gen:
    def __init__(self, rnd, cfg=None):
        self.rnd = rnd
        self.cfg = dict(DEFAULT_CFG)
        if cfg:
            self.cfg.update(cfg)
        self.ids = {}  # id -> node (closed before)
        self.counter = 0
        self.use_free = {}  # id -> bool: subtree contains no use

    def new_id(self, node):
        self.counter += 1
        node.id = "e%d" % self.counter
        return node.id

    # -- paint
    def add_paint(self, node, container=False):
        rnd = self.rnd
        if not self.cfg["paint"]:
            return
        props = {}
        if rnd.random() < 0.4:
            props["fill"] = rnd.choice(COLORS)
        if rnd.random() < 0.4:
            props["stroke"] = rnd.choice(COLORS)
        if rnd.random() < 0.3:
            props["stroke-width"] = rnd.choice(["2", "0.5", "3px", "1pt", "0", "1.5", "2mm", "5%"])
        if rnd.random() < 0.12:
            props["fill-opacity"] = rnd.choice(["0.5", "1", "0", "0.25"])
        if rnd.random() < 0.12:
            props["stroke-opacity"] = rnd.choice(["0.5", "1", "0", "0.75"])
        if rnd.random() < 0.08:
            props["color"] = rnd.choice(["green", "#abc", "purple"])
        if rnd.random() < self.cfg.get("vector_effect", 0.0):
            props["vector-effect"] = "non-scaling-stroke"
        node.paint = props
        style_items = []
        for k, v in props.items():
            if self.cfg["style"] and rnd.random() < 0.3:
                style_items.append("%s:%s" % (k, v))
            else:
                node.set(k, v)
        if style_items:
            node.set("style", rnd.choice([";", "; "]).join(style_items) + rnd.choice(["", ";"]))

    def add_common(self, node, similarity=False):
        rnd = self.rnd
        if rnd.random() < self.cfg["p_transform"]:
            t, m = rnd_transform(rnd, self.cfg, similarity=similarity)
            node.set("transform", t)
            node.matrix = m
        if rnd.random() < self.cfg["p_display_none"]:
            node.display_none = True
            if rnd.random() < 0.5:
                node.set("display", "none")
            else:
                node.set("style", "display:none")
        elif rnd.random() < 0.03:
            node.set("display", "inline")

    # -- shapes
    def shape(self):
        rnd = self.rnd
        cfg = self.cfg
        kinds = ["rect", "rect", "line", "polyline", "polygon"]
        if cfg["round"]:
            kinds += ["circle", "ellipse", "rrect"]
        if cfg["path"]:
            kinds += ["path", "path"]
        kind = rnd.choice(kinds)
        L = lambda lo, hi, **kw: rnd_len(rnd, lo, hi, cfg, **kw)
        if kind == "rrect" and not cfg["rrect_units"]:
            pcfg = dict(cfg, p_unit=0.0, p_pct=0.0)
            L = lambda lo, hi, **kw: rnd_len(rnd, lo, hi, pcfg, **kw)
        if kind in ("rect", "rrect"):
            n = Node("rect")
            g = n.geom
            for name in ("x", "y"):
                if rnd.random() < 0.75:
                    g[name] = L(-100, 200)
            for name in ("width", "height"):
                g[name] = L(1, 200)
                if rnd.random() < cfg["degenerate"]:
                    g[name] = Len(rnd.choice([0, -5]) if cfg["negative"] else 0, "")
            if kind == "rrect":
                which = rnd.choice(["rx", "ry", "both", "both"])
                for nm in ("rx", "ry"):
                    if which in (nm, "both"):
                        if rnd.random() < cfg["rx_pct"]:
                            g[nm] = Len(rnd_num(rnd, 0, 80), "%")
                        else:
                            g[nm] = L(0, 60, allow_pct=False)
        elif kind == "circle":
            n = Node("circle")
            g = n.geom
            for name in ("cx", "cy"):
                if rnd.random() < 0.8:
                    g[name] = L(-100, 200)
            g["r"] = L(1, 100, allow_pct=cfg["pct_r_circle"])
            if rnd.random() < cfg["degenerate"]:
                g["r"] = Len(0, "")
        elif kind == "ellipse":
            n = Node("ellipse")
            g = n.geom
            for name in ("cx", "cy"):
                if rnd.random() < 0.8:
                    g[name] = L(-100, 200)
            g["rx"] = L(1, 100)
            g["ry"] = L(1, 100)
            if rnd.random() < cfg["degenerate"]:
                g[rnd.choice(["rx", "ry"])] = Len(0, "")
        elif kind == "line":
            n = Node("line")
            g = n.geom
            for name in ("x1", "y1", "x2", "y2"):
                if rnd.random() < 0.85:
                    g[name] = L(-100, 200)
        elif kind in ("polyline", "polygon"):
            n = Node(kind)
            k = rnd.randint(2, 6)
            pts = []
            toks = []
            for i in range(k):
                a, b = fmt_num(rnd, rnd_num(rnd, -100, 200)), fmt_num(rnd, rnd_num(rnd, -100, 200))
                pts.append((float(a), float(b)))
                toks.append((a, b))
            style = rnd.choice(["comma", "space", "mixed"])
            if style == "comma":
                txt = " ".join("%s,%s" % t for t in toks)
            elif style == "space":
                txt = " ".join("%s %s" % t for t in toks)
            else:
                txt = rnd.choice([" ", ", "]).join("%s%s%s" % (t[0], rnd.choice([",", " ", " , "]), t[1]) for t in toks)
            n.geom["points"] = pts
            n.set("points", txt)
        else:
            n = Node("path")
            txt, segs = rnd_path(rnd)
            n.geom["segs"] = segs
            n.set("d", txt)
        if rnd.random() < cfg["missing"]:
            req = {"rect": ["width", "height"], "circle": ["r"], "ellipse": ["rx", "ry"]}.get(n.tag)
            if req:
                del g[rnd.choice(req)]
        for name, v in n.geom.items():
            if isinstance(v, Len):
                n.set(name, v.spell(rnd))
        # attribute order shuffled
        rnd.shuffle(n.attrs)
        self.add_common(n)
        self.add_paint(n)
        if rnd.random() < 0.5:
            n.set("id", self.new_id(n))
        return n

    def container(self, depth, in_defs=False):
        """Generates children list for a container"""
        rnd = self.rnd
        cfg = self.cfg
        out = []
        k = rnd.randint(1, cfg["max_children"])
        for i in range(k):
            r = rnd.random()
            if depth >= cfg["max_depth"]:
                r = min(r, 0.49) if not self.ids else r * 0.7
            if r < 0.5:
                n = self.shape()
            elif r < 0.7 and self.ids and cfg["p_use"]:
                n = self.use()
            elif r < 0.7:
                n = self.shape()
            elif r < 0.85:
                n = Node("g")
                self.add_common(n)
                self.add_paint(n, True)
                if rnd.random() < 0.6:
                    n.set("id", self.new_id(n))
                n.children = self.container(depth + 1, in_defs)
            elif r < 0.93:
                n = self.nested_svg(depth, in_defs)
            else:
                if in_defs:
                    n = self.shape()
                else:
                    n = Node("defs")
                    if rnd.random() < 0.1:
                        self.add_common(n)
                    n.children = self.container(depth + 1, True)
            out.append(n)
            self.close(n)
        return out

    def close(self, n):
        """register ids of the now complete subtree"""
        def walk(x):
            free = x.tag != "use"
            for c in x.children:
                free = walk(c) and free
            if x.id is not None:
                self.ids[x.id] = x
                self.use_free[x.id] = free
            return free
        walk(n)

    def use(self):
        rnd = self.rnd
        n = Node("use")
        n.ref = rnd.choice(sorted(self.ids))
        ucfg = self.cfg if self.cfg["use_units"] else dict(self.cfg, p_unit=0.0, p_pct=0.0)
        L = lambda lo, hi: rnd_len(rnd, lo, hi, ucfg)
        if rnd.random() < 0.6:
            n.geom["x"] = L(-100, 100)
        if rnd.random() < 0.6:
            n.geom["y"] = L(-100, 100)
        target = self.ids[n.ref]
        if target.tag != "svg" and rnd.random() < 0.15:
            # width/height have no effect unless the target is svg/symbol
            n.geom["width"] = L(1, 100)
            n.geom["height"] = L(1, 100)
        for name, v in n.geom.items():
            n.set(name, v.spell(rnd))
        if rnd.random() < 0.3:
            n.set("href", "#" + n.ref)
        else:
            n.set("xlink:href", "#" + n.ref)
        rnd.shuffle(n.attrs)
        self.add_common(n)
        self.add_paint(n, True)
        if rnd.random() < 0.4:
            n.set("id", self.new_id(n))
        return n

    def svg_attrs(self, n, root):
        rnd = self.rnd
        cfg = self.cfg
        L = lambda lo, hi, **kw: rnd_len(rnd, lo, hi, cfg, **kw)
        g = n.geom
        if not root or rnd.random() < cfg["rootxy"]:
            if rnd.random() < 0.6:
                g["x"] = L(-50, 100)
            if rnd.random() < 0.6:
                g["y"] = L(-50, 100)
        if rnd.random() < 0.7:
            g["width"] = L(20, 400, pct_lo=10)
        if rnd.random() < 0.7:
            g["height"] = L(20, 400, pct_lo=10)
        if rnd.random() < cfg["svg_zero"]:
            g[rnd.choice(["width", "height"])] = Len(0, rnd.choice(["", "px", "%"]))
        for name, v in g.items():
            n.set(name, v.spell(rnd))
        if rnd.random() < cfg["p_viewbox"]:
            vb = [rnd_num(rnd, -50, 50), rnd_num(rnd, -50, 50), rnd_num(rnd, 10, 400), rnd_num(rnd, 10, 400)]
            toks = [fmt_num(rnd, v) for v in vb]
            vb = [float(t) for t in toks]
            g["viewBox"] = vb
            n.set("viewBox", rnd.choice([" ", ",", ", "]).join(toks))
            if rnd.random() < 0.6:
                align = rnd.choice(["none", "xMinYMin", "xMidYMin", "xMaxYMin", "xMinYMid", "xMidYMid", "xMaxYMid",
                                    "xMinYMax", "xMidYMax", "xMaxYMax"])
                mos = rnd.choice([None, "meet", "slice"])
                g["par"] = (align, mos)
                txt = align + ("" if mos is None else " " + mos)
                if rnd.random() < cfg["par_ws"]:
                    k = rnd.choice(["lead", "trail", "double", "tab"])
                    if k == "lead":
                        txt = " " + txt
                    elif k == "trail":
                        txt = txt + " "
                    elif k == "double" and mos is not None:
                        txt = align + "  " + mos
                    elif k == "tab" and mos is not None:
                        txt = align + "\t" + mos
                n.set("preserveAspectRatio", txt)
        rnd.shuffle(n.attrs)

    def nested_svg(self, depth, in_defs):
        rnd = self.rnd
        n = Node("svg")
        self.svg_attrs(n, False)
        self.add_common(n)
        self.add_paint(n, True)
        if rnd.random() < 0.5:
            n.set("id", self.new_id(n))
        n.children = self.container(depth + 1, in_defs)
        return n

    def document(self):
        rnd = self.rnd
        root = Node("svg")
        root.set("xmlns", "http://www.w3.org/2000/svg")
        root.set("xmlns:xlink", "http://www.w3.org/1999/xlink")
        self.svg_attrs(root, True)
        if rnd.random() < 0.2:
            t, m = rnd_transform(rnd, self.cfg)
            root.set("transform", t)
            root.matrix = m
        self.add_paint(root, True)
        root.children = self.container(1)
        # forward reference: a use early in the document pointing to a use-free element defined later
        if self.cfg["p_use"] and rnd.random() < 0.3:
            cands = [i for i in self.ids if self.use_free[i]]
            if cands:
                n = Node("use")
                n.ref = rnd.choice(sorted(cands))
                n.set("xlink:href", "#" + n.ref)
                if rnd.random() < 0.5:
                    n.geom["x"] = Len(rnd_num(rnd, -50, 50))
                    n.set("x", n.geom["x"].spell(rnd))
                # must not be placed inside the target itself: put it first in root
                root.children.insert(0, n)
        return root


# ----------------------------------------------------------------------------------------------- path data


def rnd_path(rnd):
    """returns (d text, list of user-space segments)  segments: ('M',p) ('L',p0,p1) ('C',p0,c1,c2,p1) ('Q',p0,c,p1)
    ('Z',p0,p1)"""
    toks = []
    segs = []
    cur = (0.0, 0.0)
    start = (0.0, 0.0)
    last_ctrl = None  # (kind, point)
    n = rnd.randint(1, 6)
    first = True
    prev_cmd = None

    def num(lo=-100, hi=200):
        t = fmt_num(rnd, rnd_num(rnd, lo, hi))
        return t, float(t)

    def pair(rel):
        a, av = num(-60, 60) if rel else num()
        b, bv = num(-60, 60) if rel else num()
        sep = rnd.choice([",", " ", " , "])
        if bv < 0 and rnd.random() < 0.3 and not b.startswith("+"):
            sep = ""
        return a + sep + b, (av, bv)

    def absol(rel, p):
        return (cur[0] + p[0], cur[1] + p[1]) if rel else p

    for i in range(n + 1):
        if first:
            cmd = "M"
        else:
            cmd = rnd.choice(["L", "L", "H", "V", "C", "S", "Q", "T", "Z", "M", "L"])
        rel = rnd.random() < 0.4
        letter = cmd.lower() if rel else cmd
        if cmd == "M":
            t, p = pair(rel)
            p = absol(rel, p)
            toks.append(letter + rnd.choice(["", " "]) + t)
            segs.append(("M", p))
            cur = p
            start = p
            last_ctrl = None
            # implicit lineto
            if rnd.random() < 0.2:
                t, q = pair(rel)
                q = absol(rel, q)
                toks.append(t)
                segs.append(("L", cur, q))
                cur = q
        elif cmd == "L":
            t, p = pair(rel)
            p = absol(rel, p)
            toks.append(letter + rnd.choice(["", " "]) + t)
            segs.append(("L", cur, p))
            cur = p
            last_ctrl = None
        elif cmd == "H":
            t, v = num(-60, 60) if rel else num()
            p = (cur[0] + v, cur[1]) if rel else (v, cur[1])
            toks.append(letter + rnd.choice(["", " "]) + t)
            segs.append(("L", cur, p))
            cur = p
            last_ctrl = None
        elif cmd == "V":
            t, v = num(-60, 60) if rel else num()
            p = (cur[0], cur[1] + v) if rel else (cur[0], v)
            toks.append(letter + rnd.choice(["", " "]) + t)
            segs.append(("L", cur, p))
            cur = p
            last_ctrl = None
        elif cmd == "C":
            t1, c1 = pair(rel)
            t2, c2 = pair(rel)
            t3, p = pair(rel)
            c1, c2, p = absol(rel, c1), absol(rel, c2), absol(rel, p)
            toks.append(letter + " " + " ".join([t1, t2, t3]))
            segs.append(("C", cur, c1, c2, p))
            cur = p
            last_ctrl = ("C", c2)
        elif cmd == "S":
            t2, c2 = pair(rel)
            t3, p = pair(rel)
            c2, p = absol(rel, c2), absol(rel, p)
            if last_ctrl is not None and last_ctrl[0] == "C":
                c1 = (2 * cur[0] - last_ctrl[1][0], 2 * cur[1] - last_ctrl[1][1])
            else:
                c1 = cur
            toks.append(letter + " " + " ".join([t2, t3]))
            segs.append(("C", cur, c1, c2, p))
            cur = p
            last_ctrl = ("C", c2)
        elif cmd == "Q":
            t1, c1 = pair(rel)
            t3, p = pair(rel)
            c1, p = absol(rel, c1), absol(rel, p)
            toks.append(letter + " " + " ".join([t1, t3]))
            segs.append(("Q", cur, c1, p))
            cur = p
            last_ctrl = ("Q", c1)
        elif cmd == "T":
            t3, p = pair(rel)
            p = absol(rel, p)
            if last_ctrl is not None and last_ctrl[0] == "Q":
                c1 = (2 * cur[0] - last_ctrl[1][0], 2 * cur[1] - last_ctrl[1][1])
            else:
                c1 = cur
            toks.append(letter + " " + t3)
            segs.append(("Q", cur, c1, p))
            cur = p
            last_ctrl = ("Q", c1)
        elif cmd == "Z":
            toks.append(letter)
            segs.append(("Z", cur, start))
            cur = start
            last_ctrl = None
        first = False
        prev_cmd = cmd
    sep = rnd.choice([" ", "", " "])
    txt = ""
    for t in toks:
        if txt and not t[0].isalpha():
            txt += " "  # an implicit repetition: the operands must stay separated from the previous number
        elif txt:
            txt += sep
        txt += t
    return txt, segs


# ----------------------------------------------------------------------------------------------- serialise


def esc(s):
    return s.replace("&", "&amp;").replace('"', "&quot;").replace("<", "&lt;")


def to_xml(node, indent=0):
    pad = " " * indent
    attrs = "".join(' %s="%s"' % (k, esc(v)) for k, v in node.attrs)
    if not node.children:
        return "%s<%s%s/>\n" % (pad, node.tag, attrs)
    s = "%s<%s%s>\n" % (pad, node.tag, attrs)
    for c in node.children:
        s += to_xml(c, indent + 1)
    s += "%s</%s>\n" % (pad, node.tag)
    return s


# ----------------------------------------------------------------------------------------------- oracle

KAPPA_NOTE = "arcs are compared analytically (points must lie on the mapped ellipse), see harness"


def viewport_transform(ex, ey, ew, eh, vb, par):
    """SVG 2 section 8.2 'equivalent transform of an SVG viewport', step by step."""
    vbx, vby, vbw, vbh = vb
    if par is None:
        align, mos = "xMidYMid", "meet"
    else:
        align, mos = par
        if mos is None:
            mos = "meet"
    sx = ew / vbw
    sy = eh / vbh
    if align != "none" and mos == "meet":
        sx = sy = min(sx, sy)
    elif align != "none" and mos == "slice":
        sx = sy = max(sx, sy)
    tx = ex - vbx * sx
    ty = ey - vby * sy
    if "xMid" in align:
        tx += (ew - vbw * sx) / 2.0
    if "xMax" in align:
        tx += ew - vbw * sx
    if "YMid" in align:
        ty += (eh - vbh * sy) / 2.0
    if "YMax" in align:
        ty += eh - vbh * sy
    return m_mul(m_translate(tx, ty), m_scale(sx, sy))


class Expected:
    def __init__(self, kind, node_id, matrix, segs):
        self.kind = kind
        self.id = node_id
        self.matrix = matrix  # total matrix user space -> absolute
        self.segs = segs  # user-space segments; arcs as ('A', p0, p1, (cx,cy,rx,ry), mid)

    def abs_segs(self):
        out = []
        M = self.matrix
        for s in self.segs:
            if s[0] == "A":
                out.append(("A", m_apply(M, s[1]), m_apply(M, s[2]), s[3], m_apply(M, s[4])))
            else:
                out.append((s[0],) + tuple(m_apply(M, p) for p in s[1:]))
        return out


def shape_segments(node, ppi, vw, vh):
    """User-space decomposition per SVG 2 chapter 10.  Returns None when the element is not rendered."""
    g = node.geom
    R = lambda name, rel, default=0.0: (g[name].resolve(ppi, rel) if name in g else default)
    tag = node.tag
    if tag == "rect":
        x, y = R("x", vw), R("y", vh)
        # width/height: 'auto' for a rect computes to 0 per SVG 2 -> not rendered. The generator always supplies them.
        # SVG 2 geometry 'Sizing properties': "The value auto for width and height on other elements is treated as 0."
        w, h = R("width", vw), R("height", vh)
        if w <= 0 or h <= 0:
            return None
        has_rx, has_ry = "rx" in g, "ry" in g
        if not has_rx and not has_ry:
            rx = ry = 0.0
        elif has_rx and not has_ry:
            rx = g["rx"].resolve(ppi, w)
            ry = rx
        elif has_ry and not has_rx:
            ry = g["ry"].resolve(ppi, h)
            rx = ry
        else:
            rx = g["rx"].resolve(ppi, w)
            ry = g["ry"].resolve(ppi, h)
        rx = min(rx, w / 2.0)
        ry = min(ry, h / 2.0)
        if rx <= 0 or ry <= 0:
            rx = ry = 0.0
        if rx == 0:
            return [
                ("M", (x, y)),
                ("L", (x, y), (x + w, y)),
                ("L", (x + w, y), (x + w, y + h)),
                ("L", (x + w, y + h), (x, y + h)),
                ("Z", (x, y + h), (x, y)),
            ]
        k = math.sqrt(0.5)

        def arc(p0, p1, c):
            mid = (c[0] + (p0[0] - c[0] + p1[0] - c[0]) * k, c[1] + (p0[1] - c[1] + p1[1] - c[1]) * k)
            return ("A", p0, p1, (c[0], c[1], rx, ry), mid)

        return [
            ("M", (x + rx, y)),
            ("L", (x + rx, y), (x + w - rx, y)),
            arc((x + w - rx, y), (x + w, y + ry), (x + w - rx, y + ry)),
            ("L", (x + w, y + ry), (x + w, y + h - ry)),
            arc((x + w, y + h - ry), (x + w - rx, y + h), (x + w - rx, y + h - ry)),
            ("L", (x + w - rx, y + h), (x + rx, y + h)),
            arc((x + rx, y + h), (x, y + h - ry), (x + rx, y + h - ry)),
            ("L", (x, y + h - ry), (x, y + ry)),
            arc((x, y + ry), (x + rx, y), (x + rx, y + ry)),
            ("Z", (x + rx, y), (x + rx, y)),
        ]
    if tag in ("circle", "ellipse"):
        cx, cy = R("cx", vw), R("cy", vh)
        if tag == "circle":
            diag = math.sqrt((vw * vw + vh * vh) / 2.0)
            rx = ry = R("r", diag)
        else:
            # SVG 2 10.4: auto (missing) rx takes the value of ry and vice versa; both auto -> 0 -> not rendered
            if "rx" in g and "ry" in g:
                rx, ry = R("rx", vw), R("ry", vh)
            elif "rx" in g:
                rx = ry = R("rx", vw)
            elif "ry" in g:
                rx = ry = R("ry", vh)
            else:
                rx = ry = 0.0
        if rx <= 0 or ry <= 0:
            return None
        return [("ELLIPSE", (cx, cy), (rx, ry))]
    if tag == "line":
        p0 = (R("x1", vw), R("y1", vh))
        p1 = (R("x2", vw), R("y2", vh))
        return [("M", p0), ("L", p0, p1)]
    if tag in ("polyline", "polygon"):
        pts = g["points"]
        segs = [("M", pts[0])]
        for i in range(1, len(pts)):
            segs.append(("L", pts[i - 1], pts[i]))
        if tag == "polygon":
            segs.append(("Z", pts[-1], pts[0]))
        return segs
    if tag == "path":
        return list(g["segs"])
    raise ValueError(tag)


def index_ids(root):
    ids = {}

    def walk(n):
        if n.id is not None:
            ids[n.id] = n
        for c in n.children:
            walk(c)

    walk(root)
    return ids


def evaluate(root, ppi, caller_w, caller_h, caller_m):
    """returns list of Expected in document order. caller_w/h are floats (already resolved by the caller of this)."""
    ids = index_ids(root)
    out = []

    def svg_viewport(n, M, vw, vh, is_root, use_wh=None):
        g = n.geom
        x = g["x"].resolve(ppi, vw) if "x" in g else 0.0
        y = g["y"].resolve(ppi, vh) if "y" in g else 0.0
        if is_root:
            # SVG 2 5.1.?: x and y have no meaning or effect on outermost svg elements
            x = y = 0.0
        w = g["width"].resolve(ppi, vw) if "width" in g else vw
        h = g["height"].resolve(ppi, vh) if "height" in g else vh
        if w <= 0 or h <= 0:
            return None
        M = m_mul(M, n.matrix)
        if "viewBox" in g:
            vb = g["viewBox"]
            if vb[2] <= 0 or vb[3] <= 0:
                return None
            M = m_mul(M, viewport_transform(x, y, w, h, vb, g.get("par")))
            return M, vb[2], vb[3]
        M = m_mul(M, m_translate(x, y))
        return M, w, h

    def walk(n, M, vw, vh, is_root=False):
        if n.display_none:
            return
        tag = n.tag
        if tag == "defs":
            return
        if tag == "svg":
            r = svg_viewport(n, M, vw, vh, is_root)
            if r is None:
                return
            M2, vw2, vh2 = r
            for c in n.children:
                walk(c, M2, vw2, vh2)
            return
        if tag == "g":
            M2 = m_mul(M, n.matrix)
            for c in n.children:
                walk(c, M2, vw, vh)
            return
        if tag == "use":
            g = n.geom
            x = g["x"].resolve(ppi, vw) if "x" in g else 0.0
            y = g["y"].resolve(ppi, vh) if "y" in g else 0.0
            M2 = m_mul(m_mul(M, n.matrix), m_translate(x, y))
            target = ids.get(n.ref)
            if target is None:
                return
            walk(target, M2, vw, vh)
            return
        segs = shape_segments(n, ppi, vw, vh)
        if segs is None:
            return
        out.append(Expected(tag, n.id, m_mul(M, n.matrix), segs))

    walk(root, caller_m, caller_w, caller_h, True)
    return out
