"""
Independent SVG path-data generator + reference interpreter shared by
harness_C01.py and harness_C17.py.

Nothing in here imports svgelements.  The reference interpreter works on the
ABSTRACT command list the generator produced (letter + numeric operands whose
values are python float() of the spelled token), so it never depends on any
tokenizer; the spelled string is what the library gets to see.

Reference semantics: SVG 1.1 section 8.3 / SVG 2 section 9.3 (path data),
implementation notes F.6 (elliptical arcs, used by arc_geometry()).
"""
import math
import random

WSP = [" ", "\t", "\n", "\r", "\x0c"]

ARGC = {"M": 2, "L": 2, "H": 1, "V": 1, "C": 6, "S": 4, "Q": 4, "T": 2, "A": 7, "Z": 0}
# commands for which SVG2 allows a segment-completing closepath
ZCOMPLETABLE = "LCSQTA"


# --------------------------------------------------------------------------
# number spelling
# --------------------------------------------------------------------------
def spell_number(rng, allow_trailing_dot=False, nonneg=False, small=False):
    """returns (text, value). value == float(text) by construction."""
    kind = rng.random()
    if small:
        mag = rng.choice([0, 1, 2, 3, 5, 10, 0.5, 0.25, 1.5])
    else:
        r = rng.random()
        if r < 0.15:
            mag = rng.choice([0, 0, 1, 2, 10, 100])
        elif r < 0.6:
            mag = rng.randint(0, 200)
        elif r < 0.9:
            mag = round(rng.uniform(0, 300), rng.randint(1, 4))
        else:
            mag = round(rng.uniform(0, 5000), rng.randint(0, 6))
    # mantissa text
    style = rng.random()
    if float(mag) == int(mag) and style < 0.55:
        txt = str(int(mag))
        if rng.random() < 0.05:
            txt = "0" * rng.randint(1, 3) + txt  # leading zeros are legal digits
        if allow_trailing_dot and rng.random() < 0.5:
            txt += "."
    else:
        txt = repr(float(mag))
        if "e" in txt or "E" in txt:
            txt = "%f" % mag
        if txt.startswith("0.") and rng.random() < 0.6:
            txt = txt[1:]  # leading dot
        elif txt.endswith(".0"):
            if rng.random() < 0.5:
                txt = txt[:-2] + (".0" if rng.random() < 0.5 else ".00")
    # exponent
    if rng.random() < 0.2:
        e = rng.choice([0, 1, -1, 2, -2, 3, -3])
        es = rng.choice(["e", "E"])
        sg = ""
        if e < 0:
            sg = "-"
        elif rng.random() < 0.4:
            sg = "+"
        ed = str(abs(e))
        if rng.random() < 0.1:
            ed = "0" + ed
        if txt.endswith("."):
            # "1.e2" is legal in SVG 1.1 (digit-sequence "." then exponent); keep it in the
            # trailing-dot class only
            pass
        txt = txt + es + sg + ed
    # sign
    if nonneg:
        sign = "+" if rng.random() < 0.08 else ""
    else:
        r = rng.random()
        sign = "-" if r < 0.35 else ("+" if r < 0.45 else "")
    txt = sign + txt
    return txt, float(txt)


def spell_flag(rng):
    f = rng.choice("01")
    return f, int(f)


# --------------------------------------------------------------------------
# abstract path generation
# --------------------------------------------------------------------------
class Item:
    """One command letter with >=1 operand groups (implicit repetition) and an optional
    segment-completing z replacing the tail of the final group."""

    __slots__ = ("letter", "groups", "zc", "explicit")

    def __init__(self, letter, groups, zc=None, explicit=None):
        self.letter = letter  # as spelled, either case
        self.groups = groups  # list of list of (text, value, kind) kind in 'n','f'
        self.zc = zc  # None or 'z'/'Z'; then the last group is partial (complete pairs only)
        self.explicit = explicit  # per group: repeat letter explicitly?


def gen_group(rng, L, opts):
    U = L.upper()
    td = opts.get("trailing_dot", False) and rng.random() < 0.15
    small = opts.get("small", False)
    if U == "A":
        g = []
        for i in range(7):
            if i in (3, 4):
                t, v = spell_flag(rng)
                g.append((t, v, "f"))
            elif i in (0, 1):
                if rng.random() < opts.get("zero_radius", 0.0):
                    t, v = rng.choice([("0", 0.0), ("0.0", 0.0), ("-0", -0.0)])
                else:
                    t, v = spell_number(rng, td, nonneg=not opts.get("neg_radius", False), small=small)
                    if v == 0:
                        t, v = "7", 7.0
                g.append((t, v, "n"))
            else:
                t, v = spell_number(rng, td, small=small)
                g.append((t, v, "n"))
        return g
    return [spell_number(rng, td, small=small) + ("n",) for _ in range(ARGC[U])]


def gen_items(rng, n_items=None, opts=None):
    opts = opts or {}
    if n_items is None:
        n_items = rng.randint(1, 9) if rng.random() < 0.92 else rng.randint(10, 40)
    letters_draw = "LLHVCSQTAZM" if not opts.get("no_arc") else "LLHVCSQTZM"
    items = []
    # first: a move, either case
    first = rng.choice("Mm")
    ng = 1 if rng.random() < 0.6 else rng.randint(2, 3)
    items.append(Item(first, [gen_group(rng, first, opts) for _ in range(ng)]))
    for _ in range(n_items):
        U = rng.choice(letters_draw)
        L = U if rng.random() < 0.5 else U.lower()
        if U == "Z":
            items.append(Item(L, []))
            continue
        ng = 1 if rng.random() < 0.65 else (rng.randint(2, 3) if rng.random() < 0.9 else rng.randint(4, 7))
        groups = [gen_group(rng, L, opts) for _ in range(ng)]
        zc = None
        if U in ZCOMPLETABLE and rng.random() < opts.get("zcomplete", 0.08):
            zc = rng.choice("zZ")
            last = groups[-1]
            if U == "A":
                groups[-1] = last[:5]
            elif U in "LT":
                groups[-1] = []
            else:
                if opts.get("zc_deep", False) and rng.random() < 0.3:
                    keep = 2 * rng.randint(0, ARGC[U] // 2 - 1)
                else:
                    keep = ARGC[U] - 2
                groups[-1] = last[:keep]
                if keep == 0 and len(groups) > 1:
                    # 'C <triplet> z' is an ordinary close, not a completion of an empty segment
                    groups = [[]]
            if U in "LT" and len(groups) > 1:
                # grammar: lineto ::= L (coordinate_pair_sequence | closepath): 'L 1 2 z' is a plain
                # close; only a bare 'L z' is segment-completing
                groups = [[]]
        items.append(Item(L, groups, zc))
    for it in items:
        it.explicit = [True] + [rng.random() < 0.25 for _ in it.groups[1:]]
    return items


# --------------------------------------------------------------------------
# rendering
# --------------------------------------------------------------------------
def _sep_between(rng, prev, nxt, opts):
    """separator between two operand tokens (text, value, kind)."""
    ptxt, _, pk = prev
    ntxt, _, nk = nxt
    can_empty = False
    if pk == "f":
        can_empty = True
    elif nk == "n":
        if ntxt[0] in "+-":
            can_empty = True
        elif ntxt[0] == "." and ("." in ptxt or "e" in ptxt or "E" in ptxt):
            can_empty = True
    if can_empty and rng.random() < opts.get("p_pack", 0.45):
        return ""
    r = rng.random()
    if r < 0.35:
        return " "
    if r < 0.6:
        return ","
    w = lambda lo, hi: "".join(rng.choice(WSP if opts.get("exotic_ws", True) else " ") for _ in range(rng.randint(lo, hi)))
    if r < 0.8:
        return w(1, 3)
    if r < 0.9:
        return w(1, 2) + "," + w(0, 2)
    return "," + w(1, 2)


def _wsp_star(rng, opts, p_empty=0.5):
    if rng.random() < p_empty:
        return ""
    src = WSP if opts.get("exotic_ws", True) else [" "]
    return "".join(rng.choice(src) for _ in range(rng.randint(1, 2)))


def render_item(rng, it, opts=None):
    """render one Item (starting with its explicit letter)."""
    opts = opts or {}
    out = []
    U = it.letter.upper()
    if U == "Z":
        return it.letter
    prev = None
    for gi, g in enumerate(it.groups):
        if gi == 0 or it.explicit[gi]:
            # explicit letter. An explicit repeat of M would start a new subpath, so repeats of a
            # move's extra pairs are spelled as L/l instead
            if gi > 0 and U == "M":
                letter = "L" if it.letter == "M" else "l"
            else:
                letter = it.letter
            if prev is not None:
                out.append(_wsp_star(rng, opts))
            out.append(letter)
            if g:
                out.append(_wsp_star(rng, opts))
            prev = None
        for tok in g:
            if prev is not None:
                out.append(_sep_between(rng, prev, tok, opts))
            out.append(tok[0])
            prev = tok
    if it.zc:
        out.append(_wsp_star(rng, opts))
        out.append(it.zc)
    return "".join(out)


def render(rng, items, opts=None):
    opts = opts or {}
    parts = []
    for it in items:
        parts.append(render_item(rng, it, opts))
    s = ""
    for i, p in enumerate(parts):
        if i:
            s += _wsp_star(rng, opts)
        s += p
    return _wsp_star(rng, opts, 0.8) + s + _wsp_star(rng, opts, 0.8)


# --------------------------------------------------------------------------
# reference interpreter
# --------------------------------------------------------------------------
class Ref:
    def __init__(self):
        self.cur = None
        self.sub = None  # subpath start
        self.lastctrl = None
        self.lastdeg = 0  # 2, 3 or 0
        self.segs = []

    def feed(self, items):
        for it in items:
            self._item(it)
        return self.segs

    def _abs(self, x, y, rel):
        if rel and self.cur is not None:
            return (x + self.cur[0], y + self.cur[1])
        return (x, y)

    def _emit(self, kind, **kw):
        kw["kind"] = kind
        self.segs.append(kw)

    def _item(self, it):
        U = it.letter.upper()
        rel = it.letter.islower()
        if U == "Z":
            self._close()
            return
        ngroups = len(it.groups)
        for gi, g in enumerate(it.groups):
            vals = [t[1] for t in g]
            partial = it.zc is not None and gi == ngroups - 1
            eff = U
            if U == "M" and gi > 0:
                eff = "L"
            self._seg(eff, rel, vals, partial)
        if it.zc:
            self._close()

    def _close(self):
        self._emit("Close", start=self.cur, end=self.sub)
        self.cur = self.sub
        self.lastdeg = 0

    def _seg(self, U, rel, v, partial):
        cur = self.cur
        Z = self.sub
        if U == "M":
            p = self._abs(v[0], v[1], rel)
            self._emit("Move", start=cur, end=p)
            self.cur = p
            self.sub = p
            self.lastdeg = 0
        elif U == "L":
            p = Z if partial else self._abs(v[0], v[1], rel)
            self._emit("Line", start=cur, end=p)
            self.cur = p
            self.lastdeg = 0
        elif U == "H":
            x = v[0] + cur[0] if rel else v[0]
            p = (x, cur[1])
            self._emit("Line", start=cur, end=p)
            self.cur = p
            self.lastdeg = 0
        elif U == "V":
            y = v[0] + cur[1] if rel else v[0]
            p = (cur[0], y)
            self._emit("Line", start=cur, end=p)
            self.cur = p
            self.lastdeg = 0
        elif U == "C":
            pts = [self._abs(v[i], v[i + 1], rel) for i in range(0, len(v), 2)]
            while len(pts) < 3:
                pts.append(Z)
            self._emit("CubicBezier", start=cur, c1=pts[0], c2=pts[1], end=pts[2])
            self.cur = pts[2]
            self.lastctrl = pts[1]
            self.lastdeg = 3
        elif U == "S":
            if self.lastdeg == 3:
                c1 = (2 * cur[0] - self.lastctrl[0], 2 * cur[1] - self.lastctrl[1])
            else:
                c1 = cur
            pts = [self._abs(v[i], v[i + 1], rel) for i in range(0, len(v), 2)]
            while len(pts) < 2:
                pts.append(Z)
            self._emit("CubicBezier", start=cur, c1=c1, c2=pts[0], end=pts[1])
            self.cur = pts[1]
            self.lastctrl = pts[0]
            self.lastdeg = 3
        elif U == "Q":
            pts = [self._abs(v[i], v[i + 1], rel) for i in range(0, len(v), 2)]
            while len(pts) < 2:
                pts.append(Z)
            self._emit("QuadraticBezier", start=cur, c=pts[0], end=pts[1])
            self.cur = pts[1]
            self.lastctrl = pts[0]
            self.lastdeg = 2
        elif U == "T":
            if self.lastdeg == 2:
                c = (2 * cur[0] - self.lastctrl[0], 2 * cur[1] - self.lastctrl[1])
            else:
                c = cur
            p = Z if partial else self._abs(v[0], v[1], rel)
            self._emit("QuadraticBezier", start=cur, c=c, end=p)
            self.cur = p
            self.lastctrl = c
            self.lastdeg = 2
        elif U == "A":
            p = Z if partial else self._abs(v[5], v[6], rel)
            self._emit("Arc", start=cur, end=p, rx=v[0], ry=v[1], rot=v[2], large=v[3], sweep=v[4])
            self.cur = p
            self.lastdeg = 0
        else:
            raise AssertionError(U)


def reference(items):
    return Ref().feed(items)


# --------------------------------------------------------------------------
# arc geometry, SVG implementation notes F.6.5 / F.6.6 (written from the spec)
# --------------------------------------------------------------------------
def arc_geometry(start, end, rx, ry, rot_deg, large, sweep):
    """returns None for degenerate arcs (straight line / omitted), else
    dict(cx, cy, rx, ry, phi, theta1, dtheta)."""
    x1, y1 = start
    x2, y2 = end
    rx = abs(rx)
    ry = abs(ry)
    if (x1 == x2 and y1 == y2) or rx == 0 or ry == 0:
        return None
    phi = math.radians(rot_deg % 360.0)
    cp, sp = math.cos(phi), math.sin(phi)
    hx, hy = (x1 - x2) / 2.0, (y1 - y2) / 2.0
    x1p = cp * hx + sp * hy
    y1p = -sp * hx + cp * hy
    lam = (x1p * x1p) / (rx * rx) + (y1p * y1p) / (ry * ry)
    if lam > 1:
        s = math.sqrt(lam)
        rx *= s
        ry *= s
    num = rx * rx * ry * ry - rx * rx * y1p * y1p - ry * ry * x1p * x1p
    den = rx * rx * y1p * y1p + ry * ry * x1p * x1p
    k = math.sqrt(max(0.0, num / den))
    if bool(large) == bool(sweep):
        k = -k
    cxp = k * rx * y1p / ry
    cyp = -k * ry * x1p / rx
    cx = cp * cxp - sp * cyp + (x1 + x2) / 2.0
    cy = sp * cxp + cp * cyp + (y1 + y2) / 2.0

    def ang(ux, uy, vx, vy):
        a = math.atan2(ux * vy - uy * vx, ux * vx + uy * vy)
        return a

    ux, uy = (x1p - cxp) / rx, (y1p - cyp) / ry
    vx, vy = (-x1p - cxp) / rx, (-y1p - cyp) / ry
    theta1 = ang(1, 0, ux, uy)
    dtheta = ang(ux, uy, vx, vy)
    if not sweep and dtheta > 0:
        dtheta -= 2 * math.pi
    elif sweep and dtheta < 0:
        dtheta += 2 * math.pi
    return dict(cx=cx, cy=cy, rx=rx, ry=ry, phi=phi, theta1=theta1, dtheta=dtheta, lam=lam)


def arc_point(g, t):
    th = g["theta1"] + t * g["dtheta"]
    cp, sp = math.cos(g["phi"]), math.sin(g["phi"])
    ex, ey = g["rx"] * math.cos(th), g["ry"] * math.sin(th)
    return (cp * ex - sp * ey + g["cx"], sp * ex + cp * ey + g["cy"])


# --------------------------------------------------------------------------
# comparison of library segments against the reference
# --------------------------------------------------------------------------
def _pt(p):
    if p is None:
        return None
    return (float(p.x), float(p.y))


def _close(a, b, tol, scale):
    if a is None or b is None:
        return a is None and b is None
    return abs(a[0] - b[0]) <= tol * scale and abs(a[1] - b[1]) <= tol * scale


def compare(path_segments, ref, tol=1e-9, arc_tol=1e-6, check_arc_geometry=True):
    """returns list of problem strings (empty == agree)."""
    probs = []
    segs = list(path_segments)
    if len(segs) != len(ref):
        probs.append(
            "COUNT expected %d segments %s, got %d %s"
            % (len(ref), [r["kind"] for r in ref], len(segs), [type(s).__name__ for s in segs])
        )
        return probs
    scale = 1.0
    for r in ref:
        for k in ("start", "end", "c", "c1", "c2"):
            p = r.get(k)
            if p is not None:
                scale = max(scale, abs(p[0]), abs(p[1]))
    for i, (s, r) in enumerate(zip(segs, ref)):
        name = type(s).__name__
        if name != r["kind"]:
            probs.append("KIND #%d expected %s got %s" % (i, r["kind"], name))
            continue
        for attr, key in (("start", "start"), ("end", "end")):
            got = _pt(getattr(s, attr))
            if not _close(got, r[key], tol, scale):
                probs.append("%s.%s #%d expected %r got %r" % (name, attr, i, r[key], got))
        if name == "QuadraticBezier":
            got = _pt(s.control)
            if not _close(got, r["c"], tol, scale):
                probs.append("Quad.control #%d expected %r got %r" % (i, r["c"], got))
        elif name == "CubicBezier":
            got = _pt(s.control1)
            if not _close(got, r["c1"], tol, scale):
                probs.append("Cubic.control1 #%d expected %r got %r" % (i, r["c1"], got))
            got = _pt(s.control2)
            if not _close(got, r["c2"], tol, scale):
                probs.append("Cubic.control2 #%d expected %r got %r" % (i, r["c2"], got))
        elif name == "Arc" and check_arc_geometry and r["start"] is not None:
            g = arc_geometry(r["start"], r["end"], r["rx"], r["ry"], r["rot"], r["large"], r["sweep"])
            if g is None:
                x1, y1 = r["start"]
                x2, y2 = r["end"]
                if (x1, y1) != (x2, y2):
                    # zero radius: F.6.2 straight line joining the endpoints
                    for t in (0.25, 0.5, 0.75):
                        try:
                            got = _pt(s.point(t))
                        except Exception as e:  # noqa
                            probs.append("ArcZeroRadius.point(%g) #%d raised %r" % (t, i, e))
                            break
                        exp = (x1 + t * (x2 - x1), y1 + t * (y2 - y1))
                        # any monotone parameterisation of the chord is fine: test collinearity+between
                        d = math.hypot(x2 - x1, y2 - y1)
                        cross = abs((got[0] - x1) * (y2 - y1) - (got[1] - y1) * (x2 - x1)) / d
                        dot = ((got[0] - x1) * (x2 - x1) + (got[1] - y1) * (y2 - y1)) / (d * d)
                        if cross > arc_tol * scale or not (-1e-9 <= dot <= 1 + 1e-9) or (t == 0.5 and abs(dot - 0.5) > 0.45):
                            probs.append(
                                "ArcZeroRadius.point(%g) #%d expected on chord (e.g. %r) got %r" % (t, i, exp, got)
                            )
                            break
                continue
            if max(g["rx"], g["ry"]) > 1e4 * min(g["rx"], g["ry"]):
                # needle ellipses (aspect > 1e4): the parameter of the end points is ill-conditioned
                # in ANY double implementation (checked against 60-digit arithmetic): skip geometry
                continue
            ascale = max(scale, g["rx"], g["ry"])
            # near the radius-scaling threshold the centre is ill-conditioned (sqrt of a
            # cancellation): loosen there
            atol = arc_tol
            if abs(g["lam"] - 1) < 1e-6 or g["lam"] > 1:
                atol = max(arc_tol, 1e-5)
            for t in (0.0, 0.2, 0.5, 0.8, 1.0):
                got = _pt(s.point(t))
                exp = arc_point(g, t)
                if not _close(got, exp, atol, ascale):
                    probs.append(
                        "Arc.point(%g) #%d expected %r got %r  [rx=%r ry=%r rot=%r large=%r sweep=%r lam=%.6g]"
                        % (t, i, exp, got, r["rx"], r["ry"], r["rot"], r["large"], r["sweep"], g["lam"])
                    )
                    break
    return probs


def signature(prob):
    """coarse bucket for a problem string."""
    head = prob.split(" expected")[0]
    import re

    head = re.sub(r"#\d+", "#", head)
    head = re.sub(r"\([0-9.]+\)", "()", head)
    return head
