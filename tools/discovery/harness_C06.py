#!/venv/bin/python
"""
Random-input harness for property C06 (basic shapes are interchangeable with
their SVG 2 chapter 10 equivalent paths).

usage: /venv/bin/python harness_C06.py SEED N [-v]

Oracle: the equivalent path of every shape is written down here directly from
SVG 2 sections 10.2-10.7 (rect incl. the rx/ry auto + clamp rules, circle,
ellipse, line, polyline, polygon) as a list of
    ('M', p) ('L', p0, p1) ('Z', p0, p1) ('A', p0, p1, centre, rx, ry, theta0)
in user space, and mapped through the transform with plain float arithmetic.
Straight edges are compared exactly (relative 1e-9); for arcs the end points
are compared exactly and interior points must lie on the specified ellipse
inside the right quadrant (checked after mapping the library's point BACK with
an inverse computed here).

Known-and-excluded (task statement): circles/ellipses/rounded corners under
shear or rotated anisotropic scale (only end points of rect corners are checked
there, round shapes are not generated), Arc.d() 6-digit radii (text round trip
compares loosely), percentage r of a circle.
"""
import sys
import math
import random
import traceback
import re
from collections import Counter, defaultdict

sys.path.insert(0, "/tmp/dz/C02_C06")
# numpy/scipy are not installed in /venv; the library retries `import numpy` inside every point() call and the failing
# import costs ~100 us of sys.path scanning each time.  Registering None makes the very same ImportError immediate.
for _m in ("numpy", "scipy", "scipy.integrate", "scipy.special"):
    try:
        __import__(_m)
    except ImportError:
        sys.modules[_m] = None
from svgelements import *  # noqa
from copy import copy

tau = 2 * math.pi
VERBOSE = "-v" in sys.argv

I6 = (1.0, 0.0, 0.0, 1.0, 0.0, 0.0)


def mapply(m, p):
    a, b, c, d, e, f = m
    return (a * p[0] + c * p[1] + e, b * p[0] + d * p[1] + f)


def mcompose(m1, m2):
    a1, b1, c1, d1, e1, f1 = m1
    a2, b2, c2, d2, e2, f2 = m2
    return (
        a2 * a1 + c2 * b1,
        b2 * a1 + d2 * b1,
        a2 * c1 + c2 * d1,
        b2 * c1 + d2 * d1,
        a2 * e1 + c2 * f1 + e2,
        b2 * e1 + d2 * f1 + f2,
    )


def minverse(m):
    a, b, c, d, e, f = m
    det = a * d - b * c
    ia, ib, ic, id_ = d / det, -b / det, -c / det, a / det
    return (ia, ib, ic, id_, -(ia * e + ic * f), -(ib * e + id_ * f))


def mdet(m):
    return m[0] * m[3] - m[1] * m[2]


def mcond(m):
    a, b, c, d = m[:4]
    s = a * a + b * b + c * c + d * d
    det = abs(a * d - b * c)
    if det == 0:
        return float("inf")
    disc = max(s * s - 4 * det * det, 0.0)
    s1 = math.sqrt((s + math.sqrt(disc)) / 2)
    return s1 * s1 / det


def m_rot(t):
    return (math.cos(t), math.sin(t), -math.sin(t), math.cos(t), 0.0, 0.0)


def is_similarity(m, eps=1e-12):
    a, b, c, d = m[:4]
    n = abs(a) + abs(b)
    if a * d - b * c > 0:
        return abs(a - d) <= eps * n and abs(b + c) <= eps * n
    return abs(a + d) <= eps * n and abs(b - c) <= eps * n


def is_axis(m):
    return m[1] == 0 and m[2] == 0


class Failure(Exception):
    def __init__(self, kind, detail):
        Exception.__init__(self, kind + ": " + detail)
        self.kind = kind
        self.detail = detail


# ---------------------------------------------------------------------------
# value generators
# ---------------------------------------------------------------------------
def coord(rng, nice=False):
    if nice:
        return float(rng.choice([0, 0, 1, 2, 3, 5, 10, -1, -2, -7, 20, 100, 0.5, 2.25]))
    r = rng.random()
    if r < 0.12:
        return 0.0
    if r < 0.35:
        return float(rng.randint(-20, 20))
    mag = 10 ** rng.uniform(-3, 5)
    return mag if rng.random() < 0.5 else -mag


def size(rng, nice=False):
    if nice:
        return float(rng.choice([1, 2, 3, 4, 5, 10, 20, 100, 0.5, 2.5]))
    if rng.random() < 0.25:
        return float(rng.randint(1, 20))
    return 10 ** rng.uniform(-3, 5)


SPECIAL = [
    I6,
    (0.0, 1.0, 1.0, 0.0, 0.0, 0.0),
    (0.0, -1.0, -1.0, 0.0, 0.0, 0.0),
    (0.0, 1.0, -1.0, 0.0, 0.0, 0.0),
    (0.0, -1.0, 1.0, 0.0, 0.0, 0.0),
    (-1.0, 0.0, 0.0, -1.0, 0.0, 0.0),
    (-1.0, 0.0, 0.0, 1.0, 0.0, 0.0),
    (1.0, 0.0, 0.0, -1.0, 0.0, 0.0),
    (2.0, 0.0, 0.0, 2.0, 10.0, -5.0),
    (1.0, 0.0, 0.0, 1.0, 10.0, 20.0),
    (-2.0, 0.0, 0.0, -0.5, 0.0, 0.0),
    (0.0, 2.0, 2.0, 0.0, 3.0, -4.0),
]


def gen_matrix(rng, kind):
    if kind == "identity":
        return I6
    if kind == "special":
        return rng.choice(SPECIAL)
    if kind == "sim":
        th = rng.choice([0.0, math.pi / 2, math.pi, rng.uniform(-tau, tau), rng.uniform(-tau, tau), math.radians(30), math.radians(45)])
        s = rng.choice([1.0, 2.0, 10 ** rng.uniform(-1.3, 1.3)])
        m = mcompose(m_rot(th), (s, 0.0, 0.0, s, 0.0, 0.0))
        if rng.random() < 0.4:
            m = mcompose((1.0, 0.0, 0.0, -1.0, 0.0, 0.0), m)
        if rng.random() < 0.6:
            m = mcompose(m, (1.0, 0.0, 0.0, 1.0, coord(rng), coord(rng)))
        return m
    if kind == "axis":
        while True:
            sx = 10 ** rng.uniform(-1.3, 1.3) * rng.choice([1, 1, -1])
            sy = 10 ** rng.uniform(-1.3, 1.3) * rng.choice([1, 1, -1])
            m = (sx, 0.0, 0.0, sy, 0.0, 0.0)
            if mcond(m) <= 400:
                break
        if rng.random() < 0.6:
            m = mcompose(m, (1.0, 0.0, 0.0, 1.0, coord(rng), coord(rng)))
        return m
    # general: shear / rotated anisotropic scale
    while True:
        m = I6
        for _ in range(rng.randint(1, 4)):
            k = rng.randrange(5)
            if k == 0:
                e = m_rot(rng.uniform(-tau, tau))
            elif k == 1:
                e = (10 ** rng.uniform(-1.3, 1.3) * rng.choice([1, 1, -1]), 0.0, 0.0, 10 ** rng.uniform(-1.3, 1.3) * rng.choice([1, 1, -1]), 0.0, 0.0)
            elif k == 2:
                e = (1.0, 0.0, math.tan(rng.uniform(-1.4, 1.4)), 1.0, 0.0, 0.0)
            elif k == 3:
                e = (1.0, math.tan(rng.uniform(-1.4, 1.4)), 0.0, 1.0, 0.0, 0.0)
            else:
                e = (1.0, 0.0, 0.0, 1.0, coord(rng), coord(rng))
            m = mcompose(m, e)
        if mcond(m) <= 400 and 1e-3 < abs(mdet(m)) < 1e3:
            return m


def num_str(rng, v):
    """a legal SVG number spelling of v (value preserved exactly)"""
    r = rng.random()
    if r < 0.6:
        return repr(float(v))
    if r < 0.7 and float(v).is_integer() and abs(v) < 1e15:
        return "%d" % v
    if r < 0.8:
        return repr(float(v)) + "px"
    if r < 0.9 and v >= 0:
        return "+" + repr(float(v))
    return "%.17e" % v


def lib_transform(rng, m):
    r = rng.random()
    if r < 0.5:
        return Matrix(*m)
    if r < 0.8:
        return "matrix(%r %r %r %r %r %r)" % m
    return "matrix(%r,%r,%r,%r,%r,%r)" % m


# ---------------------------------------------------------------------------
# SVG 2 chapter 10 equivalent paths (the oracle)
# ---------------------------------------------------------------------------
def rect_used_radii(w, h, rx_spec, ry_spec):
    """SVG 2 10.2 'used values for rx and ry'. spec: None (auto) | number | ('%', p)"""

    def absolute(spec, ref):
        if isinstance(spec, tuple):
            return spec[1] / 100.0 * ref
        return spec

    if rx_spec is None and ry_spec is None:
        rx = ry = 0.0
    elif ry_spec is None:
        rx = ry = absolute(rx_spec, w)
    elif rx_spec is None:
        rx = ry = absolute(ry_spec, h)
    else:
        rx = absolute(rx_spec, w)
        ry = absolute(ry_spec, h)
    rx = min(rx, w / 2.0)
    ry = min(ry, h / 2.0)
    return rx, ry


def rect_path(x, y, w, h, rx, ry):
    if w == 0 or h == 0:
        return []
    if rx > 0 and ry > 0:
        q = tau / 4
        return [
            ("M", (x + rx, y)),
            ("L", (x + rx, y), (x + w - rx, y)),
            ("A", (x + w - rx, y), (x + w, y + ry), (x + w - rx, y + ry), rx, ry, -q),
            ("L", (x + w, y + ry), (x + w, y + h - ry)),
            ("A", (x + w, y + h - ry), (x + w - rx, y + h), (x + w - rx, y + h - ry), rx, ry, 0.0),
            ("L", (x + w - rx, y + h), (x + rx, y + h)),
            ("A", (x + rx, y + h), (x, y + h - ry), (x + rx, y + h - ry), rx, ry, q),
            ("L", (x, y + h - ry), (x, y + ry)),
            ("A", (x, y + ry), (x + rx, y), (x + rx, y + ry), rx, ry, 2 * q),
            ("Z", (x + rx, y), (x + rx, y)),
        ]
    return [
        ("M", (x, y)),
        ("L", (x, y), (x + w, y)),
        ("L", (x + w, y), (x + w, y + h)),
        ("L", (x + w, y + h), (x, y + h)),
        ("Z", (x, y + h), (x, y)),
    ]


def ellipse_path(cx, cy, rx, ry):
    if rx == 0 or ry == 0:
        return []
    q = tau / 4
    c = (cx, cy)
    p = [(cx + rx, cy), (cx, cy + ry), (cx - rx, cy), (cx, cy - ry)]
    return [
        ("M", p[0]),
        ("A", p[0], p[1], c, rx, ry, 0.0),
        ("A", p[1], p[2], c, rx, ry, q),
        ("A", p[2], p[3], c, rx, ry, 2 * q),
        ("A", p[3], p[0], c, rx, ry, 3 * q),
        ("Z", p[0], p[0]),
    ]


def line_path(x1, y1, x2, y2):
    return [("M", (x1, y1)), ("L", (x1, y1), (x2, y2))]


def poly_path(points, closed):
    if not points:
        return []
    out = [("M", points[0])]
    for a, b in zip(points, points[1:]):
        out.append(("L", a, b))
    if closed:
        out.append(("Z", points[-1], points[0]))
    return out


TYPES = {"M": Move, "L": Line, "Z": Close, "A": Arc}


def oracle_points(cmds):
    pts = []
    for c in cmds:
        pts.extend(c[1:3] if c[0] != "M" else c[1:2])
    return pts


def oracle_bbox(cmds, m):
    """exact bbox of the mapped oracle path (arcs: quarter arcs of the mapped ellipse)"""
    xs, ys = [], []
    for c in cmds:
        if c[0] == "M":
            pts = [c[1]]
        else:
            pts = [c[1], c[2]]
        for p in pts:
            q = mapply(m, p)
            xs.append(q[0])
            ys.append(q[1])
        if c[0] == "A":
            _, p0, p1, cen, rx, ry, th0 = c
            a, b, cc, d, e, f = m
            # x(t) = cx' + a rx cos t + c ry sin t ; y(t) = cy' + b rx cos t + d ry sin t
            cx_, cy_ = mapply(m, cen)
            for (A, B, store, base) in ((a * rx, cc * ry, xs, cx_), (b * rx, d * ry, ys, cy_)):
                t0 = math.atan2(B, A)
                for t in (t0, t0 + math.pi):
                    # inside [th0, th0 + tau/4] ?
                    dt = (t - th0) % tau
                    if 0 <= dt <= tau / 4:
                        store.append(base + A * math.cos(t) + B * math.sin(t))
    if not xs:
        return None
    return (min(xs), min(ys), max(xs), max(ys))


def ellipse_quarter_length(rx, ry):
    # numeric integration (Simpson, 2000 intervals) of sqrt(rx^2 sin^2 + ry^2 cos^2) over a quarter
    n = 2000
    h = (tau / 4) / n
    f = lambda t: math.sqrt((rx * math.sin(t)) ** 2 + (ry * math.cos(t)) ** 2)
    s = f(0) + f(tau / 4)
    for i in range(1, n):
        s += (4 if i % 2 else 2) * f(i * h)
    return s * h / 3


def oracle_length(cmds, m):
    """length of the mapped oracle path; arcs only for similarity or axis-aligned m"""
    total = 0.0
    for c in cmds:
        if c[0] in "LZ":
            p, q = mapply(m, c[1]), mapply(m, c[2])
            total += math.hypot(p[0] - q[0], p[1] - q[1])
        elif c[0] == "A":
            _, p0, p1, cen, rx, ry, th0 = c
            if is_axis(m):
                total += ellipse_quarter_length(abs(m[0]) * rx, abs(m[3]) * ry)
            else:
                s = math.sqrt(abs(mdet(m)))
                total += ellipse_quarter_length(s * rx, s * ry)
    return total


# ---------------------------------------------------------------------------
# comparison of library segments with the oracle
# ---------------------------------------------------------------------------
STRIPPED = re.compile(r"E[-+][0-9](?![0-9])")  # %G never prints a one-digit exponent: proof that zeros were stripped


def text_compare(kind, txt, cmds, m, ctx):
    try:
        compare(kind, Path(txt).segments(), cmds, m, ctx + " d=%r" % txt, "ends", rel=1e-10 * 20)
    except Failure as f:
        if STRIPPED.search(txt):
            raise Failure(f.kind + "[one-digit exponent in text]", f.detail)
        raise


def P(p):
    return None if p is None else (float(p.x), float(p.y))


def near(p, q, tol):
    return p is not None and abs(p[0] - q[0]) <= tol and abs(p[1] - q[1]) <= tol


def compare(kind, segs, cmds, m, ctx, arcs="full", rel=1e-9):
    """arcs: 'full' (end points + on-ellipse), 'ends' (end points only)"""
    segs = list(segs)
    if len(segs) != len(cmds):
        raise Failure(kind + "/count", "expected %d segments (%s) got %d (%s) %s" % (len(cmds), "".join(c[0] for c in cmds), len(segs), " ".join(type(s).__name__ for s in segs), ctx))
    scale = max([1e-300] + [max(abs(v) for v in mapply(m, p)) for p in oracle_points(cmds)])
    tol = rel * scale + 1e-12
    inv = minverse(m)
    for i, (s, c) in enumerate(zip(segs, cmds)):
        if type(s) is not TYPES[c[0]]:
            raise Failure(kind + "/type", "segment %d expected %s got %s %s" % (i, TYPES[c[0]].__name__, type(s).__name__, ctx))
        if c[0] == "M":
            e = mapply(m, c[1])
            if not near(P(s.end), e, tol):
                raise Failure(kind + "/move", "segment %d expected end %r got %r %s" % (i, e, P(s.end), ctx))
            continue
        e0, e1 = mapply(m, c[1]), mapply(m, c[2])
        if not near(P(s.start), e0, tol) or not near(P(s.end), e1, tol):
            raise Failure(kind + "/" + TYPES[c[0]].__name__.lower() + "-ends", "segment %d expected %r->%r got %r->%r (tol %g) %s" % (i, e0, e1, P(s.start), P(s.end), tol, ctx))
        if c[0] in "LZ":
            mid = P(s.point(0.5))
            em = ((e0[0] + e1[0]) / 2, (e0[1] + e1[1]) / 2)
            if not near(mid, em, tol):
                raise Failure(kind + "/line-mid", "segment %d %s" % (i, ctx))
        elif c[0] == "A" and arcs == "full":
            _, p0, p1, cen, rx, ry, th0 = c
            for t in (0.0, 0.13, 0.5, 0.77, 1.0):
                q = P(s.point(t))
                u = mapply(inv, q)  # back in user space
                nx, ny = (u[0] - cen[0]) / rx, (u[1] - cen[1]) / ry
                rad = math.hypot(nx, ny)
                # allow for conditioning: a point is known to ~rel*scale in device space
                back = max(abs(inv[0]) + abs(inv[2]), abs(inv[1]) + abs(inv[3])) * tol / min(rx, ry)
                atol = 1e-7 + 100 * back
                if abs(rad - 1) > atol:
                    raise Failure(kind + "/arc-off-ellipse", "segment %d point(%g) maps back to normalised radius %r (tol %g) %s" % (i, t, rad, atol, ctx))
                ang = (math.atan2(ny, nx) - th0) % tau
                if ang > tau / 2:
                    ang -= tau
                if not (-atol <= ang <= tau / 4 + atol):
                    raise Failure(kind + "/arc-wrong-quadrant", "segment %d point(%g) at angle %r past the quadrant start %r %s" % (i, t, ang, th0, ctx))


def bbox_close(kind, got, exp, ctx, rel=1e-9):
    if exp is None or got is None:
        if exp is not got:
            raise Failure(kind, "expected %r got %r %s" % (exp, got, ctx))
        return
    scale = max(abs(v) for v in exp)
    tol = rel * scale + 1e-12
    for g, e in zip(got, exp):
        if abs(g - e) > tol:
            raise Failure(kind, "expected %r got %r (tol %g) %s" % (exp, got, tol, ctx))


def text_abs(cmds, m):
    """absolute slack for lengths measured on a path re-read from text with 12 significant digits"""
    scale = max([0.0] + [max(abs(v) for v in mapply(m, p)) for p in oracle_points(cmds)])
    return 4 * len(cmds) * 1e-11 * scale


def length_close(kind, got, exp, ctx, rel, extra=0.0):
    if abs(got - exp) > rel * abs(exp) + 1e-12 + extra:
        raise Failure(kind, "expected %r got %r %s" % (exp, got, ctx))


# ---------------------------------------------------------------------------
# shape generation: abstract parameters -> (library object, oracle commands, description)
# ---------------------------------------------------------------------------
def spec_value(rng, spec):
    """library-side spelling of a radius spec"""
    if spec is None:
        return None
    if isinstance(spec, tuple):
        return "%r%%" % spec[1]
    return spec


def gen_rect(rng, tkw):
    nice = rng.random() < 0.35
    x, y = coord(rng, nice), coord(rng, nice)
    w, h = size(rng, nice), size(rng, nice)
    zr = rng.random()
    if zr < 0.04:
        w = 0.0
    elif zr < 0.08:
        h = 0.0

    def rspec(ref):
        r = rng.random()
        if r < 0.25:
            return None
        if r < 0.35:
            return 0.0
        if r < 0.6:
            return ref * rng.uniform(0.01, 0.5)
        if r < 0.7:
            return ref * 0.5
        if r < 0.85:
            return ref * rng.uniform(0.5, 3)  # over-large
        return ("%", float(rng.choice([0, 5, 10, 25, 50, 75, 100, 150, rng.uniform(0, 120)])))

    rx_spec, ry_spec = rspec(w or 1.0), rspec(h or 1.0)
    rx, ry = rect_used_radii(w, h, rx_spec, ry_spec)
    cmds = rect_path(x, y, w, h, rx, ry)
    how = rng.choice(["pos", "kw", "dict", "mixed"])
    lrx, lry = spec_value(rng, rx_spec), spec_value(rng, ry_spec)
    desc = "Rect[%s](x=%r y=%r w=%r h=%r rx=%r ry=%r)" % (how, x, y, w, h, lrx, lry)
    if how == "pos":
        args = [x, y, w, h]
        if lrx is not None or lry is not None:
            args.append(lrx)
            if lry is not None:
                args.append(lry)
        if "transform" in tkw and rng.random() < 0.5:
            while len(args) < 6:
                args.append(None)
            args.append(tkw["transform"])
            shape = Rect(*args)
        else:
            shape = Rect(*args, **tkw)
    elif how == "kw":
        kw = dict(x=x, y=y, width=w, height=h)
        if lrx is not None:
            kw["rx"] = lrx
        if lry is not None:
            kw["ry"] = lry
        kw.update(tkw)
        shape = Rect(**kw)
    elif how == "dict":
        dct = {"x": num_str(rng, x), "y": num_str(rng, y), "width": num_str(rng, w), "height": num_str(rng, h)}
        if lrx is not None:
            dct["rx"] = lrx if isinstance(lrx, str) else num_str(rng, lrx)
        if lry is not None:
            dct["ry"] = lry if isinstance(lry, str) else num_str(rng, lry)
        if "transform" in tkw:
            dct["transform"] = tkw["transform"]
        shape = Rect(dct)
    else:
        kw = {}
        if lrx is not None:
            kw["rx"] = lrx
        if lry is not None:
            kw["ry"] = lry
        kw.update(tkw)
        shape = Rect(x, y, w, h, **kw)
    return shape, cmds, desc, (rx > 0 and ry > 0)


def gen_round(rng, tkw, circle):
    nice = rng.random() < 0.35
    cx, cy = coord(rng, nice), coord(rng, nice)
    rx = size(rng, nice)
    ry = rx if circle else size(rng, nice)
    zr = rng.random()
    if zr < 0.05:
        rx = 0.0
        if circle:
            ry = 0.0
    elif zr < 0.1 and not circle:
        ry = 0.0
    cmds = ellipse_path(cx, cy, rx, ry)
    how = rng.choice(["pos", "kw", "dict", "center"])
    cls = Circle if circle else Ellipse
    desc = "%s[%s](cx=%r cy=%r rx=%r ry=%r)" % (cls.__name__, how, cx, cy, rx, ry)
    if how == "pos":
        args = [cx, cy, rx] if circle else [cx, cy, rx, ry]
        if "transform" in tkw and rng.random() < 0.5:
            if circle:
                args.append(rx)
            args.append(tkw["transform"])
            shape = cls(*args)
        else:
            shape = cls(*args, **tkw)
    elif how == "kw":
        kw = dict(cx=cx, cy=cy, r=rx) if circle else dict(cx=cx, cy=cy, rx=rx, ry=ry)
        kw.update(tkw)
        shape = cls(**kw)
    elif how == "dict":
        dct = {"cx": num_str(rng, cx), "cy": num_str(rng, cy)}
        if circle:
            dct["r"] = num_str(rng, rx)
        else:
            dct["rx"] = num_str(rng, rx)
            dct["ry"] = num_str(rng, ry)
        if "transform" in tkw:
            dct["transform"] = tkw["transform"]
        shape = cls(dct)
    else:
        kw = dict(center=(cx, cy), r=rx) if circle else dict(center=(cx, cy), rx=rx, ry=ry)
        kw.update(tkw)
        shape = cls(**kw)
    return shape, cmds, desc, bool(cmds)


def gen_line(rng, tkw):
    nice = rng.random() < 0.35
    v = [coord(rng, nice) for _ in range(4)]
    if rng.random() < 0.1:
        v[2], v[3] = v[0], v[1]
    cmds = line_path(*v)
    how = rng.choice(["pos", "kw", "dict"])
    desc = "SimpleLine[%s]%r" % (how, v)
    if how == "pos":
        if "transform" in tkw and rng.random() < 0.5:
            shape = SimpleLine(*(v + [tkw["transform"]]))
        else:
            shape = SimpleLine(*v, **tkw)
    elif how == "kw":
        shape = SimpleLine(x1=v[0], y1=v[1], x2=v[2], y2=v[3], **tkw)
    else:
        dct = dict(zip(("x1", "y1", "x2", "y2"), (num_str(rng, t) for t in v)))
        dct.update(tkw)
        shape = SimpleLine(dct)
    return shape, cmds, desc, False


def gen_poly(rng, tkw, closed):
    nice = rng.random() < 0.35
    n = rng.choice([0, 1, 1, 2, 2, 3, 3, 4, 5, 7])
    pts = [(coord(rng, nice), coord(rng, nice)) for _ in range(n)]
    if n > 1 and rng.random() < 0.35:
        i = rng.randrange(1, n)
        pts[i] = pts[i - 1]  # repeated point
    if n > 2 and rng.random() < 0.15:
        pts[-1] = pts[0]
    cmds = poly_path(pts, closed)
    cls = Polygon if closed else Polyline
    how = rng.choice(["tuples", "list", "flat", "flatlist", "str", "kwstr", "kwlist", "dict", "complex", "points"])
    desc = "%s[%s]%r" % (cls.__name__, how, pts)
    if how == "tuples":
        shape = cls(*pts, **tkw)
    elif how == "list":
        shape = cls(list(pts), **tkw)
    elif how == "flat":
        shape = cls(*[v for p in pts for v in p], **tkw)
    elif how == "flatlist":
        shape = cls([v for p in pts for v in p], **tkw)
    elif how == "complex":
        shape = cls(*[complex(*p) for p in pts], **tkw)
    elif how == "points":
        shape = cls(*[Point(*p) for p in pts], **tkw)
    else:
        sep1 = rng.choice([",", " ", " , "])
        sep2 = rng.choice([" ", ",", "\n", ", "])
        spell = rng.choice([repr, repr, lambda v: "%.17e" % v, lambda v: ("%.17E" % v)])
        txt = sep2.join("%s%s%s" % (spell(p[0]), sep1, spell(p[1])) for p in pts)
        if how == "str":
            shape = cls(txt, **tkw)
        elif how == "kwstr":
            shape = cls(points=txt, **tkw)
        elif how == "kwlist":
            shape = cls(points=list(pts), **tkw)
        else:
            dct = {"points": txt}
            dct.update(tkw)
            shape = cls(dct)
    return shape, cmds, desc, False


def nice_matrix(m):
    return all(float(v * 4).is_integer() and abs(v) < 1e6 for v in m)


def one_case(rng):
    kind = rng.choice(["rect", "rect", "rect", "circle", "ellipse", "line", "polyline", "polygon"])
    mk = rng.choice(["identity", "sim", "sim", "axis", "axis", "gen", "special", "special"])
    m = gen_matrix(rng, mk)
    tkw = {}
    if m != I6 or rng.random() < 0.3:
        tkw["transform"] = lib_transform(rng, m)
    if kind == "rect":
        shape, cmds, desc, has_arc = gen_rect(rng, tkw)
    elif kind in ("circle", "ellipse"):
        if not (is_similarity(m) or is_axis(m)):
            m = gen_matrix(rng, rng.choice(["sim", "axis"]))
            tkw["transform"] = lib_transform(rng, m)
        shape, cmds, desc, has_arc = gen_round(rng, tkw, kind == "circle")
    elif kind == "line":
        shape, cmds, desc, has_arc = gen_line(rng, tkw)
    else:
        shape, cmds, desc, has_arc = gen_poly(rng, tkw, kind == "polygon")
    ctx = "%s transform=%r" % (desc, tkw.get("transform"))
    arcs_ok = is_similarity(m) or is_axis(m)
    arcs = "full" if arcs_ok else "ends"
    tag = ""
    if has_arc:
        if m[0] * m[3] == 0 and mdet(m) < 0:
            tag = "[diag-reflection]"
        elif is_axis(m) and m[0] < 0 and m[3] < 0:
            tag = "[scale(-,-)]"
    try:
        checks(rng, shape, cmds, m, ctx, arcs, has_arc, arcs_ok)
    except Failure as f:
        raise Failure(kind + ":" + f.kind + tag, f.detail)


def checks(rng, shape, cmds, m, ctx, arcs, has_arc, arcs_ok):
    # --- 1. decomposition, untransformed and transformed
    compare("segments(False)", shape.segments(transformed=False), cmds, I6, ctx, "full")
    compare("segments(True)", shape.segments(transformed=True), cmds, m, ctx, arcs)
    # degenerate shapes produce nothing at all
    if not cmds:
        if shape.d() != "" or shape.d(transformed=False) != "":
            raise Failure("degenerate/d", "d()=%r %s" % (shape.d(), ctx))
        if len(Path(shape)) != 0:
            raise Failure("degenerate/Path(shape)", ctx)
        if shape.bbox() is not None:
            raise Failure("degenerate/bbox", "bbox=%r %s" % (shape.bbox(), ctx))
        if shape.length() != 0:
            raise Failure("degenerate/length", "length=%r %s" % (shape.length(), ctx))
        return
    # --- 2. Path(shape)
    p1 = Path(shape)
    compare("Path(shape).segments(False)", p1.segments(transformed=False), cmds, I6, ctx, "full")
    compare("Path(shape).segments(True)", p1.segments(transformed=True), cmds, m, ctx, arcs)
    compare("abs(Path(shape))", abs(p1).segments(transformed=False), cmds, m, ctx, arcs)
    # --- 3. Path(shape.d()) (text: 12 digits, arcs 6 digits -> loose, end points only for arcs)
    d = shape.d()
    p2 = Path(d)
    text_compare("Path(shape.d())", d, cmds, m, ctx)
    du = shape.d(transformed=False)
    p3 = Path(du)
    text_compare("Path(shape.d(transformed=False))", du, cmds, I6, ctx)
    dr = shape.d(relative=True)
    p4 = Path(dr)
    text_compare("Path(shape.d(relative=True))", dr, cmds, m, ctx)
    # --- 4. abs(shape) / copy
    a = abs(shape)
    compare("abs(shape).segments(True)", a.segments(transformed=True), cmds, m, ctx, arcs)
    c = copy(shape)
    compare("copy(shape).segments(True)", c.segments(transformed=True), cmds, m, ctx, arcs)
    ca = copy(a)
    compare("copy(abs(shape)).segments(True)", ca.segments(transformed=True), cmds, m, ctx, arcs)
    compare("Path(abs(shape))", Path(a).segments(transformed=True), cmds, m, ctx, arcs)
    # --- 5. library equality (only where the library's own 1e-12 absolute tolerance can be expected to hold)
    if not (shape == p1):
        raise Failure("eq/shape==Path(shape)", ctx)
    if not (p1 == shape):
        raise Failure("eq/Path(shape)==shape", ctx)
    if shape != p1:
        raise Failure("ne/shape!=Path(shape)", ctx)
    # (abs(shape) == shape through the library's own == is NOT asserted for random data: Point.__eq__ is an absolute
    #  1e-12 comparison and Path.__eq__ compares stroke_width exactly, so two correct evaluation orders already differ;
    #  the numeric comparison above is the real check.  The 'nice' cases assert it on exactly representable data.)
    if not (c == shape):
        raise Failure("eq/copy(shape)==shape", ctx)
    # --- 6. bounding boxes
    if arcs_ok or not has_arc:
        eb = oracle_bbox(cmds, m)
        bbox_close("bbox/shape", shape.bbox(), eb, ctx)
        bbox_close("bbox/Path(shape)", p1.bbox(), eb, ctx)
        bbox_close("bbox/abs(shape)", a.bbox(), eb, ctx)
        if not has_arc:  # arcs: radii are printed with 6 digits (known), flat ellipses amplify that arbitrarily
            bbox_close("bbox/Path(shape.d())", p2.bbox(), eb, ctx, rel=1e-9)
        ebu = oracle_bbox(cmds, I6)
        bbox_close("bbox(False)/shape", shape.bbox(transformed=False), ebu, ctx)
        bbox_close("bbox(False)/Path(shape)", p1.bbox(transformed=False), ebu, ctx)
    # --- 7. lengths (arcs only while cheap: radii small enough for the library's chord recursion)
    big_arc = has_arc and max(max(c_[4], c_[5]) if c_[0] == "A" else 0 for c_ in cmds) * max(1.0, max(abs(v) for v in m[:4])) > 2
    if not big_arc:
        lu = oracle_length(cmds, I6)
        rel = 1e-6 if has_arc else 1e-9
        length_close("length/shape", shape.length(), lu, ctx, rel)
        length_close("length/Path(shape)", p1.length(), lu, ctx, rel)
        if not has_arc:
            length_close("length/Path(shape.d(False))", p3.length(), lu, ctx, 1e-9, text_abs(cmds, I6))
        if arcs_ok or not has_arc:
            lt = oracle_length(cmds, m)
            length_close("length/abs(Path(shape))", abs(p1).length(), lt, ctx, rel)
            if not has_arc:
                length_close("length/Path(shape.d())", p2.length(), lt, ctx, 1e-9, text_abs(cmds, m))


def why_unequal(p, q):
    """p, q: reified paths that the library calls unequal; name the first attribute that differs"""
    if len(p) != len(q):
        return "{count}"
    for s, o in zip(p, q):
        if s == o:
            continue
        if type(s) is not type(o):
            return "{type}"
        if isinstance(s, Arc):
            if s.start != o.start or s.end != o.end:
                return "{arc end points}"
            if s.center != o.center:
                return "{arc center}"
            if s.prx != o.prx:
                return "{arc prx}"
            if s.pry != o.pry:
                mirrored = Point(2 * s.center.x - s.pry.x, 2 * s.center.y - s.pry.y)
                return "{arc pry mirrored}" if mirrored == o.pry else "{arc pry}"
            if s.sweep != o.sweep:
                return "{arc sweep differs by %.0e}" % abs(s.sweep - o.sweep) if abs(s.sweep - o.sweep) < 1e-9 else "{arc sweep}"
        return "{%s points}" % type(s).__name__
    if p.stroke_width != q.stroke_width:
        return "{stroke_width}"
    return "{?}"


def nice_case(rng):
    """small 'textbook' inputs where even the library's own == (1e-12 absolute) has to hold through the text form"""
    kind = rng.choice(["rect", "rrect", "circle", "ellipse", "line", "polyline", "polygon"])
    m = rng.choice(SPECIAL[:10])
    tkw = {} if m == I6 else {"transform": Matrix(*m)}
    iv = lambda lo, hi: float(rng.randint(lo, hi))
    if kind == "rect":
        shape = Rect(iv(-9, 9), iv(-9, 9), iv(1, 20), iv(1, 20), **tkw)
    elif kind == "rrect":
        shape = Rect(iv(-9, 9), iv(-9, 9), iv(4, 20), iv(4, 20), iv(1, 2), iv(1, 2), **tkw)
    elif kind == "circle":
        shape = Circle(iv(-9, 9), iv(-9, 9), iv(1, 9), **tkw)
    elif kind == "ellipse":
        shape = Ellipse(iv(-9, 9), iv(-9, 9), iv(1, 9), iv(1, 9), **tkw)
    elif kind == "line":
        shape = SimpleLine(iv(-9, 9), iv(-9, 9), iv(-9, 9), iv(-9, 9), **tkw)
    else:
        pts = [(iv(-9, 9), iv(-9, 9)) for _ in range(rng.randint(1, 5))]
        shape = (Polyline if kind == "polyline" else Polygon)(*pts, **tkw)
    ctx = "%r" % shape
    tag = ""
    if kind in ("rrect", "circle", "ellipse"):
        if m[0] * m[3] == 0 and mdet(m) < 0:
            tag = "[diag-reflection]"
        elif m[0] < 0 and m[3] < 0:
            tag = "[scale(-,-)]"
    p1 = Path(shape)
    p2 = Path(shape.d())
    p2.stroke_width = abs(p1).stroke_width  # the text form does not carry the stroke width
    try:
        if not (shape == p1):
            raise Failure("nice-eq/shape==Path(shape)", ctx)
        if not (p2 == shape) or not (p2 == p1):
            raise Failure("nice-eq/Path(shape.d())==shape" + why_unequal(p2, abs(p1)), ctx + " d=%r" % shape.d())
        if not (abs(shape) == shape):
            raise Failure("nice-eq/abs(shape)==shape", ctx + " abs=%r" % abs(shape))
        if not (Path(abs(shape)) == p1):
            raise Failure("nice-eq/Path(abs(shape))==Path(shape)", ctx + " abs=%r" % abs(shape))
        if not (copy(abs(shape)) == shape):
            raise Failure("nice-eq/copy(abs(shape))==shape", ctx + " abs=%r copy=%r" % (abs(shape), copy(abs(shape))))
        b0, b1, b2 = shape.bbox(), p1.bbox(), p2.bbox()
        for x, y in zip(b0, b1):
            if abs(x - y) > 1e-9:
                raise Failure("nice-bbox/shape vs Path(shape)", "%r %r %s" % (b0, b1, ctx))
        for x, y in zip(b0, b2):
            if abs(x - y) > 1e-9:
                raise Failure("nice-bbox/shape vs Path(shape.d())", "%r %r %s" % (b0, b2, ctx))
    except Failure as f:
        raise Failure(kind + ":" + f.kind + tag, f.detail)


CASES = [("random", one_case, 5), ("nice", nice_case, 1)]


def main():
    seed = int(sys.argv[1]) if len(sys.argv) > 1 else 0
    n = int(sys.argv[2]) if len(sys.argv) > 2 else 1000
    counts = Counter()
    fails = defaultdict(list)
    errors = defaultdict(list)
    master = random.Random(seed)
    weights = [w for _, _, w in CASES]
    for i in range(n):
        cs = master.randrange(1 << 62)
        name, fn, _ = master.choices(CASES, weights)[0]
        counts[name] += 1
        try:
            fn(random.Random(cs))
        except Failure as f:
            fails[(name, f.kind)].append((cs, f.detail))
            if VERBOSE:
                print("FAIL", name, cs, f.kind, f.detail[:600])
        except Exception as e:
            tb = traceback.extract_tb(sys.exc_info()[2])
            where = "%s:%d" % (tb[-1].name, tb[-1].lineno)
            errors[(name, type(e).__name__ + "@" + where)].append((cs, repr(e)))
            if VERBOSE:
                traceback.print_exc()
    print("seed", seed, "cases", dict(counts))
    print("== property failures ==")
    for (name, kind), lst in sorted(fails.items()):
        print("%-7s %-62s %5d of %d  first: case-seed %d" % (name, kind, len(lst), counts[name], lst[0][0]))
        print("      ", lst[0][1][:700])
    print("== exceptions ==")
    for (name, kind), lst in sorted(errors.items()):
        print("%-7s %-62s %5d of %d  first: case-seed %d %s" % (name, kind, len(lst), counts[name], lst[0][0], lst[0][1][:300]))


if __name__ == "__main__":
    if len(sys.argv) > 1 and sys.argv[1] == "replay":
        fn = dict((n, f) for n, f, _ in CASES)[sys.argv[2]]
        fn(random.Random(int(sys.argv[3])))
    else:
        main()
