"""Random harness for property C16 (reverse() traces the same geometry backwards, involution,
subpath views only touch their own subpath).

usage: /venv/bin/python harness_C16.py SEED N [-v]

Oracle (independent of the library): segments are snapshotted to plain tuples and sampled with
oracle_common.sample().  The expected reversed path is derived here from the snapshot of the
ORIGINAL path:
  * subpaths (split at Move / after Close by split() below) appear in reverse order,
  * every drawn segment k of a subpath is matched by segment n-1-k with q(t) = p(1-t)
    (for arcs that is the same ellipse with the sweep negated),
  * closed subpaths stay closed: as a closed loop the chain (drawn segments + closing line) may
    start anywhere, so closed chains are compared up to rotation, zero-length lines ignored,
  * Move-only subpaths keep their point,
  * the result is connected (start == previous end, Close.end == subpath start, Move.end ==
    next start),
  * reversing twice restores every defining point,
  * Subpath.reverse() leaves all segments outside its window untouched (Move.start, a pure link
    field, is ignored).
Histories: whole path, each subpath view, twice, interleaved with transforms (similarities when
arcs are present, any affine map otherwise) applied through path*=M;reify() or Subpath*=M.
"""
import json
import math
import random
import sys
import traceback

sys.path.insert(0, "/tmp/dz/C07_C16")
from harness_C07 import Gen, build_api, rnd_matrix, write_d, apply  # noqa: E402
from oracle_common import TS, dist, end_of, sample, scale_of, snapshot, start_of  # noqa: E402
from svgelements import Matrix, Move, Path  # noqa: E402


def split(snaps):
    subs, cur = [], []
    for s in snaps:
        if s[0] == "Move" and cur:
            subs.append(cur)
            cur = []
        cur.append(s)
        if s[0] == "Close":
            subs.append(cur)
            cur = []
    if cur:
        subs.append(cur)
    return subs


def windows(snaps):
    out, i = [], 0
    for sub in split(snaps):
        out.append((i, i + len(sub) - 1))
        i += len(sub)
    return out


def chain(sub):
    has_move = sub[0][0] == "Move"
    closed = sub[-1][0] == "Close"
    drawn = [s for s in sub if s[0] != "Move"]
    return dict(has_move=has_move, closed=closed, drawn=drawn, move=sub[0][2] if has_move else None)


def seg_matches_reversed(new, old, tol, m_new=None, m_old=None):
    """new(t) == old(1-t) ?  (matrices are applied to the sampled points)"""
    ko = "Line" if old[0] == "Close" else old[0]
    kn = "Line" if new[0] == "Close" else new[0]
    if ko != kn:
        return "kind %s vs %s" % (kn, ko)
    if any(f is None for f in new[1:]):
        return "a defining point of the new %s is None (point lost): %r" % (new[0], new)
    for t in TS:
        pn = apply(m_new, sample(new, t))
        po = apply(m_old, sample(old, 1 - t))
        e = dist(pn, po)
        if not e <= tol:
            return "t=%g expected %r actual %r (err %.3g)" % (t, po, pn, e)
    return None


def seg_matches_forward(new, old, tol, m_old=None):
    ko = "Line" if old[0] == "Close" else old[0]
    kn = "Line" if new[0] == "Close" else new[0]
    if ko != kn:
        return "kind %s vs %s" % (kn, ko)
    if any(f is None for f in new[1:]):
        return "a defining point of the new %s is None (point lost): %r" % (new[0], new)
    for t in TS:
        pn = sample(new, t)
        po = apply(m_old, sample(old, t))
        e = dist(pn, po)
        if not e <= tol:
            return "t=%g expected %r actual %r (err %.3g)" % (t, po, pn, e)
    return None


def is_zero_line(s):
    return s[0] in ("Line", "Close") and s[1] is not None and s[1] == s[2]


def compare_chain(new_c, old_c, tol, reverse, m_old=None):
    """new chain vs (reversed, transformed) old chain; None when fine."""
    if new_c["closed"] != old_c["closed"]:
        return "closedness: expected closed=%s actual closed=%s" % (old_c["closed"], new_c["closed"])
    match = (lambda n, o: seg_matches_reversed(n, o, tol, None, m_old)) if reverse else (
        lambda n, o: seg_matches_forward(n, o, tol, m_old)
    )
    if not old_c["drawn"] or not new_c["drawn"]:
        if len(old_c["drawn"]) != len(new_c["drawn"]):
            return "drawn count: expected %d actual %d" % (len(old_c["drawn"]), len(new_c["drawn"]))
        pe, pa = apply(m_old, old_c["move"]), new_c["move"]
        if pa is None or dist(pe, pa) > tol:
            return "move-only point: expected %r actual %r" % (pe, pa)
        return None
    if not old_c["closed"]:
        o, n = old_c["drawn"], new_c["drawn"]
        if len(o) != len(n):
            return "drawn count: expected %d actual %d" % (len(o), len(n))
        order = list(reversed(o)) if reverse else o
        for k, (a, b) in enumerate(zip(n, order)):
            r = match(a, b)
            if r:
                return "drawn segment %d: %s" % (k, r)
        return None
    # closed: cyclic comparison, zero-length lines dropped
    o = [s for s in old_c["drawn"] if not is_zero_line(s)]
    n = [s for s in new_c["drawn"] if not is_zero_line(s)]
    if len(o) != len(n):
        return "closed loop size: expected %d actual %d" % (len(o), len(n))
    if not o:
        pe, pa = apply(m_old, start_of(old_c["drawn"][0])), start_of(new_c["drawn"][0])
        if pa is None or dist(pe, pa) > tol:
            return "degenerate loop point: expected %r actual %r" % (pe, pa)
        return None
    order = list(reversed(o)) if reverse else o
    first_reason = None
    for rot in range(len(o)):
        cand = order[rot:] + order[:rot]
        reason = None
        for k, (a, b) in enumerate(zip(n, cand)):
            reason = match(a, b)
            if reason:
                reason = "loop segment %d: %s" % (k, reason)
                break
        if reason is None:
            return None
        if rot == (len(o) - 1 if reverse else 0) or first_reason is None:
            first_reason = reason
    return "closed loop differs in every rotation; e.g. " + first_reason


def compare_paths(new, old, tol, reverse, m_old=None):
    ns, os_ = split(new), split(old)
    if len(ns) != len(os_):
        return "subpath count: expected %d actual %d" % (len(os_), len(ns))
    order = list(reversed(os_)) if reverse else os_
    for i, (a, b) in enumerate(zip(ns, order)):
        r = compare_chain(chain(a), chain(b), tol, reverse, m_old)
        if r:
            return "subpath %d (original #%d): %s" % (i, (len(os_) - 1 - i) if reverse else i, r)
    return None


def connectivity(snaps, tol):
    sub_start = None
    prev = None
    for i, s in enumerate(snaps):
        st, en = start_of(s), end_of(s)
        if en is None:
            return "segment %d (%s) has end None" % (i, s[0])
        if i > 0 and st is None:
            return "segment %d (%s) has start None" % (i, s[0])
        if prev is not None and s[0] != "Move" and st is not None and dist(st, end_of(prev)) > tol:
            return "segment %d (%s) starts at %r but previous ends at %r" % (i, s[0], st, end_of(prev))
        if s[0] == "Move":
            sub_start = en
        elif sub_start is None:
            sub_start = st
        if s[0] == "Close":
            if sub_start is not None and dist(en, sub_start) > tol:
                return "Close %d ends at %r but the subpath starts at %r" % (i, en, sub_start)
        prev = s
    return None


def same_fields(a, b, tol, ignore_move_start=True):
    """field-wise comparison of two snapshots"""
    if [s[0] for s in a] != [s[0] for s in b]:
        return "kinds %r vs %r" % ([s[0] for s in a], [s[0] for s in b])
    for i, (x, y) in enumerate(zip(a, b)):
        for j, (f, g) in enumerate(zip(x[1:], y[1:])):
            if x[0] == "Move" and j == 0 and ignore_move_start:
                continue
            if i == 0 and j == 0 and (f is None or g is None):
                if f is not g:
                    return "segment 0 start %r vs %r" % (f, g)
                continue
            if isinstance(f, tuple) or isinstance(g, tuple):
                if f is None or g is None or dist(f, g) > tol:
                    return "segment %d (%s) field %d: expected %r actual %r" % (i, x[0], j, f, g)
            elif f is None or g is None or abs(f - g) > 1e-9:
                return "segment %d (%s) sweep: expected %r actual %r" % (i, x[0], f, g)
    return None


def make_path(rng):
    g = Gen(rng, allow_zero=True)
    g.digits = rng.choice((None, 3, 3, 2))  # readable numbers; precision is not the point here
    cmds = g.build()
    source = rng.choice(("d", "d", "api", "fragment"))
    info = dict(source=source)
    if source == "d":
        d_in = write_d(rng, cmds)
        info["d_in"] = d_in
        path = Path(d_in)
    elif source == "api":
        path, desc = build_api(rng, cmds)
        info["api"] = desc
        info["d_equiv"] = write_d(random.Random(0), cmds)
    else:
        # a path fragment without a leading move: explicit start points, no Move in front
        path, desc = build_api(rng, cmds)
        while len(path) and isinstance(path[0], Move):
            del path._segments[0]
        if len(path) == 0 or path[0].start is None:
            path, desc = build_api(rng, cmds)
            info["source"] = "api"
        info["api"] = desc
        info["d_equiv"] = write_d(random.Random(0), cmds)
    return path, info


def mat_mul(m2, m1):
    """apply m1 first, then m2 (own composition)"""
    if m1 is None:
        return m2
    if m2 is None:
        return m1
    a1, b1, c1, d1, e1, f1 = m1
    a2, b2, c2, d2, e2, f2 = m2
    return (
        a2 * a1 + c2 * b1,
        b2 * a1 + d2 * b1,
        a2 * c1 + c2 * d1,
        b2 * c1 + d2 * d1,
        a2 * e1 + c2 * f1 + e2,
        b2 * e1 + d2 * f1 + f2,
    )


def run_case(case_seed):
    rng = random.Random(case_seed)
    path, info = make_path(rng)

    def copy(_ignored):
        # never rely on the library's copy: rebuild the identical path from the same seed
        return make_path(random.Random(case_seed))[0]

    base = snapshot(path._segments)
    wins = windows(base)
    subs = split(base)
    moveless = [i for i, s in enumerate(subs) if s[0][0] != "Move"]
    info["moveless_subpaths"] = moveless
    info["fragment"] = bool(moveless and moveless[0] == 0)
    info["repr"] = " ".join({"Move": "M", "Close": "Z", "Line": "L", "QuadraticBezier": "Q", "CubicBezier": "C", "Arc": "A"}[s[0]] for s in base)
    has_arc = any(s[0] == "Arc" for s in base)
    # structural predicates of the INPUT (own analysis), used to attribute failures
    kinds = [s[0] for s in base]
    info["pred_pure_fragment"] = "Move" not in kinds and "Close" not in kinds
    info["pred_moveless_becomes_first"] = bool(moveless) and (len(subs) - 1) in moveless
    info["pred_moveless_not_first"] = any(i > 0 for i in moveless)
    info["pred_closed_nonzero_then_moveless"] = any(
        subs[i][0][0] == "Move"
        and subs[i][-1][0] == "Close"
        and subs[i][-1][1] is not None
        and dist(subs[i][-1][1], subs[i][-1][2]) > 0
        and (i + 1) in moveless
        for i in range(len(subs))
    )
    rmax = 0.0
    for s in base:
        if s[0] == "Arc":
            rmax = max(rmax, dist(s[3], s[4]), dist(s[3], s[5]))
    sc = max(scale_of(base), rmax, 1e-3)
    tol = 1e-7 * sc
    failures = []

    def fail(history, msg):
        failures.append(dict(history=history, msg=msg))

    # ---------- 1. whole path reverse
    p = copy(path)
    try:
        p.reverse()
        new = snapshot(p._segments)
        r = compare_paths(new, base, tol, True)
        if r:
            fail("path.reverse()", r)
        else:
            r = connectivity(new, tol)
            if r:
                fail("path.reverse() connectivity", r)
        # ---------- 2. involution
        p.reverse()
        new2 = snapshot(p._segments)
        r = same_fields(base, new2, tol)
        if r:
            fail("path.reverse().reverse()", r)
    except Exception as ex:
        fail("path.reverse()", "exception %r %s" % (ex, traceback.format_exc(limit=4)))

    # ---------- 3. each subpath view
    for i, (a, b) in enumerate(wins):
        p = copy(path)
        try:
            sp = p.subpath(i)
            sp.reverse()
            new = snapshot(p._segments)
            hist = "path.subpath(%d).reverse()%s" % (i, " {moveless view}" if i in moveless else " {view owns Move}")
            if len(new) != len(base):
                fail(hist, "segment count %d -> %d" % (len(base), len(new)))
                continue
            r = same_fields(base[:a], new[:a], tol)
            if r:
                fail(hist + " [segments before the subpath changed]", r)
            r = same_fields(base[b + 1 :], new[b + 1 :], tol)
            if r:
                # index shift for the message only
                fail(hist + " [segments after the subpath changed]", r)
            r = compare_chain(chain(new[a : b + 1]), chain(base[a : b + 1]), tol, True)
            if r:
                fail(hist + " [the subpath itself]", r)
            r = connectivity(new, tol)
            if r:
                fail(hist + " connectivity", r)
            sp.reverse()
            new2 = snapshot(p._segments)
            r = same_fields(base, new2, tol)
            if r:
                fail(hist + " twice", r)
        except Exception as ex:
            fail("path.subpath(%d).reverse()" % i, "exception %r %s" % (ex, traceback.format_exc(limit=4)))

    # ---------- 4. interleaved with transforms
    p = copy(path)
    hist = []
    parity = 0
    m_total = None
    try:
        for _ in range(rng.randint(2, 4)):
            op = rng.choice(("R", "T", "TS"))
            if op == "R":
                p.reverse()
                parity ^= 1
                hist.append("reverse()")
            else:
                m, _s = rnd_matrix(rng)
                if m is None:
                    m = (1, 0, 0, 1, 3.0, -2.0)
                if not has_arc and rng.random() < 0.5:
                    m = tuple(round(rng.uniform(-2, 2), 2) for _ in range(4)) + (5.0, -7.0)
                if op == "T":
                    p *= Matrix(*m)
                    p.reify()
                    hist.append("*= Matrix%r; reify()" % (m,))
                else:
                    for sp in list(p.as_subpaths()):
                        sp *= Matrix(*m)
                    hist.append("each subpath *= Matrix%r" % (m,))
                m_total = mat_mul(m, m_total)
        new = snapshot(p._segments)
        sc2 = max(sc, scale_of(new))
        r = compare_paths(new, base, 1e-7 * sc2, bool(parity), m_total)
        if r:
            fail("; ".join(hist), r)
        else:
            r = connectivity(new, 1e-7 * sc2)
            if r:
                fail("; ".join(hist) + " connectivity", r)
    except Exception as ex:
        fail("; ".join(hist), "exception %r %s" % (ex, traceback.format_exc(limit=4)))
    return failures, info


def classify(f):
    h, m = f["history"], f["msg"]
    if h.startswith("path.subpath"):
        hc = "subpath.reverse" + (" {moveless view}" if "{moveless view}" in h else " {view owns Move}") + (" twice" if h.endswith("twice") else "") + (" " + h[h.index("["):] if "[" in h else "") + (" connectivity" if h.endswith("connectivity") else "")
    elif h.startswith("path.reverse().reverse"):
        hc = "path.reverse twice"
    elif h.startswith("path.reverse"):
        hc = "path.reverse" + (" connectivity" if h.endswith("connectivity") else "")
    else:
        hc = "history with transforms" + (" connectivity" if h.endswith("connectivity") else "")
    if "exception" in m[:12]:
        mc = "exception " + m[10:60]
    elif "point lost" in m:
        mc = "point lost (None)"
    elif "subpath count" in m:
        mc = "subpath count"
    elif "has end None" in m or "has start None" in m:
        mc = "None start/end"
    elif "starts at" in m:
        mc = "segment not connected to previous"
    elif m.startswith("Close"):
        mc = "Close does not return to subpath start"
    elif "closedness" in m:
        mc = "closedness"
    elif "kinds" in m:
        mc = "kinds differ"
    else:
        mc = "geometry/fields differ"
    return hc + " | " + mc


def main():
    seed = int(sys.argv[1])
    n = int(sys.argv[2])
    verbose = "-v" in sys.argv
    counts = dict(cases=0, fail=0, with_moveless=0, fail_with_moveless=0, fragment=0, fail_fragment=0)
    sigs = {}
    attrib = {}

    def tally(name, pred, symptom):
        a = attrib.setdefault(name, [0, 0])
        if pred:
            a[0] += 1
            a[1] += bool(symptom)

    for i in range(n):
        try:
            failures, info = run_case(seed * 1000003 + i)
        except Exception as ex:
            failures, info = [dict(history="harness", msg=traceback.format_exc())], {}
        counts["cases"] += 1
        ml = bool(info.get("moveless_subpaths"))
        fr = bool(info.get("fragment"))
        counts["with_moveless"] += ml
        cls = set(classify(f) for f in failures)
        whole = [c for c in cls if c.startswith("path.reverse")]
        tally("all subpaths own a Move: any failure at all", not ml, failures)
        tally("pure fragment (no Move, no Close): path.reverse() wrong", info.get("pred_pure_fragment"), whole)
        tally("last subpath moveless (becomes first): path.reverse() wrong", info.get("pred_moveless_becomes_first"), whole)
        tally("moveless subpath after a Close: path.reverse() wrong", info.get("pred_moveless_not_first"), whole)
        tally("closed+nonzero close (own Move) followed by moveless: view.reverse() disconnects follower", info.get("pred_closed_nonzero_then_moveless"), [c for c in cls if c.startswith("subpath.reverse {view owns Move} connectivity")])
        counts["fragment"] += fr
        if failures:
            counts["fail"] += 1
            counts["fail_with_moveless"] += ml
            counts["fail_fragment"] += fr
            seen = set()
            for f in failures:
                sig = ("moveless" if ml else "all-moves", classify(f))
                if sig in seen:
                    continue
                seen.add(sig)
                sigs.setdefault(sig, []).append(i)
            first = ("moveless" if ml else "all-moves", classify(failures[0]))
            if verbose or len(sigs[first]) <= 2:
                print("FAIL case=%d seed=%d n_fail=%d" % (i, seed, len(failures)))
                print("  info:", json.dumps(info, default=str)[:1200])
                for f in failures[:4]:
                    print("   ", json.dumps(f, default=str)[:700])
    print("SUMMARY seed=%d n=%d %s" % (seed, n, counts))
    for sig, cases in sorted(sigs.items(), key=lambda kv: -len(kv[1])):
        print("  %-90s %d  e.g. cases %s" % (sig, len(cases), cases[:6]))
    print("ATTRIBUTION (cases with structural predicate / of those, cases showing the symptom)")
    for name, (n_pred, n_sym) in sorted(attrib.items()):
        print("  %-75s %d / %d" % (name, n_sym, n_pred))


if __name__ == "__main__":
    main()
