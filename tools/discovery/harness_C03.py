# -*- coding: utf-8 -*-
"""
C03 discovery harness:  /venv/bin/python harness_C03.py SEED N [profile]

Generates N random documents (docgen.py), computes the expected absolute geometry of every rendered shape with the
independent oracle in docgen.py, parses the text with svgelements.SVG.parse (reify True and False) and compares
shape count / order / kind / segment structure / every segment point.
Failures are printed as one line each "FAIL <case-seed> <signature>" and dumped into fails_C03/<case-seed>.txt.
"""
import io
import math
import os
import random
import sys
import traceback

HERE = os.path.dirname(os.path.abspath(__file__))
sys.path.insert(0, HERE)

from svgelements import *  # noqa
import svgelements as _se

assert os.path.dirname(os.path.abspath(_se.__file__)).startswith(HERE), _se.__file__

import docgen
from docgen import *  # noqa

PROFILES = {
    "default": {},
    "nopct": {"p_pct": 0.0},
    "plain": {"p_pct": 0.0, "p_unit": 0.0, "paint": False, "p_display_none": 0.0, "degenerate": 0.0},
    "units": {"p_pct": 0.25, "p_unit": 0.35},
    "rxpct": {"rx_pct": 0.5, "p_pct": 0.2},
    "rootxy": {"rootxy": 0.5},
    "nouu": {"use_units": False},
    "clean": {"use_units": False, "rrect_units": False},
    "clean_units": {"use_units": False, "rrect_units": False, "p_pct": 0.25, "p_unit": 0.35},
    "clean_deep": {"use_units": False, "rrect_units": False, "max_depth": 6, "max_children": 3, "p_viewbox": 0.8},
    "c_rootxy": {"use_units": False, "rrect_units": False, "rootxy": 0.6},
    "c_invalid": {"use_units": False, "rrect_units": False, "degenerate": 0.15, "negative": True},
    "c_rxpct": {"use_units": False, "rrect_units": False, "rx_pct": 0.6},
    "c_missing": {"use_units": False, "rrect_units": False, "missing": 0.3},
    "c_ws": {"use_units": False, "rrect_units": False, "par_ws": 0.5, "tr_ws": 0.4, "p_viewbox": 0.8},
    "c_svgzero": {"use_units": False, "rrect_units": False, "svg_zero": 0.15},
    "onlyB": {"use_units": False},
    "onlyA": {"rrect_units": False},
    "invalid": {"degenerate": 0.15, "negative": True},
    "deep": {"max_depth": 6, "max_children": 3},
}


def actual_segments(shape):
    out = []
    for s in shape.segments(transformed=True):
        if isinstance(s, Move):
            out.append(("M", s.end))
        elif isinstance(s, Close):
            out.append(("Z", s.start, s.end))
        elif isinstance(s, Line):
            out.append(("L", s.start, s.end))
        elif isinstance(s, QuadraticBezier):
            out.append(("Q", s.start, s.control, s.end))
        elif isinstance(s, CubicBezier):
            out.append(("C", s.start, s.control1, s.control2, s.end))
        elif isinstance(s, Arc):
            out.append(("A", s.start, s.end, s))
        else:
            out.append(("?", s))
    return out


def pt_close(p, q, tol):
    try:
        return abs(p[0] - q[0]) <= tol and abs(p[1] - q[1]) <= tol
    except TypeError:
        return False


ELL_THR = [1e-5]
ELL_ABS = [0.0]  # absolute tolerance in user units (set for C20 where matrices are written with 6 decimals)


def on_ellipse(P, minv, ell, tolrel=1e-6):
    q = m_apply(minv, (P[0], P[1]))
    cx, cy, rx, ry = ell
    v = ((q[0] - cx) / rx) ** 2 + ((q[1] - cy) / ry) ** 2
    return abs(v - 1.0) <= max(ELL_THR[0], ELL_ABS[0] / min(rx, ry))


def orthogonal_columns(M):
    a, b, c, d, e, f = M
    n = math.hypot(a, b) * math.hypot(c, d)
    return abs(a * c + b * d) <= 1e-9 * max(n, 1e-30)


def compare_shape(exp, shape, tolscale=1e-6):
    """returns None if ok, else a short signature string"""
    kindmap = {"rect": Rect, "circle": Circle, "ellipse": Ellipse, "line": SimpleLine, "polyline": Polyline,
               "polygon": Polygon, "path": Path}
    ELL_THR[0] = 1e-5 * (tolscale / 1e-6)
    ELL_ABS[0] = 0.0
    if tolscale > 1e-6:
        mx = 1.0
        for sg in exp.segs:
            for p in sg[1:3]:
                mx = max(mx, abs(p[0]), abs(p[1]))
        ELL_ABS[0] = 8 * tolscale * mx
    if type(shape) is not kindmap[exp.kind]:
        return "kind:%s!=%s" % (type(shape).__name__, exp.kind)
    M = exp.matrix
    ortho = orthogonal_columns(M)
    try:
        act = actual_segments(shape)
    except Exception as e:
        return "segments-raise:%s:%s" % (type(e).__name__, exp.kind)
    if exp.segs and exp.segs[0][0] == "ELLIPSE":
        if not ortho:
            return None  # known: arcs keep orthogonal axes
        (cx, cy), (rx, ry) = exp.segs[0][1], exp.segs[0][2]
        a, b, c, d, e, f = M
        C = m_apply(M, (cx, cy))
        hx = math.sqrt((a * rx) ** 2 + (c * ry) ** 2)
        hy = math.sqrt((b * rx) ** 2 + (d * ry) ** 2)
        ebb = (C[0] - hx, C[1] - hy, C[0] + hx, C[1] + hy)
        tol = tolscale * (1 + max(abs(v) for v in ebb))
        try:
            bb = shape.bbox()
        except Exception as e:
            return "bbox-raise:%s:%s" % (type(e).__name__, exp.kind)
        if bb is None or any(abs(bb[i] - ebb[i]) > tol * 10 for i in range(4)):
            return "round-bbox:%s" % exp.kind
        kinds = "".join(s[0] for s in act)
        if kinds != "MAAAAZ":
            return "round-structure:%s" % kinds
        minv = m_inv(M)
        for s in act:
            if s[0] == "A":
                for t in (0.0, 0.25, 0.5, 0.75, 1.0):
                    if not on_ellipse(s[3].point(t), minv, (cx, cy, rx, ry)):
                        return "round-offcurve:%s" % exp.kind
        # SVG 2 10.3/10.4: the path starts at (cx+rx, cy)
        if not pt_close(act[0][1], m_apply(M, (cx + rx, cy)), tol * 10):
            return "round-startpoint:%s" % exp.kind
        # ... and proceeds "arc to cx, cy+ry"
        if not pt_close(act[1][2], m_apply(M, (cx, cy + ry)), tol * 10):
            return "round-direction:%s" % exp.kind
        return None
    eabs = exp.abs_segs()
    if any(s[0] == "A" for s in eabs) and not ortho:
        return None  # rounded rect under shear: known
    allpts = [abs(v) for s in eabs for p in s[1:] if isinstance(p, tuple) and len(p) == 2 for v in p]
    tol = tolscale * (1 + max(allpts))
    ek = "".join(s[0] for s in eabs)
    ak = "".join(s[0] for s in act)
    if ek != ak:
        return "structure:%s:%s!=%s" % (exp.kind, ak, ek)
    minv = m_inv(M)
    for i, (es, as_) in enumerate(zip(eabs, act)):
        if es[0] == "A":
            if not pt_close(as_[1], es[1], tol) or not pt_close(as_[2], es[2], tol):
                return "arc-endpoints:%s" % exp.kind
            arc = as_[3]
            for t in (0.1, 0.3, 0.5, 0.7, 0.9):
                if not on_ellipse(arc.point(t), minv, es[3]):
                    return "arc-offcurve:%s" % exp.kind
            if not pt_close(arc.point(0.5), es[4], tol * 100):
                return "arc-mid:%s" % exp.kind
        else:
            for p, q in zip(es[1:], as_[1:]):
                if q is None or not pt_close(q, p, tol):
                    return "point:%s:%s%d" % (exp.kind, es[0], i)
    # bbox of straight-line shapes must be the hull of the points
    if all(s[0] in "MLZ" for s in eabs):
        xs = [p[0] for s in eabs for p in s[1:]]
        ys = [p[1] for s in eabs for p in s[1:]]
        try:
            bb = shape.bbox()
        except Exception as e:
            return "bbox-raise:%s:%s" % (type(e).__name__, exp.kind)
        ebb = (min(xs), min(ys), max(xs), max(ys))
        if bb is None or any(abs(bb[i] - ebb[i]) > tol for i in range(4)):
            return "bbox:%s" % exp.kind
    return None


def gen_case(case_seed, profile):
    rnd = random.Random(case_seed)
    cfg = dict(PROFILES[profile])
    gen = Gen(rnd, cfg)
    root = gen.document()
    text = to_xml(root)
    ppi = rnd.choice([96.0, 96.0, 72.0, 90.0, 300.0, 25.4, 100.0])
    # caller size
    k = rnd.random()
    if k < 0.5:
        cw, ch = float(rnd.randint(50, 1000)), float(rnd.randint(50, 1000))
        cw_arg, ch_arg = cw, ch
        if rnd.random() < 0.3:
            cw_arg, ch_arg = int(cw), int(ch)
    elif k < 0.8:
        u = rnd.choice(["in", "mm", "cm", "pt", "px", "pc"])
        a, b = rnd.randint(1, 20), rnd.randint(1, 20)
        cw_arg, ch_arg = "%d%s" % (a, u), "%d%s" % (b, u)
        cw, ch = Len(a, u).resolve(ppi, None), Len(b, u).resolve(ppi, None)
    else:
        # no caller size: only meaningful when the root element fixes its own size absolutely
        g = root.geom
        if "width" in g and "height" in g and g["width"].unit != "%" and g["height"].unit != "%":
            cw_arg = ch_arg = None
            cw = ch = 1.0  # irrelevant
        else:
            cw, ch = 640.0, 480.0
            cw_arg, ch_arg = cw, ch
    if rnd.random() < 0.3:
        ct_text, ct = rnd_transform(rnd, cfg)
    else:
        ct_text, ct = None, IDENT
    return root, text, ppi, (cw, ch), (cw_arg, ch_arg), ct_text, ct


def run_case(case_seed, profile="default", verbose=False):
    case = gen_case(case_seed, profile)
    return check_case(case, verbose)


def check_case(case, verbose=False):
    root, text, ppi, (cw, ch), (cw_arg, ch_arg), ct_text, ct = case
    text = to_xml(root)
    expected = evaluate(root, ppi, cw, ch, ct)
    results = []
    for reify in (True, False):
        try:
            svg = SVG.parse(io.BytesIO(text.encode("utf-8")), reify=reify, ppi=ppi, width=cw_arg, height=ch_arg,
                            transform=ct_text)
        except Exception as e:
            tb = traceback.extract_tb(sys.exc_info()[2])
            results.append((reify, "parse-raise:%s:%s@%d" % (type(e).__name__, str(e)[:40], tb[-1].lineno), None))
            continue
        shapes = [e for e in svg.elements() if isinstance(e, Shape)]
        sig = None
        idx = None
        if len(shapes) != len(expected):
            # find first divergence by kind for the signature
            sig = "count:%d!=%d" % (len(shapes), len(expected))
            ek = [e.kind for e in expected]
            ak = [type(s).__name__ for s in shapes]
            sig += ":" + ",".join(ak[:6]) + "|" + ",".join(ek[:6])
            sig = "count:%+d" % (len(shapes) - len(expected))
        else:
            for i, (e, s) in enumerate(zip(expected, shapes)):
                r = compare_shape(e, s)
                if r is not None:
                    sig = r
                    idx = i
                    break
        if sig is not None:
            results.append((reify, sig, idx))
    if verbose:
        print(text)
        print("ppi", ppi, "caller", cw_arg, ch_arg, "transform", ct_text)
        print("expected %d shapes" % len(expected))
        for e in expected:
            print("  ", e.kind, e.id, [tuple(round(v, 4) for v in e.matrix)])
        print(results)
    return results, text, (ppi, cw_arg, ch_arg, ct_text)


def main():
    seed = int(sys.argv[1])
    n = int(sys.argv[2])
    profile = sys.argv[3] if len(sys.argv) > 3 else "default"
    os.makedirs(os.path.join(HERE, "fails_C03"), exist_ok=True)
    fails = 0
    sigs = {}
    for i in range(n):
        case_seed = seed * 1000003 + i
        try:
            results, text, params = run_case(case_seed, profile)
        except Exception as e:
            traceback.print_exc()
            print("HARNESS-ERROR", case_seed)
            continue
        if results:
            fails += 1
            key = ";".join("%s=%s" % (r[0], r[1]) for r in results)
            sigs.setdefault(key, []).append(case_seed)
            print("FAIL", case_seed, profile, key)
            if len(sigs[key]) <= 3:
                with open(os.path.join(HERE, "fails_C03", "%s_%d.txt" % (profile, case_seed)), "w") as f:
                    f.write("%r\n%r\n%s" % (results, params, text))
    print("=== %d cases, %d failing (profile %s)" % (n, fails, profile))
    for k, v in sorted(sigs.items(), key=lambda kv: -len(kv[1])):
        print("%5d  %s   e.g. %s" % (len(v), k, v[:3]))


if __name__ == "__main__":
    main()
