#!/venv/bin/python
"""
Random-input harness for property C11 (viewport transform == SVG 2 section 8.2
"equivalent transform" algorithm).

usage: /venv/bin/python harness_C11.py SEED N [--libconst] [--no-ws] [--tol=1e-9] [--quiet]

Oracle: an own implementation of the algorithm of SVG 2 section 8.2 working on
floats, plus a geometric formulation that does not use the algorithm at all
(the viewBox rectangle must land inside / over the viewport rectangle, touch it
in one dimension and sit at min / mid / max).  Element sizes given with units
are resolved by CSS Values 3 (1in = 2.54cm = 25.4mm = 72pt = 6pc = ppi px).

  --libconst  resolve cm/mm with the library's rounded constants (masks that root cause)
  --no-ws     only the canonical single-space spellings of preserveAspectRatio
  --tol=X     relative tolerance (of the viewport size) for positions, default 1e-9
"""
import sys
import os
import io
import math
import random
import collections

sys.path.insert(0, os.path.dirname(os.path.abspath(__file__)))
from svgelements import SVG, Viewbox, Matrix, Rect, Length  # noqa: E402

LIBCONST = "--libconst" in sys.argv
NO_WS = "--no-ws" in sys.argv
QUIET = "--quiet" in sys.argv
TOL = 1e-9
for _a in sys.argv[1:]:
    if _a.startswith("--tol="):
        TOL = float(_a[6:])

ALIGNS = ["none", "xMinYMin", "xMidYMin", "xMaxYMin", "xMinYMid", "xMidYMid", "xMaxYMid",
          "xMinYMax", "xMidYMax", "xMaxYMax"]
MOS = [None, "meet", "slice"]


# --------------------------------------------------------------------------
# oracle 1: SVG 2, 8.2 "equivalent transform", returns (sx, sy, tx, ty)
# --------------------------------------------------------------------------
def equivalent_transform(e_x, e_y, e_w, e_h, vb_x, vb_y, vb_w, vb_h, align, mos):
    if align is None:
        align = "xMidYMid"
    if mos is None:
        mos = "meet"
    sx = e_w / vb_w
    sy = e_h / vb_h
    if align != "none" and mos == "meet":
        sx = sy = min(sx, sy)
    elif align != "none" and mos == "slice":
        sx = sy = max(sx, sy)
    tx = e_x - vb_x * sx
    ty = e_y - vb_y * sy
    if "xMid" in align:
        tx += (e_w - vb_w * sx) / 2.0
    if "xMax" in align:
        tx += e_w - vb_w * sx
    if "YMid" in align:
        ty += (e_h - vb_h * sy) / 2.0
    if "YMax" in align:
        ty += e_h - vb_h * sy
    return sx, sy, tx, ty


# --------------------------------------------------------------------------
# oracle 2: geometric consequences, evaluated on the LIBRARY's matrix
# --------------------------------------------------------------------------
def geometric_violations(m6, e, vb, align, mos, tol):
    a, b, c, d, tx, ty = m6
    e_x, e_y, e_w, e_h = e
    vb_x, vb_y, vb_w, vb_h = vb
    if align is None:
        align = "xMidYMid"
    if mos is None:
        mos = "meet"
    out = []
    if b != 0 or c != 0:
        out.append("not axis aligned")
    X0, Y0 = a * vb_x + tx, d * vb_y + ty
    X1, Y1 = a * (vb_x + vb_w) + tx, d * (vb_y + vb_h) + ty
    eps_x = tol * max(e_w, e_h, abs(e_x), abs(e_y))
    eps_y = eps_x
    W, H = X1 - X0, Y1 - Y0
    if align == "none":
        if abs(X0 - e_x) > eps_x or abs(X1 - (e_x + e_w)) > eps_x or abs(Y0 - e_y) > eps_y or abs(Y1 - (e_y + e_h)) > eps_y:
            out.append("none: viewBox not stretched onto the viewport")
        return out
    if abs(a - d) > tol * max(abs(a), abs(d)):
        out.append("non-uniform scale although align != none")
    if mos == "meet":
        if W > e_w + eps_x or H > e_h + eps_y:
            out.append("meet: viewBox image larger than viewport")
        if abs(W - e_w) > eps_x and abs(H - e_h) > eps_y:
            out.append("meet: touches in no dimension")
    else:
        if W < e_w - eps_x or H < e_h - eps_y:
            out.append("slice: viewBox image does not cover viewport")
        if abs(W - e_w) > eps_x and abs(H - e_h) > eps_y:
            out.append("slice: touches in no dimension")
    # slack is scaled with the size of the mapped rectangle too (slice can be much larger than the viewport)
    eps_ax = tol * max(e_w, e_h, abs(e_x), abs(e_y), abs(W))
    eps_ay = tol * max(e_w, e_h, abs(e_x), abs(e_y), abs(H))
    if "xMin" in align and abs(X0 - e_x) > eps_ax:
        out.append("xMin: left edges differ")
    if "xMid" in align and abs((X0 + X1) / 2 - (e_x + e_w / 2)) > eps_ax:
        out.append("xMid: centres differ")
    if "xMax" in align and abs(X1 - (e_x + e_w)) > eps_ax:
        out.append("xMax: right edges differ")
    if "YMin" in align and abs(Y0 - e_y) > eps_ay:
        out.append("YMin: top edges differ")
    if "YMid" in align and abs((Y0 + Y1) / 2 - (e_y + e_h / 2)) > eps_ay:
        out.append("YMid: centres differ")
    if "YMax" in align and abs(Y1 - (e_y + e_h)) > eps_ay:
        out.append("YMax: bottom edges differ")
    return out


def compare(expected4, m6, e, vb, tol):
    """Compare by the images of the viewBox corners, relative to the viewport size."""
    sx, sy, tx, ty = expected4
    a, b, c, d, mx, my = m6
    if b != 0 or c != 0:
        return "skewed"
    e_x, e_y, e_w, e_h = e
    vb_x, vb_y, vb_w, vb_h = vb
    ref = max(e_w, e_h, abs(e_x), abs(e_y), sx * vb_w, sy * vb_h)
    worst = 0.0
    for ux, uy in ((vb_x, vb_y), (vb_x + vb_w, vb_y + vb_h)):
        ex_, ey_ = sx * ux + tx, sy * uy + ty
        ax_, ay_ = a * ux + mx, d * uy + my
        worst = max(worst, abs(ex_ - ax_), abs(ey_ - ay_))
    if worst > tol * ref:
        return "corner off by %.3g (%.3g of viewport scale)" % (worst, worst / ref)
    return None


def grade(expected4, m6, e, vb):
    """Classify a mismatch: is it explained by printing the four numbers with 12 decimals?"""
    sx, sy, tx, ty = expected4
    a, b, c, d, mx, my = m6
    if all(abs(x - y) <= 6e-13 + 8e-16 * abs(x) for x, y in ((sx, a), (sy, d), (tx, mx), (ty, my))):
        return "(only the 12-decimal rounding of the printed numbers)"
    if compare(expected4, m6, e, vb, 1e-5) is None:
        return "(small, <1e-5, not explained by 12-decimal rounding)"
    return "(gross)"


# --------------------------------------------------------------------------
# generators
# --------------------------------------------------------------------------
def mag(rng, lo=-3, hi=3):
    r = rng.random()
    if r < 0.25:
        return float(rng.choice([1, 2, 3, 10, 100, 300, 1000, 24, 48, 512]))
    if r < 0.35:
        return rng.choice([0.001, 0.01, 0.1, 0.5, 1.5, 1000.0])
    return float("%.6g" % (10 ** rng.uniform(lo, hi)))


def origin(rng, size):
    r = rng.random()
    if r < 0.35:
        return 0.0
    if r < 0.6:
        return float(rng.randint(-100, 100))
    if r < 0.8:
        return float("%.5g" % rng.uniform(-2 * size, 2 * size))
    return float("%.4g" % rng.uniform(-1000, 1000))


def spell_par(rng, align, mos):
    """Return (text or None, tag)."""
    if align is None:
        return None, "absent"
    if mos is None:
        base = align
    else:
        base = align + " " + mos
    if NO_WS or rng.random() < 0.85:
        return base, "canonical"
    k = rng.randrange(4)
    if k == 0 and mos is not None:
        return align + "  " + mos, "ws:double-space"
    if k == 1 and mos is not None:
        return align + "\t" + mos, "ws:tab"
    if k == 2:
        return " " + base, "ws:leading"
    return base + " ", "ws:trailing"


def fmt(v):
    r = repr(float(v))
    if r.endswith(".0"):
        r = r[:-2]
    return r


def spell_viewbox(rng, vb):
    parts = [fmt(v) for v in vb]
    k = rng.randrange(5)
    if k == 0:
        return " ".join(parts)
    if k == 1:
        return ",".join(parts)
    if k == 2:
        return ", ".join(parts)
    if k == 3:
        return "  ".join(parts)
    return " " + " ".join(parts) + " "


def unit_factor(unit, ppi):
    if unit in ("", "px"):
        return 1.0
    if unit == "pt":
        return 4.0 / 3.0
    if unit == "pc":
        return 16.0
    if unit == "in":
        return ppi
    if unit == "cm":
        return ppi * 0.393701 if LIBCONST else ppi / 2.54
    if unit == "mm":
        return ppi * 0.0393701 if LIBCONST else ppi / 25.4
    raise KeyError(unit)


failures = collections.OrderedDict()
counts = collections.Counter()


def fail(kind, repro, expected, actual):
    counts["FAIL " + kind] += 1
    lst = failures.setdefault(kind, [])
    if len(lst) < 5:
        lst.append((repro, expected, actual))


def lib6(m):
    return tuple(float(m[i]) for i in range(6))


def matrix_of_expected(ex4):
    sx, sy, tx, ty = ex4
    return (sx, 0.0, 0.0, sy, tx, ty)


# --------------------------------------------------------------------------
# mode 1: the static function, exhaustive over the 30 spellings per geometry
# --------------------------------------------------------------------------
def check_static(rng):
    e_w, e_h = mag(rng), mag(rng)
    vb_w, vb_h = mag(rng), mag(rng)
    if rng.random() < 0.2:
        vb_h = float("%.6g" % (vb_w * e_h / e_w))  # (nearly) equal aspect ratios
    e_x, e_y = origin(rng, e_w), origin(rng, e_h)
    vb_x, vb_y = origin(rng, vb_w), origin(rng, vb_h)
    e = (e_x, e_y, e_w, e_h)
    vb = (vb_x, vb_y, vb_w, vb_h)
    combos = [(None, None)] + [(a, m) for a in ALIGNS for m in MOS]
    for align, mos in combos:
        par, tag = spell_par(rng, align, mos)
        counts["cases static (%s)" % ("ws" if tag.startswith("ws") else "canonical/absent")] += 1
        repro = "Viewbox.viewbox_transform(%r, %r, %r, %r, %r, %r, %r, %r, %r)" % (e + vb + (par,))
        expected = equivalent_transform(*(e + vb + (align, mos)))
        try:
            text = Viewbox.viewbox_transform(*(e + vb + (par,)))
            m6 = lib6(Matrix(text))
        except Exception as ex:  # noqa
            fail("static %s: exception %s" % (tag, type(ex).__name__), repro, matrix_of_expected(expected), repr(ex))
            continue
        why = compare(expected, m6, e, vb, TOL)
        geo = geometric_violations(m6, e, vb, align, mos, TOL)
        if why or geo:
            key = "static %s: %s" % (tag, "value" if why else "geometry only")
            if tag == "canonical" or tag == "absent":
                key += " " + grade(expected, m6, e, vb)
            fail(key, repro + "  -> %r" % text, matrix_of_expected(expected), (m6, why, geo))


# --------------------------------------------------------------------------
# mode 2: documents through SVG.parse
# --------------------------------------------------------------------------
SIZE_UNITS = ["", "", "px", "pt", "pc", "in", "cm", "mm", "%"]


def gen_size_attr(rng, target_px, relative, ppi):
    """Return (attribute text, exact px value of that text)."""
    unit = rng.choice(SIZE_UNITS)
    if unit == "%":
        if relative is None or relative <= 0:
            unit = ""
        else:
            pct = float("%.6g" % (100.0 * target_px / relative))
            return fmt(pct) + "%", pct / 100.0 * relative, unit
    f = unit_factor(unit, ppi)
    amount = float("%.6g" % (target_px / f))
    return fmt(amount) + unit, amount * f, unit


def check_parse(rng):
    ppi = rng.choice([96.0, 96.0, 72.0, 90.0, 300.0])
    vb_w, vb_h = mag(rng), mag(rng)
    vb_x, vb_y = origin(rng, vb_w), origin(rng, vb_h)
    vb = (vb_x, vb_y, vb_w, vb_h)
    align = rng.choice([None] + ALIGNS)
    mos = rng.choice(MOS) if align is not None else None
    par, ptag = spell_par(rng, align, mos)
    caller = rng.random() < 0.5
    cw, ch = (mag(rng), mag(rng)) if caller else (None, None)
    units_used = set()
    attrs = []
    # width
    rel_w = cw if caller else vb_w
    rel_h = ch if caller else vb_h
    if rng.random() < 0.75:
        t, e_w, u = gen_size_attr(rng, mag(rng), rel_w, ppi)
        attrs.append('width="%s"' % t)
        units_used.add(u)
    else:
        e_w = rel_w  # defaults to 100% of the caller's width or else of the viewBox width
        units_used.add("absent")
    if rng.random() < 0.75:
        t, e_h, u = gen_size_attr(rng, mag(rng), rel_h, ppi)
        attrs.append('height="%s"' % t)
        units_used.add(u)
    else:
        e_h = rel_h
        units_used.add("absent")
    attrs.append('viewBox="%s"' % spell_viewbox(rng, vb))
    if par is not None:
        attrs.append('preserveAspectRatio="%s"' % par)
    rng.shuffle(attrs)
    # nested svg
    nested = rng.random() < 0.4
    inner = ""
    if nested:
        nvb_w, nvb_h = mag(rng), mag(rng)
        nvb = (origin(rng, nvb_w), origin(rng, nvb_h), nvb_w, nvb_h)
        nalign = rng.choice([None] + ALIGNS)
        nmos = rng.choice(MOS) if nalign is not None else None
        npar, ntag = spell_par(rng, nalign, nmos)
        nattrs = []
        nx = ny = 0.0
        if rng.random() < 0.7:
            nx = float("%.5g" % rng.uniform(-vb_w, vb_w))
            nattrs.append('x="%s"' % fmt(nx))
        if rng.random() < 0.7:
            ny = float("%.5g" % rng.uniform(-vb_h, vb_h))
            nattrs.append('y="%s"' % fmt(ny))
        # percentages of a nested svg refer to the parent's viewBox size
        if rng.random() < 0.8:
            t, ne_w, u = gen_size_attr(rng, vb_w * rng.uniform(0.05, 1.5), vb_w, ppi)
            units_used.add(u)
            nattrs.append('width="%s"' % t)
        else:
            ne_w = vb_w
        if rng.random() < 0.8:
            t, ne_h, u = gen_size_attr(rng, vb_h * rng.uniform(0.05, 1.5), vb_h, ppi)
            units_used.add(u)
            nattrs.append('height="%s"' % t)
        else:
            ne_h = vb_h
        nattrs.append('viewBox="%s"' % spell_viewbox(rng, nvb))
        if npar is not None:
            nattrs.append('preserveAspectRatio="%s"' % npar)
        rng.shuffle(nattrs)
        inner = '<svg %s><rect id="q" width="1" height="1"/></svg>' % " ".join(nattrs)
        if ntag.startswith("ws"):
            ptag = ntag
    doc = '<svg xmlns="http://www.w3.org/2000/svg" %s><rect id="r" width="1" height="1"/>%s</svg>' % (
        " ".join(attrs), inner)
    kw = dict(ppi=ppi)
    if caller:
        kw.update(width=cw, height=ch)
    tagset = "ws" if ptag.startswith("ws") else "canonical/absent"
    unit_tag = "cm/mm" if units_used & {"cm", "mm"} else "other units"
    counts["cases parse (%s, %s)" % (tagset, unit_tag)] += 1
    repro = "SVG.parse(io.StringIO(%r), reify=False, **%r)" % (doc, kw)
    e = (0.0, 0.0, e_w, e_h)
    expected = equivalent_transform(*(e + vb + (align, mos)))
    try:
        svg = SVG.parse(io.StringIO(doc), reify=False, **kw)
        r = svg.get_element_by_id("r")
        m6 = lib6(r.transform)
    except Exception as ex:  # noqa
        fail("parse %s: exception %s" % (tagset, type(ex).__name__), repro, matrix_of_expected(expected), repr(ex))
        return
    why = compare(expected, m6, e, vb, TOL)
    if why:
        fail("parse %s/%s root: value %s" % (tagset, unit_tag, grade(expected, m6, e, vb)),
             repro, matrix_of_expected(expected), (m6, why))
        return
    if nested:
        ne = (nx, ny, ne_w, ne_h)
        nexp = equivalent_transform(*(ne + nvb + (nalign, nmos)))
        # total = outer o inner
        sx, sy, tx, ty = expected
        total = (sx * nexp[0], sy * nexp[1], sx * nexp[2] + tx, sy * nexp[3] + ty)
        q = svg.get_element_by_id("q")
        if q is None:
            fail("parse %s nested: element missing" % tagset, repro, matrix_of_expected(total), None)
            return
        q6 = lib6(q.transform)
        # compare in the outer viewport's scale
        oe = (0.0, 0.0, max(e_w, abs(total[0] * nvb[2])), max(e_h, abs(total[1] * nvb[3])))
        why = compare(total, q6, oe, nvb, TOL)
        if why:
            r12 = lambda v: float("%.12f" % v)  # noqa: E731
            osx, osy, otx, oty = [r12(v) for v in expected]
            isx, isy, itx, ity = [r12(v) for v in nexp]
            rounded_total = (osx * isx, osy * isy, osx * itx + otx, osy * ity + oty)
            q4 = (q6[0], q6[3], q6[4], q6[5])
            if all(abs(x - y) <= 1e-10 * abs(x) + 1e-15 for x, y in zip(rounded_total, q4)):
                g = "(only the 12-decimal rounding of the printed numbers)"
            elif compare(total, q6, oe, nvb, 1e-5):
                g = "(gross)"
            else:
                g = "(small, <1e-5, not explained by 12-decimal rounding)"
            fail("parse %s/%s nested: value %s" % (tagset, unit_tag, g),
                 repro, matrix_of_expected(total), (q6, why))


# --------------------------------------------------------------------------
# mode 3: degenerate viewBoxes must not fail: missing/incomplete -> identity, zero size -> nothing rendered
# --------------------------------------------------------------------------
def check_degenerate(rng):
    counts["cases degenerate"] += 1
    w, h = mag(rng), mag(rng)
    kind = rng.randrange(6)
    par = rng.choice([None] + ALIGNS)
    pa = "" if par is None else ' preserveAspectRatio="%s"' % par
    nested = rng.random() < 0.5
    if kind == 0:
        vbtxt, expect = None, "identity"
    elif kind == 1:
        vbtxt, expect = "%s %s %s" % (fmt(origin(rng, 10)), fmt(origin(rng, 10)), fmt(mag(rng))), "identity"
    elif kind == 2:
        vbtxt, expect = "", "identity"
    elif kind == 3:
        vbtxt, expect = "0 0 0 %s" % fmt(mag(rng)), "disabled"
    elif kind == 4:
        vbtxt, expect = "%s %s %s 0" % (fmt(origin(rng, 10)), fmt(origin(rng, 10)), fmt(mag(rng))), "disabled"
    else:
        vbtxt, expect = "0 0 0 0", "disabled"
    vba = "" if vbtxt is None else ' viewBox="%s"' % vbtxt
    nx = ny = 0.0
    if nested:
        pos = ""
        if rng.random() < 0.5:
            nx, ny = float(rng.randint(-20, 20)), float(rng.randint(-20, 20))
            pos = ' x="%s" y="%s"' % (fmt(nx), fmt(ny))
        doc = ('<svg xmlns="http://www.w3.org/2000/svg" width="100" height="100"><rect id="o" width="1" height="1"/>'
               '<svg width="%s" height="%s"%s%s%s><rect id="r" width="1" height="1"/></svg></svg>' % (fmt(w), fmt(h), pos, vba, pa))
    else:
        doc = '<svg xmlns="http://www.w3.org/2000/svg" width="%s" height="%s"%s%s><rect id="r" width="1" height="1"/></svg>' % (
            fmt(w), fmt(h), vba, pa)
    repro = "SVG.parse(io.StringIO(%r), reify=False)" % doc
    try:
        svg = SVG.parse(io.StringIO(doc), reify=False)
        rects = [x for x in svg.elements() if isinstance(x, Rect) and x.id == "r"]
    except Exception as ex:  # noqa
        fail("degenerate(%s): exception %s" % (expect, type(ex).__name__), repro, expect, repr(ex))
        return
    if expect == "identity":
        # no viewport scaling; a nested svg still places its content at (x, y)
        want = (1.0, 0.0, 0.0, 1.0, nx, ny)
        if len(rects) != 1 or lib6(rects[0].transform) != want:
            kind_txt = {0: "no viewBox", 1: "3-number viewBox", 2: "empty viewBox"}[kind]
            fail("degenerate: identity%s expected (%s)" % (" + translate(x,y)" if (nx or ny) else "", kind_txt), repro, want,
                 [lib6(x.transform) for x in rects])
    else:
        if rects:
            fail("degenerate: zero-size viewBox still rendered", repro, "no rendered rect", [lib6(x.transform) for x in rects])
        if nested and not [x for x in svg.elements() if isinstance(x, Rect) and x.id == "o"]:
            fail("degenerate: sibling of disabled nested svg lost", repro, "rect o present", None)


# --------------------------------------------------------------------------
# mode 4: the object API  Viewbox(...).transform(element)
# --------------------------------------------------------------------------
def check_object_api(rng):
    counts["cases object-api"] += 1
    e_w, e_h = mag(rng), mag(rng)
    vb_w, vb_h = mag(rng), mag(rng)
    vb = (origin(rng, vb_w), origin(rng, vb_h), vb_w, vb_h)
    e = (origin(rng, e_w), origin(rng, e_h), e_w, e_h)
    align = rng.choice([None] + ALIGNS)
    mos = rng.choice(MOS) if align is not None else None
    par = None if align is None else (align if mos is None else align + " " + mos)
    expected = equivalent_transform(*(e + vb + (align, mos)))
    style = rng.randrange(4)
    vtxt = " ".join(fmt(v) for v in vb)
    try:
        if style == 0:
            v = Viewbox(vtxt, par)
            rep = "Viewbox(%r, %r)" % (vtxt, par)
        elif style == 1:
            v = Viewbox({"viewBox": vtxt, "preserveAspectRatio": par})
            rep = "Viewbox({'viewBox': %r, 'preserveAspectRatio': %r})" % (vtxt, par)
        elif style == 2:
            v = Viewbox(viewBox=vtxt, preserve_aspect_ratio=par)
            rep = "Viewbox(viewBox=%r, preserve_aspect_ratio=%r)" % (vtxt, par)
        else:
            v = Viewbox(*vb)
            v.preserve_aspect_ratio = par
            rep = "Viewbox(*%r); v.preserve_aspect_ratio=%r" % (vb, par)
        v2 = Viewbox(v)
        el = SVG(x=e[0], y=e[1], width=e[2], height=e[3])
        repro = "%s.transform(SVG(x=%r, y=%r, width=%r, height=%r))" % ((rep,) + e)
        t1 = v.transform(el)
        t2 = v2.transform(el)
        m6 = lib6(Matrix(t1))
    except Exception as ex:  # noqa
        fail("object-api: exception %s" % type(ex).__name__, rep, matrix_of_expected(expected), repr(ex))
        return
    if t1 != t2:
        fail("object-api: copy differs", repro, t1, t2)
    why = compare(expected, m6, e, vb, TOL)
    if why:
        fail("object-api: value %s" % grade(expected, m6, e, vb), repro + " -> %r" % t1,
             matrix_of_expected(expected), (m6, why))


def main():
    pos = [a for a in sys.argv[1:] if not a.startswith("--")]
    seed = int(pos[0]) if pos else 0
    n = int(pos[1]) if len(pos) > 1 else 1000
    rng = random.Random(seed)
    for i in range(n):
        check_static(rng)      # 31 spellings each
        check_parse(rng)
        check_parse(rng)
        check_object_api(rng)
        if i % 4 == 0:
            check_degenerate(rng)
    print("seed=%d n=%d tol=%g libconst=%s no_ws=%s" % (seed, n, TOL, LIBCONST, NO_WS))
    for k in sorted(counts):
        print("  %-75s %d" % (k, counts[k]))
    if not QUIET:
        for kind, lst in failures.items():
            print("== %s" % kind)
            for repro, e, a in lst[:3]:
                print("   %s\n      expected %r\n      actual   %r" % (repro, e, a))
    return 1 if failures else 0


if __name__ == "__main__":
    sys.exit(main())
