#!/venv/bin/python
"""
Random-input harness for property C13 (colour spellings and accessor consistency).

    /venv/bin/python harness_C13.py SEED N

Independent oracle: keyword table typed from SVG 1.1 / CSS Color 3, own hex layouts, own clamping and
rounding, the CSS Color 3 hsl-to-rgb algorithm evaluated in exact rational arithmetic (so that
"round" vs "truncate" decisions are not at the mercy of float noise), own bit arithmetic for the packings.
The first part of every run is exhaustive (keywords x case, all #rgb and #rgba strings, every 8-bit value
per component); N counts the random cases that follow.
"""
import sys, os, random, math, collections, traceback
from fractions import Fraction as F

HERE = os.path.dirname(os.path.abspath(__file__))
sys.path.insert(0, HERE)
from svgelements import Color  # noqa: E402

KEYWORDS = """
aliceblue 240 248 255|antiquewhite 250 235 215|aqua 0 255 255|aquamarine 127 255 212|azure 240 255 255|
beige 245 245 220|bisque 255 228 196|black 0 0 0|blanchedalmond 255 235 205|blue 0 0 255|blueviolet 138 43 226|
brown 165 42 42|burlywood 222 184 135|cadetblue 95 158 160|chartreuse 127 255 0|chocolate 210 105 30|
coral 255 127 80|cornflowerblue 100 149 237|cornsilk 255 248 220|crimson 220 20 60|cyan 0 255 255|
darkblue 0 0 139|darkcyan 0 139 139|darkgoldenrod 184 134 11|darkgray 169 169 169|darkgreen 0 100 0|
darkgrey 169 169 169|darkkhaki 189 183 107|darkmagenta 139 0 139|darkolivegreen 85 107 47|darkorange 255 140 0|
darkorchid 153 50 204|darkred 139 0 0|darksalmon 233 150 122|darkseagreen 143 188 143|darkslateblue 72 61 139|
darkslategray 47 79 79|darkslategrey 47 79 79|darkturquoise 0 206 209|darkviolet 148 0 211|deeppink 255 20 147|
deepskyblue 0 191 255|dimgray 105 105 105|dimgrey 105 105 105|dodgerblue 30 144 255|firebrick 178 34 34|
floralwhite 255 250 240|forestgreen 34 139 34|fuchsia 255 0 255|gainsboro 220 220 220|ghostwhite 248 248 255|
gold 255 215 0|goldenrod 218 165 32|gray 128 128 128|grey 128 128 128|green 0 128 0|greenyellow 173 255 47|
honeydew 240 255 240|hotpink 255 105 180|indianred 205 92 92|indigo 75 0 130|ivory 255 255 240|khaki 240 230 140|
lavender 230 230 250|lavenderblush 255 240 245|lawngreen 124 252 0|lemonchiffon 255 250 205|lightblue 173 216 230|
lightcoral 240 128 128|lightcyan 224 255 255|lightgoldenrodyellow 250 250 210|lightgray 211 211 211|
lightgreen 144 238 144|lightgrey 211 211 211|lightpink 255 182 193|lightsalmon 255 160 122|
lightseagreen 32 178 170|lightskyblue 135 206 250|lightslategray 119 136 153|lightslategrey 119 136 153|
lightsteelblue 176 196 222|lightyellow 255 255 224|lime 0 255 0|limegreen 50 205 50|linen 250 240 230|
magenta 255 0 255|maroon 128 0 0|mediumaquamarine 102 205 170|mediumblue 0 0 205|mediumorchid 186 85 211|
mediumpurple 147 112 219|mediumseagreen 60 179 113|mediumslateblue 123 104 238|mediumspringgreen 0 250 154|
mediumturquoise 72 209 204|mediumvioletred 199 21 133|midnightblue 25 25 112|mintcream 245 255 250|
mistyrose 255 228 225|moccasin 255 228 181|navajowhite 255 222 173|navy 0 0 128|oldlace 253 245 230|
olive 128 128 0|olivedrab 107 142 35|orange 255 165 0|orangered 255 69 0|orchid 218 112 214|
palegoldenrod 238 232 170|palegreen 152 251 152|paleturquoise 175 238 238|palevioletred 219 112 147|
papayawhip 255 239 213|peachpuff 255 218 185|peru 205 133 63|pink 255 192 203|plum 221 160 221|
powderblue 176 224 230|purple 128 0 128|red 255 0 0|rosybrown 188 143 143|royalblue 65 105 225|
saddlebrown 139 69 19|salmon 250 128 114|sandybrown 244 164 96|seagreen 46 139 87|seashell 255 245 238|
sienna 160 82 45|silver 192 192 192|skyblue 135 206 235|slateblue 106 90 205|slategray 112 128 144|
slategrey 112 128 144|snow 255 250 250|springgreen 0 255 127|steelblue 70 130 180|tan 210 180 140|teal 0 128 128|
thistle 216 191 216|tomato 255 99 71|turquoise 64 224 208|violet 238 130 238|wheat 245 222 179|white 255 255 255|
whitesmoke 245 245 245|yellow 255 255 0|yellowgreen 154 205 50
"""
TABLE = {}
for item in KEYWORDS.replace('\n', '').split('|'):
    name, r, g, b = item.split()
    TABLE[name] = (int(r), int(g), int(b), 255)
assert len(TABLE) == 147, len(TABLE)
TABLE_T = dict(TABLE)
TABLE_T['transparent'] = (0, 0, 0, 0)


# ---- oracle --------------------------------------------------------------------------------
def dec(s):
    """exact rational value of a decimal/exponent spelling"""
    return F(s.strip().lstrip('+')) if 'e' not in s.lower() else _dec_exp(s)


def _dec_exp(s):
    s = s.strip().lower()
    m, e = s.split('e')
    return F(m.lstrip('+')) * F(10) ** int(e)


TIE = F(1, 10 ** 7)


def round_half_up(x):
    """returns (rounded, floor, is_near_tie)"""
    fl = math.floor(x)
    frac = x - fl
    near = abs(frac - F(1, 2)) < TIE
    return (fl + 1 if frac >= F(1, 2) else fl), fl, near


def clamp(x, lo, hi):
    return lo if x < lo else hi if x > hi else x


def o_alpha(a):
    if a is None:
        return 255, 255, False
    return round_half_up(clamp(a, F(0), F(1)) * 255)


def o_rgb(vals):
    """vals: 3 exact numbers (0..255 scale). -> list of (round, floor, tie)"""
    return [round_half_up(clamp(v, F(0), F(255))) for v in vals]


def o_rgbp(vals):
    return [round_half_up(clamp(v, F(0), F(100)) * 255 / 100) for v in vals]


def o_hsl(h, s, l):
    """CSS Color 3 section 4.2.4, exact. h in degrees; s, l in percent."""
    h = (h % 360) / 360
    s = clamp(s, F(0), F(100)) / 100
    l = clamp(l, F(0), F(100)) / 100
    m2 = l * (s + 1) if l <= F(1, 2) else l + s - l * s
    m1 = l * 2 - m2

    def hue(m1, m2, h):
        if h < 0:
            h += 1
        if h > 1:
            h -= 1
        if h * 6 < 1:
            return m1 + (m2 - m1) * h * 6
        if h * 2 < 1:
            return m2
        if h * 3 < 2:
            return m1 + (m2 - m1) * (F(2, 3) - h) * 6
        return m1
    return [round_half_up(c * 255) for c in (hue(m1, m2, h + F(1, 3)), hue(m1, m2, h), hue(m1, m2, h - F(1, 3)))]


def o_rgb_to_hsl(r, g, b):
    """float hue (deg), saturation, lightness of 8-bit rgb; standard formula"""
    r, g, b = F(r, 255), F(g, 255), F(b, 255)
    mx, mn = max(r, g, b), min(r, g, b)
    l = (mx + mn) / 2
    if mx == mn:
        return 0.0, 0.0, float(l)
    d = mx - mn
    s = d / (mx + mn) if l <= F(1, 2) else d / (2 - mx - mn)
    if mx == r:
        h = ((g - b) / d) % 6
    elif mx == g:
        h = (b - r) / d + 2
    else:
        h = (r - g) / d + 4
    return float(h * 60), float(s), float(l)


# ---- bookkeeping ---------------------------------------------------------------------------
class Tally(object):
    def __init__(self):
        self.n = collections.Counter()
        self.fail = collections.Counter()
        self.examples = collections.defaultdict(list)

    def case(self, check, k=1):
        self.n[check] += k

    def bad(self, check, category, repro, expected, actual):
        key = (check, category)
        self.fail[key] += 1
        if len(self.examples[key]) < 4:
            self.examples[key].append((repro, expected, actual))

    def report(self):
        print('cases per check:')
        for c in sorted(self.n):
            nf = sum(v for (cc, _), v in self.fail.items() if cc == c)
            print('  %-14s n=%-8d failing=%d' % (c, self.n[c], nf))
        print()
        if not self.fail:
            print('NO FAILURES')
            return
        print('failure categories (k of n for that check):')
        for key in sorted(self.fail, key=lambda k: (k[0], -self.fail[k])):
            check, cat = key
            print('  [%s] %s : %d of %d' % (check, cat, self.fail[key], self.n[check]))
            for repro, exp, act in self.examples[key]:
                print('        %s' % repro)
                print('          expected: %s' % (exp,))
                print('          actual  : %s' % (act,))


def rgba_of(c):
    """components straight from the stored 32-bit value (own bit arithmetic, not the accessors)"""
    v = c.value
    if v is None:
        return None
    return ((v >> 24) & 255, (v >> 16) & 255, (v >> 8) & 255, v & 255)


def parse(T, check, text):
    try:
        return Color(text), None
    except Exception as e:
        return None, e


def expect_rgba(T, check, cat, text, exp, extra_cat=None):
    """exp: tuple of 4 ints. """
    c, e = parse(T, check, text)
    src = 'Color(%r)' % text
    if e is not None:
        T.bad(check, cat + ' exception ' + type(e).__name__, src, exp, repr(e))
        return False
    got = rgba_of(c)
    if got != tuple(exp):
        T.bad(check, cat, src, tuple(exp), got)
        return False
    return True


# ---- spellings -----------------------------------------------------------------------------
def recase(rnd, s):
    k = rnd.randint(0, 3)
    if k == 0:
        return s
    if k == 1:
        return s.upper()
    if k == 2:
        return s.title()
    return ''.join(ch.upper() if rnd.random() < 0.5 else ch for ch in s)


def ws(rnd):
    return rnd.choice(['', '', '', ' ', '  ', '\t'])


def num_spelling(rnd, kind):
    """returns a decimal spelling; kind in 'byte', 'pct', 'alpha', 'hue'"""
    k = rnd.random()
    if kind == 'byte':
        if k < 0.55:
            s = str(rnd.randint(0, 255))
        elif k < 0.7:
            s = str(rnd.choice([-1, -10, -255, 256, 300, 1000, 99999]))
        elif k < 0.9:
            s = '%.*f' % (rnd.randint(1, 3), rnd.uniform(-20, 280))
        else:
            s = rnd.choice(['1e2', '2.5e1', '+12', '+0', '-0', '0.0', '255.0', '.9', '1E2'])
    elif kind == 'pct':
        if k < 0.45:
            s = str(rnd.randint(0, 100))
        elif k < 0.6:
            s = str(rnd.choice([-1, -50, 101, 110, 200, 1000]))
        elif k < 0.9:
            s = '%.*f' % (rnd.randint(1, 3), rnd.uniform(-10, 115))
        else:
            s = rnd.choice(['1e2', '5e1', '+50', '+0', '-0', '0.0', '100.0', '.5', '33.333', '66.667'])
    elif kind == 'alpha':
        if k < 0.2:
            s = rnd.choice(['0', '1', '0.0', '1.0'])
        elif k < 0.7:
            s = '%.*f' % (rnd.randint(1, 4), rnd.uniform(0, 1))
        elif k < 0.85:
            s = rnd.choice(['-1', '-0.5', '1.5', '2', '100', '-0'])
        else:
            s = rnd.choice(['.25', '.75', '1e-1', '2.5e-1', '+0.4', '+1'])
    else:  # hue
        if k < 0.4:
            s = str(rnd.randint(0, 360))
        elif k < 0.55:
            s = str(rnd.choice([-30, -120, -360, -400, 390, 480, 720, 725, 3600, -3600, 100000]))
        elif k < 0.9:
            s = '%.*f' % (rnd.randint(1, 3), rnd.uniform(-400, 800))
        else:
            s = rnd.choice(['1.2e2', '+120', '-0', '0.0', '360.0', '.5', '359.9999'])
    return s


def func(rnd, name, args, alpha):
    if alpha is not None:
        args = args + [alpha]
    body = ','.join(ws(rnd) + a + ws(rnd) for a in args)
    return '%s(%s)' % (name, body)


# ---- exhaustive part -----------------------------------------------------------------------
def exhaustive(T):
    rnd = random.Random(12345)
    for name, exp in sorted(TABLE_T.items()):
        variants = {name, name.upper(), name.title(), recase(rnd, name), recase(rnd, name)}
        for v in variants:
            T.case('keyword')
            expect_rgba(T, 'keyword', 'keyword %s' % name, v, exp)
    T.case('none', 2)
    for t in ('none',):
        c = Color(t)
        if c.value is not None:
            T.bad('none', 'none is not None', 'Color(%r).value' % t, None, c.value)
    digs = '0123456789abcdefABCDEF'
    hexd = '0123456789abcdef'
    for a in hexd:
        for b in hexd:
            for c_ in hexd:
                T.case('hex3')
                s = '#' + a + b + c_
                if (int(a, 16) + int(b, 16)) % 3 == 0:
                    s = s.upper()
                exp = (int(a * 2, 16), int(b * 2, 16), int(c_ * 2, 16), 255)
                expect_rgba(T, 'hex3', '#rgb', s, exp)
                for d in hexd:
                    T.case('hex4')
                    s4 = '#' + a + b + c_ + d
                    if (int(a, 16) + int(d, 16)) % 3 == 0:
                        s4 = s4.upper()
                    exp4 = exp[:3] + (int(d * 2, 16),)
                    expect_rgba(T, 'hex4', '#rgba', s4, exp4)
    # every 8-bit value per component: getters, setters in isolation
    for comp, shift in (('red', 24), ('green', 16), ('blue', 8), ('alpha', 0)):
        for base in (0x00000000, 0xFFFFFFFF, 0x12345678, 0xFEDCBA98, 0x80808080):
            for v in range(256):
                T.case('component8')
                c = Color()
                c.rgba = base
                setattr(c, comp, v)
                exp = (base & ~(0xFF << shift) & 0xFFFFFFFF) | (v << shift)
                if c.value != exp or getattr(c, comp) != v:
                    T.bad('component8', 'set %s' % comp, 'c=Color(); c.rgba=%#010x; c.%s=%d; c.value' % (base, comp, v),
                          '%#010x' % exp, '%#010x / getter %r' % (c.value, getattr(c, comp)))


# ---- random checks -------------------------------------------------------------------------
def check_keyword(rnd, T):
    T.case('keyword')
    name = rnd.choice(sorted(TABLE_T))
    expect_rgba(T, 'keyword', 'keyword %s' % name, recase(rnd, name), TABLE_T[name])


def check_hex(rnd, T):
    n = rnd.choice([6, 6, 8, 8, 3, 4])
    T.case('hex%d' % n)
    s = ''.join(rnd.choice('0123456789abcdefABCDEF') for _ in range(n))
    if n in (3, 4):
        full = ''.join(ch * 2 for ch in s)
    else:
        full = s
    if len(full) == 6:
        full += 'ff'
    exp = tuple(int(full[i:i + 2], 16) for i in (0, 2, 4, 6))
    expect_rgba(T, 'hex%d' % n, '#' + 'x' * n, '#' + s, exp)


def judge_channels(T, check, text, chans, alpha, label):
    """chans: list of (round, floor, tie) for r,g,b; alpha likewise. Classifies a mismatch."""
    c, e = parse(T, check, text)
    src = 'Color(%r)' % text
    exp = tuple(x[0] for x in chans) + (alpha[0],)
    if e is not None:
        T.bad(check, label + ' exception ' + type(e).__name__, src, exp, repr(e))
        return
    got = rgba_of(c)
    if got is None:
        T.bad(check, label + ' parsed to none', src, exp, None)
        return
    allc = list(chans) + [alpha]
    names = 'rgba'
    wrong = [i for i in range(4) if got[i] != allc[i][0] and not allc[i][2]]
    if not wrong:
        return
    # classify
    trunc_only = all(got[i] == allc[i][1] for i in wrong)
    which = ''.join(names[i] for i in wrong)
    # exact value is an integer (round == floor) and the library is one below: float noise then truncation
    below_int = all(allc[i][0] == allc[i][1] and got[i] == allc[i][0] - 1 for i in wrong)
    if below_int:
        cat = '%s exact integer channel comes out one lower (%s)' % (label, 'alpha' if which == 'a' else 'rgb')
    elif all((got[i] == allc[i][1]) or (allc[i][0] == allc[i][1] and got[i] == allc[i][0] - 1) for i in wrong):
        cat = '%s truncated instead of rounded (%s)' % (label, 'alpha' if which == 'a' else 'rgb' if 'a' not in which else 'rgb+alpha')
    elif trunc_only:
        cat = '%s truncated instead of rounded (%s)' % (label, 'alpha' if which == 'a' else 'rgb' if 'a' not in which else 'rgb+alpha')
    else:
        cat = '%s wrong value (%s)' % (label, 'alpha' if which == 'a' else 'rgb' if 'a' not in which else 'rgb+alpha')
    T.bad(check, cat, src, exp, got)


def check_rgb(rnd, T):
    T.case('rgb()')
    pct = rnd.random() < 0.45
    kind = 'pct' if pct else 'byte'
    nums = [num_spelling(rnd, kind) for _ in range(3)]
    with_alpha = rnd.random() < 0.5
    a = num_spelling(rnd, 'alpha') if with_alpha else None
    name = 'rgba' if (with_alpha or rnd.random() < 0.1) else 'rgb'
    if with_alpha and rnd.random() < 0.1:
        name = 'rgb'        # CSS Color 4 / browsers: rgb() and rgba() are aliases; the library's regex also allows it
    text = func(rnd, name, [n + '%' for n in nums] if pct else nums, a)
    vals = [dec(n) for n in nums]
    chans = o_rgbp(vals) if pct else o_rgb(vals)
    judge_channels(T, 'rgb()', text, chans, o_alpha(dec(a) if a is not None else None), 'rgb%' if pct else 'rgb')


def check_hsl(rnd, T):
    T.case('hsl()')
    h = num_spelling(rnd, 'hue')
    s = num_spelling(rnd, 'pct')
    l = num_spelling(rnd, 'pct')
    if rnd.random() < 0.25:
        s = rnd.choice(['100', '50', '0', '100.0'])
    if rnd.random() < 0.25:
        l = rnd.choice(['50', '25', '75', '12.5', '100', '0'])
    with_alpha = rnd.random() < 0.5
    a = num_spelling(rnd, 'alpha') if with_alpha else None
    name = 'hsla' if with_alpha else 'hsl'
    text = func(rnd, name, [h, s + '%', l + '%'], a)
    chans = o_hsl(dec(h), dec(s), dec(l))
    judge_channels(T, 'hsl()', text, chans, o_alpha(dec(a) if a is not None else None), 'hsl')


def check_hsl_units(rnd, T):
    """hue with an explicit angle unit (CSS Color 4 <angle>; the library calls Angle.parse on the hue)."""
    T.case('hsl-unit')
    unit, per_turn = rnd.choice([('deg', 360), ('grad', 400), ('turn', 1), ('rad', None)])
    if unit == 'rad':
        k = rnd.choice([0, 1, 2, 3, 4, 6])
        h = '%.15f' % (k * math.pi / 3)
        hdeg = F(k * 60)
    else:
        k = rnd.choice([0, 1, 2, 3, 4, 5, 7, -1])
        hv = F(per_turn * k, 6)
        h = '%.6f' % float(hv) if hv.denominator != 1 else str(int(hv))
        hdeg = F(k * 60)
    text = 'hsl(%s%s, 100%%, 50%%)' % (h, unit)
    chans = o_hsl(hdeg, F(100), F(50))
    if unit in ('rad',) or '.' in h:
        chans = [(c[0], c[1], False) for c in chans]
    c, e = parse(T, 'hsl-unit', text)
    exp = tuple(x[0] for x in chans) + (255,)
    if e is not None:
        T.bad('hsl-unit', 'exception ' + unit, 'Color(%r)' % text, exp, repr(e))
        return
    got = rgba_of(c)
    if got is None or any(abs(got[i] - exp[i]) > 1 for i in range(4)):
        T.bad('hsl-unit', 'hue unit %s not honoured' % unit, 'Color(%r)' % text, exp, got)


def check_variants(rnd, T):
    """borderline spellings: functional notation in upper case, outer white space"""
    T.case('variant')
    r, g, b = (rnd.randint(0, 255) for _ in range(3))
    exp = (r, g, b, 255)
    k = rnd.randint(0, 4)
    if k == 0:
        expect_rgba(T, 'variant', 'upper-case RGB()', 'RGB(%d,%d,%d)' % (r, g, b), exp)
    elif k == 1:
        expect_rgba(T, 'variant', 'outer white space around #hex', ' #%02x%02x%02x ' % (r, g, b), exp)
    elif k == 2:
        expect_rgba(T, 'variant', 'outer white space around rgb()', ' rgb(%d,%d,%d) ' % (r, g, b), exp)
    elif k == 3:
        name = rnd.choice(sorted(TABLE))
        expect_rgba(T, 'variant', 'outer white space around keyword', '  %s ' % name, TABLE[name])
    elif rnd.random() < 0.5:
        expect_rgba(T, 'variant', 'upper-case HSL()', 'HSL(0,100%,50%)', (255, 0, 0, 255))
    else:
        t = rnd.choice(['NONE', 'None', 'nOnE'])
        c = Color(t)
        if c.value is not None:
            T.bad('variant', 'none in another letter case', 'Color(%r).value' % t, None, c.value)


def rand_rgba(rnd):
    k = rnd.random()
    if k < 0.45:
        return rnd.getrandbits(32)
    if k < 0.6:
        # structured: channels from a small set, so that ties between channels (max/min shared) are common
        ch = [rnd.choice([0, 1, 2, 127, 128, 129, 254, 255, 51, 102, 153, 204]) for _ in range(4)]
        return (ch[0] << 24) | (ch[1] << 16) | (ch[2] << 8) | ch[3]
    if k < 0.8:
        return (rnd.getrandbits(24) << 8) | 0xFF
    return rnd.choice([0, 0xFFFFFFFF, 0xFF, 0xFF000000, 0x00FF0000, 0x0000FF00, 0x80808080, 0x7F7F7FFF, 0x010203FF])


def fresh(v):
    c = Color()
    c.rgba = v
    return c


def check_accessors(rnd, T):
    T.case('accessor')
    v = rand_rgba(rnd)
    r, g, b, a = (v >> 24) & 255, (v >> 16) & 255, (v >> 8) & 255, v & 255
    mk = 'c=Color(); c.rgba=%#010x' % v
    c = fresh(v)

    def eq(cat, what, exp, got):
        if exp != got:
            T.bad('accessor', cat, '%s; %s' % (mk, what), exp, got)
    eq('get red', 'c.red', r, c.red)
    eq('get green', 'c.green', g, c.green)
    eq('get blue', 'c.blue', b, c.blue)
    eq('get alpha', 'c.alpha', a, c.alpha)
    eq('get opacity', 'c.opacity', a / 255.0, c.opacity)
    eq('get rgb', 'c.rgb', (r << 16) | (g << 8) | b, c.rgb)
    eq('get rgba', 'c.rgba', v, c.rgba)
    eq('get argb', 'c.argb', (a << 24) | (r << 16) | (g << 8) | b, c.argb)
    eq('get bgr', 'c.bgr', (b << 16) | (g << 8) | r, c.bgr)
    eq('get hexa', 'c.hexa', '#%02x%02x%02x%02x' % (r, g, b, a), c.hexa)
    eq('get hexrgb', 'c.hexrgb', '#%02x%02x%02x' % (r, g, b), c.hexrgb)
    eq('get hex', 'c.hex', ('#%02x%02x%02x' % (r, g, b)) if a == 255 else '#%02x%02x%02x%02x' % (r, g, b, a), c.hex)
    eq('int()', 'int(c)', v, int(c))
    # round trips through strings
    for nm in ('hex', 'hexa'):
        try:
            c2 = Color(getattr(c, nm))
            eq('Color(c.%s) == c' % nm, 'Color(c.%s).value' % nm, v, c2.value)
            if not (c2 == c):
                T.bad('accessor', 'Color(c.%s) == c' % nm, '%s; Color(c.%s) == c' % (mk, nm), True, False)
        except Exception as e:
            T.bad('accessor', 'Color(c.%s) exception' % nm, '%s; Color(c.%s)' % (mk, nm), v, repr(e))
    try:
        c2 = Color(str(c))
        eq('Color(str(c))', 'Color(str(c)).value', v, c2.value)
    except Exception as e:
        T.bad('accessor', 'Color(str(c)) exception', '%s; Color(str(c))' % mk, v, repr(e))
    # equality
    if not (c == fresh(v)) or (c != fresh(v)):
        T.bad('accessor', '== reflexive', '%s; c == copy' % mk, True, False)
    other = v ^ (1 << rnd.randrange(32))
    if c == fresh(other) or not (c != fresh(other)):
        T.bad('accessor', '== distinguishes', '%s; c == Color(rgba=%#010x)' % (mk, other), False, True)
    # packings as setters
    w = rand_rgba(rnd)
    wr, wg, wb, wa = (w >> 24) & 255, (w >> 16) & 255, (w >> 8) & 255, w & 255
    c = fresh(v); c.rgba = w
    eq('set rgba', 'c.rgba=%#010x; c.value' % w, w, c.value)
    c = fresh(v); c.argb = (wa << 24) | (wr << 16) | (wg << 8) | wb
    eq('set argb', 'c.argb=%#010x; c.value' % ((wa << 24) | (w >> 8)), w, c.value)
    c = fresh(v); c.rgb = w >> 8
    eq('set rgb (rgb part)', 'c.rgb=%#08x; c.value>>8' % (w >> 8), w >> 8, c.value >> 8)
    if c.alpha != a:
        T.bad('accessor', 'set rgb changes alpha [by design? see report]', '%s; c.rgb=%#08x; c.alpha' % (mk, w >> 8), a, c.alpha)
    c = fresh(v); c.bgr = (wb << 16) | (wg << 8) | wr
    eq('set bgr (rgb part)', 'c.bgr=%#08x; c.value>>8' % ((wb << 16) | (wg << 8) | wr), w >> 8, c.value >> 8)
    if c.alpha != a:
        T.bad('accessor', 'set bgr changes alpha [by design? see report]', '%s; c.bgr=...; c.alpha' % mk, a, c.alpha)
    # component setters
    for comp, shift in (('red', 24), ('green', 16), ('blue', 8), ('alpha', 0)):
        nv = rnd.randint(0, 255)
        c = fresh(v)
        setattr(c, comp, nv)
        exp = (v & ~(0xFF << shift) & 0xFFFFFFFF) | (nv << shift)
        eq('set %s' % comp, 'c.%s=%d; c.value' % (comp, nv), '%#010x' % exp, '%#010x' % c.value)
        # out of range clamps
        for ov, cl in ((-5, 0), (300, 255)):
            c = fresh(v)
            setattr(c, comp, ov)
            exp = (v & ~(0xFF << shift) & 0xFFFFFFFF) | (cl << shift)
            eq('set %s out of range' % comp, 'c.%s=%d; c.value' % (comp, ov), '%#010x' % exp, '%#010x' % c.value)
    # opacity
    o = rnd.choice([0.0, 1.0, 0.5, 0.25, rnd.random(), rnd.random(), -0.5, 1.5])
    ea, _, tie = round_half_up(clamp(F(o), F(0), F(1)) * 255)
    c = fresh(v)
    c.opacity = o
    if not tie:
        eq('set opacity', 'c.opacity=%r; c.value' % o, '%#010x' % ((v & 0xFFFFFF00) | ea), '%#010x' % c.value)
    # opacity write-back is the identity
    c = fresh(v); c.opacity = c.opacity
    eq('opacity write-back', 'c.opacity=c.opacity; c.value', '%#010x' % v, '%#010x' % c.value)
    # constructors
    try:
        eq('Color(r,g,b)', 'Color(%d,%d,%d).value' % (r, g, b), (v | 0xFF), Color(r, g, b).value)
        eq('Color(r,g,b,a)', 'Color(%d,%d,%d,%d).value' % (r, g, b, a), v, Color(r, g, b, a).value)
        eq('Color(int)', 'Color(%#08x).value' % (v >> 8), (v | 0xFF), Color(v >> 8).value)
        eq('Color(Color)', 'Color(c).value', v, Color(fresh(v)).value)
        eq('Color(rgba=)', 'Color(rgba=v).value', v, Color(rgba=v).value)
        eq('Color(argb=)', 'Color(argb=..).value', v, Color(argb=(a << 24) | (v >> 8)).value)
        eq('Color(bgr=)', 'Color(bgr=..).value', v | 0xFF, Color(bgr=(b << 16) | (g << 8) | r).value)
        eq('Color(red=,green=,blue=,alpha=)', 'Color(red=..)', v, Color(red=r, green=g, blue=b, alpha=a).value)
        eq('Color(r=,g=,b=)', 'Color(r=..)', (v & 0xFFFFFF00), Color(r=r, g=g, b=b).value)
    except Exception as e:
        T.bad('accessor', 'constructor exception', mk, v, repr(e))


def check_hsl_access(rnd, T):
    T.case('hsl-access')
    v = rand_rgba(rnd)
    r, g, b, a = (v >> 24) & 255, (v >> 16) & 255, (v >> 8) & 255, v & 255
    mk = 'c=Color(); c.rgba=%#010x' % v
    c = fresh(v)
    eh, es, el = o_rgb_to_hsl(r, g, b)
    try:
        gh, gs, gl = c.hue, c.saturation, c.lightness
        tup = c.hsl
    except Exception as e:
        T.bad('hsl-access', 'getter exception', mk + '; c.hsl', (eh, es, el), repr(e))
        return
    if tuple(tup) != (gh, gs, gl):
        T.bad('hsl-access', 'hsl tuple != (hue, saturation, lightness)', mk + '; c.hsl', (gh, gs, gl), tup)
    dh = abs((float(gh) - eh + 180) % 360 - 180)
    if dh > 1e-6:
        T.bad('hsl-access', 'get hue', mk + '; c.hue', eh, float(gh))
    if abs(gs - es) > 1e-9:
        T.bad('hsl-access', 'get saturation', mk + '; c.saturation', es, gs)
    if abs(gl - el) > 1e-9:
        T.bad('hsl-access', 'get lightness', mk + '; c.lightness', el, gl)
    # writing back what was read must not change anything
    for comp in ('hue', 'saturation', 'lightness', 'hsl'):
        c = fresh(v)
        try:
            setattr(c, comp, getattr(c, comp))
        except Exception as e:
            T.bad('hsl-access', 'write-back exception ' + comp, '%s; c.%s = c.%s' % (mk, comp, comp), '%#010x' % v, repr(e))
            continue
        if c.value != v:
            d = max(abs(x - y) for x, y in zip(rgba_of(c), (r, g, b, a)))
            T.bad('hsl-access', 'write-back of %s changes the colour (max channel delta %s)' % (comp, '1' if d == 1 else '>1'),
                  '%s; c.%s = c.%s; hex' % (mk, comp, comp), '%#010x' % v, '%#010x' % c.value)
    # writing lightness leaves alpha alone and yields the CSS colour for (h, s, newL)
    nl = rnd.choice([0.0, 1.0, 0.5, 0.25, 0.75, round(rnd.random(), 3)])
    c = fresh(v)
    c.lightness = nl
    if c.alpha != a:
        T.bad('hsl-access', 'set lightness changes alpha', '%s; c.lightness=%r; c.alpha' % (mk, nl), a, c.alpha)
    chans = o_hsl(F(eh), F(es) * 100, F(nl) * 100)
    got = rgba_of(c)
    if any(abs(got[i] - chans[i][0]) > 1 for i in range(3)):
        T.bad('hsl-access', 'set lightness wrong colour', '%s; c.lightness=%r; rgb' % (mk, nl), tuple(x[0] for x in chans), got[:3])
    nh = rnd.choice([0, 60, 120, 180, 240, 300, 360, -60, 420, round(rnd.uniform(-360, 720), 1)])
    c = fresh(v)
    c.hue = nh
    chans = o_hsl(F(nh), F(es) * 100, F(el) * 100)
    got = rgba_of(c)
    if c.alpha != a or any(abs(got[i] - chans[i][0]) > 1 for i in range(3)):
        T.bad('hsl-access', 'set hue wrong colour', '%s; c.hue=%r; rgba' % (mk, nh), tuple(x[0] for x in chans) + (a,), got)
    ns = rnd.choice([0.0, 1.0, 0.5, round(rnd.random(), 3)])
    c = fresh(v)
    c.saturation = ns
    chans = o_hsl(F(eh), F(ns) * 100, F(el) * 100)
    got = rgba_of(c)
    if c.alpha != a or any(abs(got[i] - chans[i][0]) > 1 for i in range(3)):
        T.bad('hsl-access', 'set saturation wrong colour', '%s; c.saturation=%r; rgba' % (mk, ns), tuple(x[0] for x in chans) + (a,), got)


def check_two_arg(rnd, T):
    """Color(spelling, opacity) and Color(keyword) == spelling comparisons"""
    T.case('ctor2')
    name = rnd.choice(sorted(TABLE))
    r, g, b, _ = TABLE[name]
    o = rnd.choice([0.0, 1.0, 0.25, 0.75, round(rnd.random(), 3)])
    ea, _, tie = round_half_up(F(o) * 255)
    try:
        c = Color(name, o)
    except Exception as e:
        T.bad('ctor2', 'exception', 'Color(%r, %r)' % (name, o), (r, g, b, ea), repr(e))
        return
    if not tie and rgba_of(c) != (r, g, b, ea):
        T.bad('ctor2', 'Color(keyword, opacity)', 'Color(%r, %r)' % (name, o), (r, g, b, ea), rgba_of(c))
    if not (Color(name) == '#%02x%02x%02x' % (r, g, b)) or not (Color(name) == name.upper()):
        T.bad('ctor2', 'Color == string', 'Color(%r) == %r' % (name, '#%02x%02x%02x' % (r, g, b)), True, False)


CHECKS = [(check_keyword, 1), (check_hex, 2), (check_rgb, 5), (check_hsl, 6), (check_hsl_units, 1), (check_variants, 1),
          (check_accessors, 3), (check_hsl_access, 3), (check_two_arg, 1)]


def main():
    seed = int(sys.argv[1]) if len(sys.argv) > 1 else 0
    n = int(sys.argv[2]) if len(sys.argv) > 2 else 20000
    rnd = random.Random(seed)
    T = Tally()
    exhaustive(T)
    pool = [c for c, w in CHECKS for _ in range(w)]
    for i in range(n):
        chk = rnd.choice(pool)
        try:
            chk(rnd, T)
        except Exception:
            T.bad(chk.__name__, 'HARNESS ERROR', traceback.format_exc(), '', '')
    print('seed=%d random cases=%d (plus exhaustive part)' % (seed, n))
    T.report()


if __name__ == '__main__':
    main()
