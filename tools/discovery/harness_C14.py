#!/venv/bin/python
"""
Random-document harness for property C14 (fill / stroke / stroke-width follow the SVG/CSS cascade and inheritance).

    /venv/bin/python harness_C14.py SEED N [--keep-going] [--no-shrink] [--profile NAME]

The oracle is independent of the library: documents are generated as a small tree MODEL (dicts), serialised to XML
text, and the expected computed values are derived from the MODEL with CSS 2.1 specificity/order and SVG inheritance
rules written here.  The library only sees the XML text.

Profiles (which document features are switched on):
    core    : one <style> as first child of the root, no rules that match the root, vector-effect only on shapes,
              opaque colours only, no transform on <svg>, every rule non-empty
    full    : everything (late <style>, root-matching rules, alpha colours, vector-effect on containers,
              empty rules, transform on svg elements)
Each failure is tagged with the feature flags that were on in the failing document after shrinking.
"""
import io
import json
import math
import random
import sys
import copy as _copy

sys.path.insert(0, "/tmp/dz/C14_C18")
from svgelements import (  # noqa: E402
    SVG,
    Group,
    Use,
    Shape,
    Rect,
    Circle,
    Ellipse,
    SimpleLine,
    Polyline,
    Polygon,
    Path,
    Matrix,
)

# ---------------------------------------------------------------------------------------------------------------
# vocabulary
# ---------------------------------------------------------------------------------------------------------------
NAMED = {
    "red": (255, 0, 0),
    "blue": (0, 0, 255),
    "lime": (0, 255, 0),
    "green": (0, 128, 0),
    "yellow": (255, 255, 0),
    "white": (255, 255, 255),
    "black": (0, 0, 0),
    "gray": (128, 128, 128),
    "orange": (255, 165, 0),
    "purple": (128, 0, 128),
    "aqua": (0, 255, 255),
    "fuchsia": (255, 0, 255),
    "navy": (0, 0, 128),
    "teal": (0, 128, 128),
    "maroon": (128, 0, 0),
    "olive": (128, 128, 0),
    "silver": (192, 192, 192),
}
HEXES = {
    "#123456": (0x12, 0x34, 0x56),
    "#abcdef": (0xAB, 0xCD, 0xEF),
    "#f80": (0xFF, 0x88, 0x00),
    "#0a5": (0x00, 0xAA, 0x55),
    "rgb(10,20,30)": (10, 20, 30),
    "rgb(200, 100, 50)": (200, 100, 50),
    "rgb(100%,0%,40%)": (255, 0, 102),
}
ALPHA_COLOURS = {  # colour text -> (r,g,b,alpha 0..1)
    "#ff000080": (255, 0, 0, 128 / 255.0),
    "rgba(0,0,255,0.5)": (0, 0, 255, 0.5),
}
OPAQUE = dict(NAMED)
OPAQUE.update(HEXES)

SHAPES = ["rect", "circle", "ellipse", "line", "polyline", "polygon", "path"]
GEOM = {
    "rect": {"x": "1", "y": "2", "width": "10", "height": "6"},
    "circle": {"cx": "5", "cy": "5", "r": "4"},
    "ellipse": {"cx": "5", "cy": "5", "rx": "4", "ry": "2"},
    "line": {"x1": "0", "y1": "0", "x2": "10", "y2": "5"},
    "polyline": {"points": "0,0 10,0 10,10"},
    "polygon": {"points": "0,0 10,0 10,10"},
    "path": {"d": "M0,0 L10,0 L10,10 z"},
}
KIND = {
    "svg": SVG,
    "g": Group,
    "use": Use,
    "rect": Rect,
    "circle": Circle,
    "ellipse": Ellipse,
    "line": SimpleLine,
    "polyline": Polyline,
    "polygon": Polygon,
    "path": Path,
}
CLASSES = ["a", "b", "c"]
INHERITED = ("fill", "stroke", "stroke-width", "fill-opacity", "stroke-opacity", "color")
NOT_INHERITED = ("opacity", "display", "vector-effect")
PROPS = INHERITED + NOT_INHERITED

# transform text -> determinant
TRANSFORMS = [
    ("translate(3,4)", 1.0),
    ("scale(2)", 4.0),
    ("scale(0.5)", 0.25),
    ("scale(2,3)", 6.0),
    ("scale(-1,1)", -1.0),
    ("scale(-2)", 4.0),
    ("rotate(30)", 1.0),
    ("rotate(90)", 1.0),
    ("skewX(20)", 1.0),
    ("matrix(1,2,3,4,5,6)", -2.0),
    ("matrix(2,0,0,2,1,1)", 4.0),
    ("matrix(0,3,-3,0,0,0)", 9.0),
    ("translate(1,1) scale(3)", 9.0),
    ("rotate(45) scale(2,0.5)", 1.0),
]


def rand_colour(rng, flags):
    r = rng.random()
    if r < 0.12:
        return "none"
    if r < 0.27:
        return "currentColor"
    if flags["alpha"] and r < 0.33:
        return rng.choice(sorted(ALPHA_COLOURS))
    if r < 0.8:
        return rng.choice(sorted(NAMED))
    return rng.choice(sorted(HEXES))


def rand_value(rng, prop, flags):
    if prop in ("fill", "stroke"):
        return rand_colour(rng, flags)
    if prop == "color":
        return rng.choice(sorted(NAMED))
    if prop == "stroke-width":
        return rng.choice(["2", "0.5", "3.5", "4", "10", "0", "2px", "1.5"])
    if prop in ("fill-opacity", "stroke-opacity", "opacity"):
        return rng.choice(["0.5", "0", "1", ".25", "0.75", "0.2"])
    if prop == "display":
        return rng.choice(["none", "inline", "inline", "block"])
    if prop == "vector-effect":
        return rng.choice(["non-scaling-stroke", "non-scaling-stroke", "none"])
    raise AssertionError(prop)


def rand_props(rng, flags, is_shape, n_max=3, for_rule=False):
    """ordered list of (prop, value) - may contain the same prop twice (later wins)"""
    out = []
    n = rng.randint(0, n_max)
    for _ in range(n):
        r = rng.random()
        if r < 0.30:
            p = "fill"
        elif r < 0.55:
            p = "stroke"
        elif r < 0.70:
            p = "stroke-width"
        elif r < 0.77:
            p = "fill-opacity"
        elif r < 0.84:
            p = "stroke-opacity"
        elif r < 0.91:
            p = "color"
        elif r < 0.93:
            p = "opacity"
        elif r < 0.96:
            p = "display"
        else:
            p = "vector-effect"
        if p == "vector-effect" and not flags["ve_on_container"] and (not is_shape or for_rule):
            continue
        if p == "display" and for_rule and rng.random() < 0.5:
            continue
        out.append((p, rand_value(rng, p, flags)))
    return out


# ---------------------------------------------------------------------------------------------------------------
# model generation
# ---------------------------------------------------------------------------------------------------------------
class Gen:
    def __init__(self, rng, flags):
        self.rng = rng
        self.flags = flags
        self.n = 0

    def new_id(self, prefix):
        self.n += 1
        return "%s%d" % (prefix, self.n)

    def common(self, node, is_shape):
        rng = self.rng
        node["id"] = self.new_id(node["tag"][0])
        node["has_id"] = True
        node["classes"] = rng.sample(CLASSES, rng.choice([0, 0, 1, 1, 2]))
        if self.flags.get("single_class"):
            node["classes"] = node["classes"][:1]
        attrs = {}
        for p, v in rand_props(rng, self.flags, is_shape, 3):
            attrs[p] = v
        node["attrs"] = attrs
        node["inline"] = rand_props(rng, self.flags, is_shape, 2) if rng.random() < 0.5 else []
        node["inline_fmt"] = rng.randint(0, 3)
        node["transform"] = None
        if rng.random() < 0.45:
            node["transform"] = rng.choice(TRANSFORMS)
        node.setdefault("children", [])
        return node

    def shape(self):
        tag = self.rng.choice(SHAPES)
        return self.common({"tag": tag}, True)

    def svgnode(self, root):
        rng = self.rng
        node = self.common({"tag": "svg"}, False)
        if not self.flags["svg_transform"]:
            node["transform"] = None
        vp = {"x": None, "y": None, "width": None, "height": None, "viewBox": None, "par": None}
        r = rng.random()
        if r < 0.6:
            w, h = rng.choice([(100, 100), (200, 100), (50, 80)])
            vw, vh = rng.choice([(100, 100), (50, 50), (200, 100), (25, 40), (400, 100)])
            vp["viewBox"] = "%s %s %d %d" % (rng.choice(["0", "0", "10"]), rng.choice(["0", "0", "-5"]), vw, vh)
            if root and rng.random() < 0.25:
                pass  # no width/height on the root: the viewBox size is the viewport
            else:
                vp["width"] = str(w)
                vp["height"] = str(h)
            vp["par"] = rng.choice([None, None, "none", "xMinYMin slice", "xMaxYMax meet"])
        elif r < 0.8:
            vp["width"] = "100"
            vp["height"] = "100"
        if not root and rng.random() < 0.4:
            vp["x"] = "5"
            vp["y"] = "7"
        node["vp"] = vp
        return node

    def container(self, depth, targets, main_shapes):
        rng = self.rng
        r = rng.random()
        if r < 0.72:
            node = self.common({"tag": "g"}, False)
        else:
            node = self.svgnode(False)
        self.fill_children(node, depth + 1, targets, main_shapes)
        return node

    def use(self, targets):
        node = self.common({"tag": "use"}, False)
        node["href"] = self.rng.choice(targets)
        node["href_attr"] = self.rng.choice(["xlink:href", "href"])
        node["x"] = node["y"] = None
        if self.rng.random() < 0.4:
            node["x"], node["y"] = "3", "4"
        return node

    def fill_children(self, node, depth, targets, main_shapes):
        rng = self.rng
        n = rng.choice([1, 1, 2, 2, 3]) if depth < 3 else rng.choice([1, 2])
        for _ in range(n):
            r = rng.random()
            if depth < 3 and r < 0.35:
                child = self.container(depth, targets, main_shapes)
            elif targets and r < 0.5:
                child = self.use(targets)
            else:
                child = self.shape()
                if main_shapes is not None:
                    main_shapes.append(child["id"])
            node["children"].append(child)

    def rule(self, ids, root_id):
        rng = self.rng
        sels = []
        for _ in range(rng.choice([1, 1, 1, 2, 3])):
            r = rng.random()
            if r < 0.15:
                s = "*"
            elif r < 0.40:
                s = rng.choice(SHAPES + ["g", "g", "use", "svg"])
            elif r < 0.62:
                s = "." + rng.choice(CLASSES)
            elif r < 0.80:
                s = rng.choice(SHAPES + ["g", "use"]) + "." + rng.choice(CLASSES)
            else:
                s = "#" + rng.choice(ids)
            sels.append(s)
        decls = rand_props(rng, self.flags, True, 3, for_rule=True)
        if not decls and not self.flags["empty_rule"]:
            decls = [("fill", rand_colour(rng, self.flags))]
        return {
            "sels": sels,
            "decls": decls,
            "semi": rng.random() < 0.5 or bool(self.flags.get("semi_always")),  # trailing semicolon
            "cmt": rng.randint(0, 5),  # comment placement
            "ws": rng.randint(0, 2),
        }


def collect_ids(node, out):
    out.append(node["id"])
    for c in node.get("children", []):
        collect_ids(c, out)
    return out


def gen_doc(rng, flags):
    g = Gen(rng, flags)
    root = g.svgnode(True)
    root["id"] = "root"
    if not flags["root_match"]:
        # keep the root unstyled by selectors: no class, and rules never use 'svg'/'#root'; '*' handled below
        root["classes"] = []
        for k, v in list(root["attrs"].items()):
            if v == "currentColor":  # '*{color:..}' on the root would be observable through it
                root["attrs"][k] = "maroon"
        root["inline"] = [(k, "maroon" if v == "currentColor" else v) for k, v in root["inline"]]
    # defs
    defs = {"tag": "defs", "id": "defs", "has_id": False, "classes": [], "attrs": {}, "inline": [], "inline_fmt": 0,
            "transform": None, "children": []}
    targets = []
    for i in range(rng.choice([0, 1, 2, 3])):
        r = rng.random()
        if r < 0.6 or not targets:
            t = g.shape()
        elif r < 0.85:
            t = g.common({"tag": "g"}, False)
            g.fill_children(t, 2, list(targets), None)
        else:
            t = g.svgnode(False)
            g.fill_children(t, 2, list(targets), None)
        defs["children"].append(t)
        targets.append(t["id"])
    main_shapes = []
    g.fill_children(root, 0, list(targets), main_shapes)
    # a few uses of shapes that are themselves rendered in the main tree
    if main_shapes and rng.random() < 0.3:
        root["children"].append(g.use(main_shapes))
    if defs["children"]:
        root["children"].insert(rng.choice([0, 0, len(root["children"])]), defs)
    ids = collect_ids(root, [])
    ids = [i for i in ids if i not in ("defs",)]
    if not flags["root_match"]:
        ids = [i for i in ids if i != "root"] or ["nomatch"]
    # stylesheets
    sheets = []
    nsheets = rng.choice([0, 1, 1, 1, 1, 2])
    for k in range(nsheets):
        rules = [g.rule(ids, "root") for _ in range(rng.choice([1, 2, 3, 4, 5]))]
        if not flags["root_match"]:
            for r in rules:
                r["sels"] = [s for s in r["sels"] if s != "svg" and not s.startswith("svg.")] or [".a"]
                if "*" in r["sels"]:
                    # '*' also matches the root; for every property but display that is unobservable
                    r["decls"] = [d for d in r["decls"] if d[0] != "display"] or [("fill", "teal")]
        pos = "head"
        if flags["late_style"] and rng.random() < 0.3:
            pos = "tail"
        sheets.append({"rules": rules, "pos": pos, "cdata": rng.random() < 0.3})
    if flags.get("nss_mask"):
        nodes = [n for n, _ in all_nodes(root)]
        if any(n["tag"] == "svg" for n in nodes[1:]):
            def fix(v):
                return "none" if v == "non-scaling-stroke" else v
            for n in nodes:
                n["attrs"] = {k: fix(v) for k, v in n["attrs"].items()}
                n["inline"] = [(k, fix(v)) for k, v in n["inline"]]
            for sh in sheets:
                for r in sh["rules"]:
                    r["decls"] = [(k, fix(v)) for k, v in r["decls"]]
    doc = {
        "root": root,
        "sheets": sheets,
        "color_param": rng.choice([None, None, "green", "orange"]),
        "reify": rng.random() < 0.8,
    }
    return doc


# ---------------------------------------------------------------------------------------------------------------
# serialisation
# ---------------------------------------------------------------------------------------------------------------
def ser_decls(decls, semi, ws):
    sep = [";", "; ", " ;\n  "][ws]
    col = [":", ": ", " : "][ws]
    s = sep.join("%s%s%s" % (p, col, v) for p, v in decls)
    if semi and decls:
        s += ";"
    return s


def ser_rule(rule):
    sel = [",", ", ", " ,\n"][rule["ws"]].join(rule["sels"])
    body = ser_decls(rule["decls"], rule["semi"], rule["ws"])
    c = rule["cmt"]
    pre = ""
    if c == 1:
        pre = "/* lead { fill: pink } */ "
    elif c == 2:
        body = "/* x:y; */" + body
    elif c == 3:
        body = body + " /* tail */"
    elif c == 4:
        sel = sel + " /* sel */"
    pad = ["", " ", "\n "][rule["ws"]]
    return "%s%s%s{%s%s%s}" % (pre, sel, pad, pad, body, pad)


def ser_sheet(sheet):
    text = "\n".join(ser_rule(r) for r in sheet["rules"])
    if sheet["cdata"]:
        return '<style type="text/css"><![CDATA[\n%s\n]]></style>' % text
    return "<style>%s</style>" % text.replace("&", "&amp;").replace("<", "&lt;")


def ser_node(node, sheets_head=None, sheets_tail=None):
    tag = node["tag"]
    parts = ["<" + tag]
    if tag == "svg" and sheets_head is not None:
        parts.append(' xmlns="http://www.w3.org/2000/svg" xmlns:xlink="http://www.w3.org/1999/xlink"')
    if node.get("has_id", True) and tag != "defs":
        parts.append(' id="%s"' % node["id"])
    if node["classes"]:
        parts.append(' class="%s"' % " ".join(node["classes"]))
    if tag == "svg":
        vp = node["vp"]
        for k, a in (("x", "x"), ("y", "y"), ("width", "width"), ("height", "height"), ("viewBox", "viewBox"),
                     ("par", "preserveAspectRatio")):
            if vp[k] is not None:
                parts.append(' %s="%s"' % (a, vp[k]))
    if tag == "use":
        parts.append(' %s="#%s"' % (node["href_attr"], node["href"]))
        if node["x"] is not None:
            parts.append(' x="%s" y="%s"' % (node["x"], node["y"]))
    if tag in GEOM:
        for k, v in GEOM[tag].items():
            parts.append(' %s="%s"' % (k, v))
    for p, v in node["attrs"].items():
        parts.append(' %s="%s"' % (p, v))
    if node["transform"]:
        parts.append(' transform="%s"' % node["transform"][0])
    if node["inline"]:
        f = node["inline_fmt"]
        parts.append(' style="%s"' % ser_decls(node["inline"], f & 1, f >> 1))
    inner = []
    if sheets_head:
        inner.extend(sheets_head)
    for c in node["children"]:
        inner.append(ser_node(c))
    if sheets_tail:
        inner.extend(sheets_tail)
    if inner:
        parts.append(">")
        parts.append("".join(inner))
        parts.append("</%s>" % tag)
    else:
        parts.append("/>")
    return "".join(parts)


def ser_doc(doc):
    head = [ser_sheet(s) for s in doc["sheets"] if s["pos"] == "head"]
    tail = [ser_sheet(s) for s in doc["sheets"] if s["pos"] == "tail"]
    return ser_node(doc["root"], head or [], tail)


# ---------------------------------------------------------------------------------------------------------------
# oracle
# ---------------------------------------------------------------------------------------------------------------
def sel_matches(sel, node):
    """returns specificity tuple or None"""
    if sel == "*":
        return (0, 0, 0)
    if sel.startswith("#"):
        return (1, 0, 0) if node.get("has_id", True) and node["id"] == sel[1:] else None
    if sel.startswith("."):
        return (0, 1, 0) if sel[1:] in node["classes"] else None
    if "." in sel:
        t, c = sel.split(".")
        return (0, 1, 1) if node["tag"] == t and c in node["classes"] else None
    return (0, 0, 1) if node["tag"] == sel else None


def cascade(node, rules_in_order):
    """property -> winning specified value for this element (no inheritance)"""
    best = {}

    def offer(prop, key, val):
        if prop not in best or key >= best[prop][0]:
            best[prop] = (key, val)

    for p, v in node["attrs"].items():
        offer(p, (0, (0, 0, 0), 0), v)
    order = 0
    for rule in rules_in_order:
        spec = None
        for s in rule["sels"]:
            m = sel_matches(s, node)
            if m is not None and (spec is None or m > spec):
                spec = m
        for p, v in rule["decls"]:
            order += 1
            if spec is not None:
                offer(p, (1, spec, order), v)
    for p, v in node["inline"]:
        order += 1
        offer(p, (2, (0, 0, 0), order), v)
    return {p: kv[1] for p, kv in best.items()}


def colour_rgba(text):
    if text in OPAQUE:
        r, g, b = OPAQUE[text]
        return (r, g, b, 1.0)
    return ALPHA_COLOURS[text]


def width_px(text):
    if text.endswith("px"):
        text = text[:-2]
    return float(text)


def vp_scale_det(vp, parent_size, is_root):
    """determinant of the viewBox->viewport transform of an svg element, and the size seen by its children"""
    if vp["viewBox"] is None:
        w = float(vp["width"]) if vp["width"] is not None else parent_size[0]
        h = float(vp["height"]) if vp["height"] is not None else parent_size[1]
        return 1.0, (w, h)
    vb = [float(t) for t in vp["viewBox"].split()]
    if vp["width"] is not None:
        w, h = float(vp["width"]), float(vp["height"])
    elif is_root:
        w, h = vb[2], vb[3]
    else:
        w, h = parent_size
    sx, sy = w / vb[2], h / vb[3]
    par = vp["par"]
    if par == "none":
        pass
    elif par is not None and par.endswith("slice"):
        sx = sy = max(sx, sy)
    else:
        sx = sy = min(sx, sy)
    return sx * sy, (vb[2], vb[3])


def index_ids(node, table):
    if node.get("has_id", True):
        table[node["id"]] = node
    for c in node["children"]:
        index_ids(c, table)


def expected_records(doc):
    """preorder list of records for every rendered element instance"""
    rules = []
    for s in doc["sheets"]:
        rules.extend(s["rules"])
    table = {}
    index_ids(doc["root"], table)
    caller = doc["color_param"] or "black"
    out = []

    def inst(node, inh, det, vpdet, size, depth, path, ve_inh):
        tag = node["tag"]
        if tag == "defs":
            return
        spec = cascade(node, rules)
        if spec.get("display") == "none":
            return
        comp = {}
        for p in INHERITED:
            comp[p] = spec[p] if p in spec else inh[p]
        # currentColor, two accepted readings:
        #  A (CSS Color 4 / SVG 2): the keyword is inherited and resolved against the element's own colour
        #  B (CSS Color 3 / SVG 1.1): resolved where it is specified, the resolved colour is inherited
        compB = dict(comp)
        for p in ("fill", "stroke"):
            if p in spec:
                compB[p + "_B"] = comp["color"] if spec[p] == "currentColor" else spec[p]
            else:
                compB[p + "_B"] = inh[p + "_B"]
        comp["fill_B"] = compB["fill_B"]
        comp["stroke_B"] = compB["stroke_B"]
        d = det
        v = vpdet
        if node["transform"]:
            d *= node["transform"][1]
        child_size = size
        if tag == "svg":
            s, child_size = vp_scale_det(node["vp"], size, depth == 0)
            d *= s
            v *= s
        rec = {"tag": tag, "id": node["id"], "path": path + "/" + node["id"]}
        ve_own = spec.get("vector-effect")
        ve_any = ve_own if ve_own is not None else ve_inh  # only used for tagging, not for the expectation
        if tag in GEOM:
            for p in ("fill", "stroke"):
                res = []
                for variant in (comp[p], comp[p + "_B"]):
                    t = comp["color"] if variant == "currentColor" else variant
                    if t == "none":
                        res.append(None)
                    else:
                        r, g, b, a = colour_rgba(t)
                        o = min(max(float(comp[p + "-opacity"]), 0.0), 1.0)
                        res.append((r, g, b, a * o * 255.0))
                rec[p] = res
            w = width_px(comp["stroke-width"])
            rec["sw_raw"] = w
            nss = ve_own == "non-scaling-stroke"
            rec["sw"] = w * math.sqrt(abs(v if nss else d))
            rec["nss"] = nss
            rec["ve_inherited_only"] = (ve_own is None and ve_inh == "non-scaling-stroke")
        out.append(rec)
        if tag == "use":
            target = table.get(node["href"])
            if target is not None:
                inst(target, comp, d, v, child_size, depth + 1, rec["path"], ve_any)
        else:
            for c in node["children"]:
                inst(c, comp, d, v, child_size, depth + 1, rec["path"], ve_any)

    inh0 = {"fill": "black", "stroke": "none", "stroke-width": "1", "fill-opacity": "1", "stroke-opacity": "1",
            "color": caller, "fill_B": "black", "stroke_B": "none"}
    inst(doc["root"], inh0, 1.0, 1.0, (1000.0, 1000.0), 0, "", None)
    return out


# ---------------------------------------------------------------------------------------------------------------
# observation
# ---------------------------------------------------------------------------------------------------------------
def observe(xml, doc):
    kw = {"reify": doc["reify"]}
    if doc["color_param"]:
        kw["color"] = doc["color_param"]
    svg = SVG.parse(io.StringIO(xml), **kw)
    out = []

    def walk(e):
        rec = {"cls": type(e), "id": getattr(e, "id", None)}
        if isinstance(e, Shape):
            for p in ("fill", "stroke"):
                c = getattr(e, p)
                if c is None or c.value is None:
                    rec[p] = None
                else:
                    rec[p] = (c.red, c.green, c.blue, c.alpha)
            rec["sw_raw"] = e.stroke_width
            t = e.transform
            ident = t is None or (t.a, t.b, t.c, t.d, t.e, t.f) == (1, 0, 0, 1, 0, 0)
            rec["sw"] = e.stroke_width if ident and doc["reify"] else e.implicit_stroke_width
        out.append(rec)
        if isinstance(e, (Group, Use)):
            for c in e:
                walk(c)

    if isinstance(svg, SVG) and (len(svg) or svg.values):
        walk(svg)
    return out


def colour_ok(exp_variants, act):
    for exp in exp_variants:
        if exp is None or act is None:
            if exp is None and act is None:
                return True
            continue
        if exp[:3] == tuple(act[:3]) and abs(exp[3] - act[3]) <= 1.0:
            return True
    return False


def check(doc):
    """returns list of mismatches: (kind, path, expected, actual)"""
    xml = ser_doc(doc)
    exp = expected_records(doc)
    try:
        act = observe(xml, doc)
    except Exception as e:  # noqa
        return [("exception", type(e).__name__, str(e)[:80], None)], xml
    if not exp and len(act) <= 1:
        return [], xml
    if len(exp) != len(act) or any(KIND[a["tag"]] is not b["cls"] or a["id"] != b["id"] for a, b in zip(exp, act)):
        return [("structure", "", [(r["tag"], r["id"]) for r in exp], [(r["cls"].__name__, r["id"]) for r in act])], xml
    bad = []
    for a, b in zip(exp, act):
        if a["tag"] not in GEOM:
            continue
        for p in ("fill", "stroke"):
            if not colour_ok(a[p], b[p]):
                bad.append((p, a["path"], a[p], b[p]))
        tol = 1e-6 * max(1.0, abs(a["sw"]))
        if b["sw"] is None or abs(a["sw"] - b["sw"]) > tol:
            kind = "stroke-width"
            if a["sw_raw"] == (b["sw_raw"] if not doc["reify"] else a["sw_raw"]) and b["sw"] is not None:
                pass
            bad.append((kind, a["path"], a["sw"], b["sw"]))
    return bad, xml


# ---------------------------------------------------------------------------------------------------------------
# shrinking
# ---------------------------------------------------------------------------------------------------------------
def all_nodes(node, acc=None, parent=None):
    if acc is None:
        acc = []
    acc.append((node, parent))
    for c in node["children"]:
        all_nodes(c, acc, node)
    return acc


def candidates(doc):
    """yield smaller variants of doc"""
    # drop sheets / rules / selectors / declarations
    for i in range(len(doc["sheets"])):
        d = _copy.deepcopy(doc)
        del d["sheets"][i]
        yield d
    for i, s in enumerate(doc["sheets"]):
        for j in range(len(s["rules"])):
            if len(s["rules"]) > 1:
                d = _copy.deepcopy(doc)
                del d["sheets"][i]["rules"][j]
                yield d
            r = s["rules"][j]
            for k in range(len(r["sels"])):
                if len(r["sels"]) > 1:
                    d = _copy.deepcopy(doc)
                    del d["sheets"][i]["rules"][j]["sels"][k]
                    yield d
            for k in range(len(r["decls"])):
                if len(r["decls"]) > 1:
                    d = _copy.deepcopy(doc)
                    del d["sheets"][i]["rules"][j]["decls"][k]
                    yield d
            if r["cmt"] or r["ws"]:
                d = _copy.deepcopy(doc)
                d["sheets"][i]["rules"][j]["cmt"] = 0
                d["sheets"][i]["rules"][j]["ws"] = 0
                yield d
        if s["cdata"]:
            d = _copy.deepcopy(doc)
            d["sheets"][i]["cdata"] = False
            yield d
        if s["pos"] == "tail":
            d = _copy.deepcopy(doc)
            d["sheets"][i]["pos"] = "head"
            yield d
    nodes = all_nodes(doc["root"])
    for idx, (n, parent) in enumerate(nodes):
        if parent is not None:
            # remove node
            d = _copy.deepcopy(doc)
            dn = all_nodes(d["root"])
            dn[idx][1]["children"].remove(dn[idx][0])
            yield d
            # hoist children in place of node (containers only)
            if n["tag"] in ("g", "svg") and n["children"]:
                d = _copy.deepcopy(doc)
                dn = all_nodes(d["root"])
                p = dn[idx][1]
                i = p["children"].index(dn[idx][0])
                p["children"][i:i + 1] = dn[idx][0]["children"]
                yield d
            if n["tag"] == "svg":
                d = _copy.deepcopy(doc)
                dn = all_nodes(d["root"])
                dn[idx][0]["tag"] = "g"
                del dn[idx][0]["vp"]
                yield d
        for p in list(n["attrs"]):
            d = _copy.deepcopy(doc)
            del all_nodes(d["root"])[idx][0]["attrs"][p]
            yield d
        for k in range(len(n["inline"])):
            d = _copy.deepcopy(doc)
            del all_nodes(d["root"])[idx][0]["inline"][k]
            yield d
        for k in range(len(n["classes"])):
            d = _copy.deepcopy(doc)
            del all_nodes(d["root"])[idx][0]["classes"][k]
            yield d
        if n["transform"]:
            d = _copy.deepcopy(doc)
            all_nodes(d["root"])[idx][0]["transform"] = None
            yield d
        if n["tag"] == "svg":
            vp = n["vp"]
            for k in ("par", "x", "viewBox"):
                if vp[k] is not None:
                    d = _copy.deepcopy(doc)
                    v2 = all_nodes(d["root"])[idx][0]["vp"]
                    v2[k] = None
                    if k == "x":
                        v2["y"] = None
                    yield d
        if n["tag"] == "use" and n["x"] is not None:
            d = _copy.deepcopy(doc)
            all_nodes(d["root"])[idx][0]["x"] = None
            yield d
        if n["tag"] in GEOM and n["tag"] != "rect":
            d = _copy.deepcopy(doc)
            all_nodes(d["root"])[idx][0]["tag"] = "rect"
            yield d
    if doc["color_param"]:
        d = _copy.deepcopy(doc)
        d["color_param"] = None
        yield d
    if not doc["reify"]:
        d = _copy.deepcopy(doc)
        d["reify"] = True
        yield d


def shrink(doc, kind):
    def fails(d):
        try:
            bad, _ = check(d)
        except Exception:
            return False
        return any(b[0] == kind for b in bad)

    progress = True
    while progress:
        progress = False
        for cand in candidates(doc):
            if fails(cand):
                doc = cand
                progress = True
                break
    return doc


def features(doc):
    """feature tags of a (shrunk) document, used to bucket failures"""
    tags = set()
    rules = [r for s in doc["sheets"] for r in s["rules"]]
    if any(s["pos"] == "tail" for s in doc["sheets"]):
        tags.add("late-style")
    if any(not r["decls"] for r in rules):
        tags.add("empty-rule")
    root = doc["root"]
    if any(sel_matches(s, root) is not None and (s != "*" or any(d[0] == "display" for d in r["decls"]))
           for r in rules for s in r["sels"]):
        tags.add("rule-matches-root")
    texts = json.dumps(doc)
    if any(a in texts for a in ALPHA_COLOURS):
        tags.add("alpha-colour")
    if "currentColor" in texts:
        tags.add("currentColor")
    if "non-scaling-stroke" in texts:
        tags.add("nss")
    kinds = set()
    for r in rules:
        for s in r["sels"]:
            kinds.add("*" if s == "*" else "#" if s[0] == "#" else "." if s[0] == "." else "t.c" if "." in s else "t")
    if kinds:
        tags.add("sel:" + "".join(sorted(kinds)))
    tags.add("rules:%d" % len(rules))
    return sorted(tags)


# ---------------------------------------------------------------------------------------------------------------
PROFILES = {
    "core": dict(late_style=False, root_match=False, alpha=False, ve_on_container=False, empty_rule=False,
                 svg_transform=False),
    # core with the two frequent root causes masked (every rule ends in ';', at most one class per element)
    "masked": dict(late_style=False, root_match=False, alpha=False, ve_on_container=False, empty_rule=False,
                   svg_transform=False, semi_always=True, single_class=True, nss_mask=True),
    "fullmasked": dict(late_style=True, root_match=True, alpha=True, ve_on_container=True, empty_rule=True,
                       svg_transform=True, semi_always=True, single_class=True, nss_mask=True),
    "full": dict(late_style=True, root_match=True, alpha=True, ve_on_container=True, empty_rule=True,
                 svg_transform=True),
}


for _f in ("late_style", "root_match", "alpha", "ve_on_container", "empty_rule", "svg_transform"):
    PROFILES["only_" + _f] = dict(PROFILES["masked"])
    PROFILES["only_" + _f][_f] = True


for _f in ("semi_always", "single_class", "nss_mask"):
    PROFILES["unmask_" + _f] = dict(PROFILES["masked"])
    PROFILES["unmask_" + _f][_f] = False


def main(argv):
    seed = int(argv[1])
    n = int(argv[2])
    do_shrink = "--no-shrink" not in argv
    profile = "full"
    if "--profile" in argv:
        profile = argv[argv.index("--profile") + 1]
    flags = PROFILES[profile]
    max_report = 40
    per_bucket = 1
    if "--per-bucket" in argv:
        per_bucket = int(argv[argv.index("--per-bucket") + 1])
    if "--max-report" in argv:
        max_report = int(argv[argv.index("--max-report") + 1])
    nfail = 0
    by_kind = {}
    buckets = {}
    for i in range(n):
        rng = random.Random(seed * 1000003 + i)
        doc = gen_doc(rng, flags)
        bad, xml = check(doc)
        if not bad:
            continue
        nfail += 1
        kinds = sorted(set(b[0] for b in bad))
        for k in kinds:
            by_kind[k] = by_kind.get(k, 0) + 1
        if do_shrink and nfail <= max_report:
            k = kinds[0]
            small = shrink(doc, k)
            sbad, sxml = check(small)
            key = (k, tuple(features(small)))
            buckets.setdefault(key, []).append(i)
            if len(buckets[key]) <= per_bucket:
                print("=== case %d kind=%s features=%s" % (i, k, features(small)))
                print("    parse kwargs: reify=%s color=%s" % (small["reify"], small["color_param"]))
                print("    " + sxml)
                for b in sbad[:4]:
                    print("    %s at %s: expected %s actual %s" % b)
    print("seed=%d n=%d profile=%s failing=%d by_kind=%s" % (seed, n, profile, nfail, by_kind))
    for key, cases in sorted(buckets.items(), key=lambda kv: -len(kv[1])):
        print("  bucket %s %s: %d (first cases %s)" % (key[0], list(key[1]), len(cases), cases[:5]))
    return 0


if __name__ == "__main__":
    sys.exit(main(sys.argv))
