"""
C17 harness: appending path data continues the parse.

usage: /venv/bin/python harness_C17.py SEED N

For a random grammar-conforming string (same generator as harness_C01) cut at command
boundaries into pieces a, b, c ... the following histories are compared, segment by segment,
against the INDEPENDENT reference interpretation of the whole string (pathoracle.reference):

  add      p = Path(a); p = p + b; p = p + c ...
  iadd     p = Path(a); p += b; ...
  parse    p = Path(a); p.parse(b); ...
  mixed    random choice of the three per step
  seg+     Path(a)[0] + b (+ c ...) when a is a single segment (a lone move)
  orig     after q = p + b the left operand p must still be the reference of a (reported as
           its own bucket; informational: the property does not literally demand it)

and for concatenation with paths / shapes beginning with a move:

  path+path   Path(a) + Path(b2),  Path(a) += Path(b2)      expected ref(a) ++ ref(b2)
  path+shape  Path(a) + Rect/Polygon/Polyline/SimpleLine/Circle/Ellipse (optionally
              transformed by translate/rotate/uniform scale). Expected geometry is computed
              from the shape definition with plain geometry (vertices through a hand-built
              matrix; for round shapes every sampled point of the appended segments must lie
              on the transformed ellipse / rounded-rect outline and the appended length must
              equal the perimeter).

Informational only (not in the STATEMENT's list): append(b), extend(b).
"""
import sys
import os
import math
import random
import collections
import traceback
from copy import copy

HERE = os.path.dirname(os.path.abspath(__file__))
sys.path.insert(0, HERE)
from svgelements import (  # noqa: E402
    Path,
    Rect,
    Circle,
    Ellipse,
    SimpleLine,
    Polygon,
    Polyline,
    Move,
    Close,
    Line,
    Arc,
)
import pathoracle as po  # noqa: E402

OPTS = [
    dict(zcomplete=0.08),
    dict(zcomplete=0.08, small=True),
    dict(zcomplete=0.3, zc_deep=True),
    dict(zcomplete=0.05, zero_radius=0.1, neg_radius=True),
]


def split_pieces(rng, items, opts):
    n = len(items)
    if n < 2:
        return None
    k = rng.randint(1, min(4, n - 1))
    cuts = sorted(rng.sample(range(1, n), k))
    bounds = [0] + cuts + [n]
    pieces = []
    for a, b in zip(bounds, bounds[1:]):
        sub = items[a:b]
        s = ""
        for i, it in enumerate(sub):
            if i:
                s += po._wsp_star(rng, opts)
            s += po.render_item(rng, it, opts)
        if rng.random() < 0.3:
            s = po._wsp_star(rng, opts, 0.3) + s + po._wsp_star(rng, opts, 0.3)
        pieces.append((sub, s))
    return pieces


def guarded(fn):
    try:
        return fn(), None
    except Exception as e:
        tb = traceback.extract_tb(sys.exc_info()[2])[-1]
        return None, "EXC %s at line %d: %s" % (type(e).__name__, tb.lineno, e)


# ---------------------------------------------------------------- shapes
def mat_mul(m, n):
    # matrices as (a,b,c,d,e,f): x' = a x + c y + e ; y' = b x + d y + f.  returns m after n (apply n first)
    a, b, c, d, e, f = m
    a2, b2, c2, d2, e2, f2 = n
    return (
        a * a2 + c * b2,
        b * a2 + d * b2,
        a * c2 + c * d2,
        b * c2 + d * d2,
        a * e2 + c * f2 + e,
        b * e2 + d * f2 + f,
    )


def mat_apply(m, p):
    a, b, c, d, e, f = m
    return (a * p[0] + c * p[1] + e, b * p[0] + d * p[1] + f)


def mat_inv(m):
    a, b, c, d, e, f = m
    det = a * d - b * c
    ia, ib, ic, id_ = d / det, -b / det, -c / det, a / det
    return (ia, ib, ic, id_, -(ia * e + ic * f), -(ib * e + id_ * f))


def random_transform(rng):
    """returns (svg transform string or None, matrix). SVG: leftmost is outermost."""
    if rng.random() < 0.4:
        return None, (1, 0, 0, 1, 0, 0)
    parts = []
    m = (1, 0, 0, 1, 0, 0)
    for _ in range(rng.randint(1, 3)):
        k = rng.choice(["t", "r", "s", "rc"])
        if k == "t":
            tx, ty = rng.randint(-50, 50), rng.randint(-50, 50)
            parts.append("translate(%d,%d)" % (tx, ty))
            n = (1, 0, 0, 1, tx, ty)
        elif k == "r":
            a = rng.choice([30, 45, 90, -60, 180, 17])
            parts.append("rotate(%d)" % a)
            r = math.radians(a)
            n = (math.cos(r), math.sin(r), -math.sin(r), math.cos(r), 0, 0)
        elif k == "rc":
            a = rng.choice([30, 90, -45])
            cx, cy = rng.randint(-20, 20), rng.randint(-20, 20)
            parts.append("rotate(%d,%d,%d)" % (a, cx, cy))
            r = math.radians(a)
            n = mat_mul(
                (1, 0, 0, 1, cx, cy),
                mat_mul((math.cos(r), math.sin(r), -math.sin(r), math.cos(r), 0, 0), (1, 0, 0, 1, -cx, -cy)),
            )
        else:
            s = rng.choice([2, 0.5, 3, 1.5])
            parts.append("scale(%g)" % s)
            n = (s, 0, 0, s, 0, 0)
        m = mat_mul(m, n)
    return " ".join(parts), m


def ellipse_perimeter(rx, ry, n=4000):
    tot = 0.0
    px, py = rx, 0.0
    for i in range(1, n + 1):
        t = 2 * math.pi * i / n
        x, y = rx * math.cos(t), ry * math.sin(t)
        tot += math.hypot(x - px, y - py)
        px, py = x, y
    return tot


def chord_length(seg, n=300):
    """length by dense sampling of seg.point(t) (independent of the library's length code)."""
    if isinstance(seg, (Line, Close)):
        return math.hypot(seg.end.x - seg.start.x, seg.end.y - seg.start.y)
    tot = 0.0
    p = seg.point(0)
    for i in range(1, n + 1):
        q = seg.point(i / n)
        tot += math.hypot(q.x - p.x, q.y - p.y)
        p = q
    return tot


def shape_case(rng):
    """returns (shape, checker(list_of_appended_segments) -> problem or None, description)"""
    tstr, m = random_transform(rng)
    kw = {}
    if tstr:
        kw["transform"] = tstr
    kind = rng.choice(["rect", "rrect", "circle", "ellipse", "line", "polygon", "polyline"])
    x, y = rng.randint(-100, 100), rng.randint(-100, 100)
    w, h = rng.randint(1, 200), rng.randint(1, 200)
    scale_t = math.sqrt(abs(m[0] * m[3] - m[1] * m[2]))
    mag = max(1.0, *(abs(v) for v in m)) * 400

    def poly_checker(verts, closed):
        exp = [mat_apply(m, v) for v in verts]

        def chk(segs):
            kinds = [type(s).__name__ for s in segs]
            want = ["Move"] + ["Line"] * (len(exp) - 1) + (["Close"] if closed else [])
            if kinds != want:
                return "SHAPE kinds expected %s got %s" % (want, kinds)
            for i, s in enumerate(segs):
                e = exp[i] if i < len(exp) else exp[0]
                g = (s.end.x, s.end.y)
                if abs(g[0] - e[0]) > 1e-8 * mag or abs(g[1] - e[1]) > 1e-8 * mag:
                    return "SHAPE vertex #%d expected %r got %r" % (i, e, g)
            return None

        return chk

    if kind == "rect":
        sh = Rect(x, y, w, h, **kw)
        return sh, poly_checker([(x, y), (x + w, y), (x + w, y + h), (x, y + h)], True), "Rect(%d,%d,%d,%d,%s)" % (x, y, w, h, tstr)
    if kind == "line":
        sh = SimpleLine(x, y, x + w, y - h, **kw)
        return sh, poly_checker([(x, y), (x + w, y - h)], False), "SimpleLine(%d,%d,%d,%d,%s)" % (x, y, x + w, y - h, tstr)
    if kind in ("polygon", "polyline"):
        pts = [(rng.randint(-100, 100), rng.randint(-100, 100)) for _ in range(rng.randint(2, 6))]
        flat = [c for p in pts for c in p]
        if kind == "polygon":
            sh = Polygon(*flat, **kw)
        else:
            sh = Polyline(*flat, **kw)
        return sh, poly_checker(pts, kind == "polygon"), "%s(%s,%s)" % (kind, flat, tstr)
    inv = mat_inv(m)
    if kind in ("circle", "ellipse"):
        if kind == "circle":
            rx = ry = rng.randint(1, 100)
            sh = Circle(x, y, rx, **kw)
            desc = "Circle(%d,%d,%d,%s)" % (x, y, rx, tstr)
        else:
            rx, ry = rng.randint(1, 100), rng.randint(1, 100)
            sh = Ellipse(x, y, rx, ry, **kw)
            desc = "Ellipse(%d,%d,%d,%d,%s)" % (x, y, rx, ry, tstr)
        per = ellipse_perimeter(rx, ry) * scale_t

        def chk(segs):
            if not isinstance(segs[0], Move):
                return "SHAPE round: first appended segment is %s" % type(segs[0]).__name__
            tot = 0.0
            for s in segs[1:]:
                if isinstance(s, Close):
                    if s.length() > 1e-6 * mag:
                        return "SHAPE round: closing gap %r" % s.length()
                    continue
                tot += chord_length(s)
                for t in (0, 0.1, 0.37, 0.5, 0.83, 1):
                    q = s.point(t)
                    lx, ly = mat_apply(inv, (q.x, q.y))
                    v = ((lx - x) / rx) ** 2 + ((ly - y) / ry) ** 2
                    if abs(v - 1) > 2e-5:
                        return "SHAPE round: point off the outline (implicit %r)" % v
            if abs(tot - per) > 2e-5 * per:
                return "SHAPE round: length expected %r got %r" % (per, tot)
            return None

        return sh, chk, desc
    # rounded rect
    rx, ry = rng.randint(1, max(1, w // 2)), rng.randint(1, max(1, h // 2))
    sh = Rect(x, y, w, h, rx, ry, **kw)
    # SVG: corner radii are clamped to half the side
    rx, ry = min(rx, w / 2.0), min(ry, h / 2.0)
    per = (2 * (w - 2 * rx) + 2 * (h - 2 * ry) + ellipse_perimeter(rx, ry)) * scale_t

    def on_outline(lx, ly):
        # inside corner boxes: ellipse; else on the straight edges
        u, v = lx - x, ly - y
        cxs = [rx, w - rx]
        cys = [ry, h - ry]
        tol = 2e-5
        if rx <= u <= w - rx + 1e-9 and u >= rx - 1e-9:
            if min(abs(v), abs(v - h)) <= tol * max(1, h):
                return True
        if ry - 1e-9 <= v <= h - ry + 1e-9:
            if min(abs(u), abs(u - w)) <= tol * max(1, w):
                return True
        ccx = rx if u < rx else w - rx
        ccy = ry if v < ry else h - ry
        val = ((u - ccx) / rx) ** 2 + ((v - ccy) / ry) ** 2
        return abs(val - 1) <= 2e-5

    def chk(segs):
        if not isinstance(segs[0], Move):
            return "SHAPE rrect: first appended segment is %s" % type(segs[0]).__name__
        tot = 0.0
        for s in segs[1:]:
            tot += chord_length(s)
            for t in (0, 0.1, 0.37, 0.5, 0.83, 1):
                q = s.point(t)
                lx, ly = mat_apply(inv, (q.x, q.y))
                if not on_outline(lx, ly):
                    return "SHAPE rrect: point off the outline %r (local %r)" % ((q.x, q.y), (lx, ly))
        if abs(tot - per) > 2e-5 * per:
            return "SHAPE rrect: length expected %r got %r" % (per, tot)
        return None

    return sh, chk, "Rect(%d,%d,%d,%d,%d,%d,%s)" % (x, y, w, h, rx, ry, tstr)


# ---------------------------------------------------------------- main loop
def run(seed, n, verbose=True):
    rng = random.Random(seed)
    buckets = collections.defaultdict(list)
    counts = collections.Counter()

    def record(variant, prob, info):
        sig = variant + " | " + (prob.split(":")[0] if prob.startswith("EXC") else po.signature(prob))
        buckets[sig].append((len(info), info, prob))

    for case in range(n):
        opts = OPTS[case % len(OPTS)]
        items = po.gen_items(rng, opts=opts)
        pieces = split_pieces(rng, items, opts)
        if pieces is None:
            continue
        ref = po.reference(items)
        strs = [s for _, s in pieces]
        if rng.random() < 0.05:
            # the empty path is grammar-conforming too: start the history from it
            strs.insert(0, rng.choice(["", " ", "\n"]))
            pieces.insert(0, ([], strs[0]))
        info = " ++ ".join(repr(s) for s in strs)

        # is the plain parse itself right? (C01) - if not, skip: not a C17 matter
        whole, exc = guarded(lambda: Path(" ".join(strs)))
        if exc or po.compare(list(whole), ref):
            counts["skipped_c01"] += 1
            continue

        def h_add():
            p = Path(strs[0])
            for b in strs[1:]:
                p = p + b
            return p

        def h_iadd():
            p = Path(strs[0])
            for b in strs[1:]:
                p += b
            return p

        def h_parse():
            p = Path(strs[0])
            for b in strs[1:]:
                p.parse(b)
            return p

        def h_mixed():
            p = Path(strs[0])
            for b in strs[1:]:
                k = rng.randint(0, 2)
                if k == 0:
                    p = p + b
                elif k == 1:
                    p += b
                else:
                    p.parse(b)
            return p

        for name, fn in (("add", h_add), ("iadd", h_iadd), ("parse", h_parse), ("mixed", h_mixed)):
            counts[name] += 1
            p, exc = guarded(fn)
            probs = [exc] if exc else po.compare(list(p), ref)
            if probs:
                record(name, probs[0], info)
            elif name in ("add", "iadd"):
                # secondary, relational: same spelling flags (relative / smooth) as the one-shot parse
                da, db = guarded(lambda: p.d())[0], whole.d()
                if da != db:
                    record(name + "-d()", "D-STRING expected %r got %r" % (db, da), info)

        # segment + string, a a lone move
        first_items = pieces[0][0]
        if len(first_items) == 1 and len(first_items[0].groups) == 1 and first_items[0].letter in "Mm":
            counts["seg+"] += 1

            def h_seg():
                seg = Path(strs[0])[0]
                p = seg + strs[1]
                for b in strs[2:]:
                    p = p + b
                return p

            p, exc = guarded(h_seg)
            probs = [exc] if exc else po.compare(list(p), ref)
            if probs:
                record("seg+", probs[0], info)

        # left operand untouched by + (informational)
        counts["orig"] += 1
        ref_a = po.reference(pieces[0][0])

        def h_orig():
            p = Path(strs[0])
            q = p + strs[1]  # noqa
            return p

        p, exc = guarded(h_orig)
        probs = [exc] if exc else po.compare(list(p), ref_a)
        if probs:
            record("orig(info)", probs[0], info)

        # informational: append / extend with strings
        for name in ("append", "extend"):
            counts[name + "(info)"] += 1

            def h_ae():
                p = Path(strs[0])
                for b in strs[1:]:
                    getattr(p, name)(b)
                return p

            p, exc = guarded(h_ae)
            probs = [exc] if exc else po.compare(list(p), ref)
            if probs:
                record(name + "(info)", probs[0], info)

        # path + path
        if case % 2 == 0:
            items_b = po.gen_items(rng, opts=opts)
            sb = po.render(rng, items_b, opts)
            ref_b = po.reference(items_b)
            pb, exc = guarded(lambda: Path(sb))
            if not exc and not po.compare(list(pb), ref_b):
                ref_a_all = ref
                exp = [dict(r) for r in ref_a_all] + [dict(r) for r in ref_b]
                exp[len(ref_a_all)]["start"] = ref_a_all[-1]["end"]
                sa = " ".join(strs)
                info2 = repr(sa) + " PLUS Path(" + repr(sb) + ")"
                for name in ("path+path", "path+=path"):
                    counts[name] += 1

                    def h_pp():
                        p = Path(sa)
                        o = Path(sb)
                        if name == "path+path":
                            p = p + o
                        else:
                            p += o
                        # the right operand must not be disturbed either
                        pr = po.compare(list(o), ref_b)
                        if pr:
                            raise AssertionError("right operand changed: " + pr[0])
                        return p

                    p, exc = guarded(h_pp)
                    probs = [exc] if exc else po.compare(list(p), exp)
                    if probs:
                        record(name, probs[0], info2)
        elif case % 4 == 1:
            # path + TRANSFORMED path (no arcs: beziers/lines are affine invariant, so the drawn
            # geometry of the right operand is simply every defining point through its matrix)
            o2 = dict(opts)
            o2["no_arc"] = True
            items_b = po.gen_items(rng, opts=o2)
            sb = po.render(rng, items_b, o2)
            ref_b = po.reference(items_b)
            tstr, m = random_transform(rng)
            if tstr is None:
                tstr, m = "matrix(1,0.5,-0.25,2,3,4)", (1, 0.5, -0.25, 2, 3, 4)
            pb, exc = guarded(lambda: Path(sb))
            if not exc and not po.compare(list(pb), ref_b):
                exp_b = []
                for r in ref_b:
                    r = dict(r)
                    for k in ("start", "end", "c", "c1", "c2"):
                        if r.get(k) is not None:
                            r[k] = mat_apply(m, r[k])
                    exp_b.append(r)
                exp = [dict(r) for r in ref] + exp_b
                exp[len(ref)]["start"] = ref[-1]["end"]
                sa = " ".join(strs)
                info2 = repr(sa) + " PLUS Path(" + repr(sb) + ", transform=" + repr(tstr) + ")"
                counts["path+tpath"] += 1

                def h_ptp():
                    p = Path(sa)
                    o = Path(sb, transform=tstr)
                    return p + o

                p, exc = guarded(h_ptp)
                probs = [exc] if exc else po.compare(list(abs(p)), exp, tol=1e-8)
                if probs:
                    record("path+tpath", probs[0], info2)
        else:
            sh, chk, desc = shape_case(rng)
            sa = " ".join(strs)
            counts["path+shape"] += 1

            def h_ps():
                p = Path(sa)
                if rng.random() < 0.5:
                    p = p + sh
                else:
                    p += sh
                return p

            p, exc = guarded(h_ps)
            if exc:
                record("path+shape", exc, repr(sa) + " PLUS " + desc)
            else:
                head = list(p)[: len(ref)]
                probs = po.compare(head, ref)
                if probs:
                    record("path+shape(head)", probs[0], repr(sa) + " PLUS " + desc)
                tail = list(p)[len(ref) :]
                if not tail:
                    record("path+shape", "SHAPE nothing appended", repr(sa) + " PLUS " + desc)
                else:
                    st = tail[0].start
                    e = ref[-1]["end"]
                    prob = None
                    if st is None or abs(st.x - e[0]) > 1e-9 * max(1, abs(e[0])) or abs(st.y - e[1]) > 1e-9 * max(1, abs(e[1])):
                        prob = "SHAPE link: appended move starts at %r, previous end %r" % (st, e)
                    prob = prob or chk(tail)
                    if prob:
                        record("path+shape", prob, repr(sa) + " PLUS " + desc)

    if verbose:
        print("seed=%d cases=%d  counts=%s" % (seed, n, dict(counts)))
        info = collections.Counter()
        for sig, lst in buckets.items():
            if "(info)" in sig:
                info[sig.split(" | ")[0]] += len(lst)
        if info:
            print("informational (outside the STATEMENT's list) failing histories: %s" % dict(info))
        for sig, lst in sorted(buckets.items(), key=lambda kv: -len(kv[1])):
            if "(info)" in sig and not os.environ.get("SHOW_INFO"):
                continue
            lst.sort()
            print("\n== %s : %d cases" % (sig, len(lst)))
            for ln, info, prob in lst[:3]:
                print("   %s\n      %s" % (info, prob))
    return buckets, counts


if __name__ == "__main__":
    seed = int(sys.argv[1]) if len(sys.argv) > 1 else 1
    n = int(sys.argv[2]) if len(sys.argv) > 2 else 1000
    run(seed, n)
