#!/venv/bin/python
"""
Random harness for property C18 (copies and derived objects share no mutable state with their source).

    /venv/bin/python harness_C18.py SEED N [--kinds k1,k2] [--verbose]

Per case:
  1. build a random object x of a random kind (and a second operand where the derivation needs one)
  2. derive y (copy / * / abs / Path(x) / Path(subpath) / group copy / + / ~ ...)
  3. OPERANDS: the snapshot of every operand must be the same before and after the derivation
  4. VALUE: y must denote what the derivation says (checked with matrix arithmetic written here)
  5. ALIASING: pick one of (x, operand2, y), apply 1..6 random public mutations to it (every object reachable through
     public attributes / indexing is a candidate target), and require the snapshots of the others to be unchanged.
     A failing sequence is minimised by dropping steps.
The snapshot is a flat {access-path: repr(leaf)} dictionary built by walking __dict__ / list items / dict items:
no library comparison, no library repr of composite objects.
"""
import io
import math
import random
import sys
import traceback
from copy import copy, deepcopy

sys.path.insert(0, "/tmp/dz/C14_C18")
from svgelements import *  # noqa: E402,F401,F403
from svgelements import (  # noqa: E402
    PathSegment,
    Subpath,
    Shape,
    Viewbox,
    Length,
    Angle,
)

IGNORED_ATTRS = {"n"}  # cursor left behind by PathSegment.__iter__
CACHE_ATTRS = {"_length", "_lengths"}
LIB_LEAF_TYPES = (Point, Matrix, Color, Length, Viewbox)


# ---------------------------------------------------------------------------------------------------------------
# snapshot
# ---------------------------------------------------------------------------------------------------------------
def snap(o, caches=False):
    out = {}
    _snap(o, "", out, set(), caches)
    return out


def _snap(o, path, out, stack, caches):
    if isinstance(o, (int, float)) and not isinstance(o, bool) and type(o) in (int, float):
        out[path] = "num:%r" % float(o)  # 2 and 2.0 are the same value
        return
    if o is None or isinstance(o, (bool, int, float, str, complex, bytes)):
        out[path] = "%s:%r" % (type(o).__name__, o)
        return
    if id(o) in stack:
        out[path] = "<cycle>"
        return
    stack = stack | {id(o)}
    if isinstance(o, dict):
        out[path + "{}"] = "dict:%d" % len(o)
        for k in sorted(o, key=repr):
            _snap(o[k], "%s[%r]" % (path, k), out, stack, caches)
        return
    if isinstance(o, Subpath):
        out[path] = "Subpath:%r:%r" % (o._start, o._end)
        _snap(o._path, path + "._path", out, stack, caches)
        return
    if hasattr(o, "__dict__"):
        out[path] = "obj:" + type(o).__name__
        for k in sorted(o.__dict__):
            if k in IGNORED_ATTRS or (not caches and k in CACHE_ATTRS):
                continue
            _snap(o.__dict__[k], "%s.%s" % (path, k), out, stack, caches)
        if isinstance(o, (list, tuple)):
            out[path + "[]"] = "len:%d" % len(o)
            for i, v in enumerate(list.__iter__(o) if isinstance(o, list) else tuple.__iter__(o)):
                _snap(v, "%s[%d]" % (path, i), out, stack, caches)
        return
    if isinstance(o, (list, tuple)):
        out[path + "[]"] = "%s:%d" % (type(o).__name__, len(o))
        for i, v in enumerate(o):
            _snap(v, "%s[%d]" % (path, i), out, stack, caches)
        return
    out[path] = "%s:%r" % (type(o).__name__, o)


def diff(a, b, limit=4):
    keys = sorted(set(a) | set(b))
    d = [(k, a.get(k), b.get(k)) for k in keys if a.get(k) != b.get(k)]
    return d[:limit]


# ---------------------------------------------------------------------------------------------------------------
# own matrix arithmetic (a, b, c, d, e, f):  x' = a x + c y + e ; y' = b x + d y + f
# ---------------------------------------------------------------------------------------------------------------
def mt(m):
    return (m.a, m.b, m.c, m.d, m.e, m.f)


def mmul(first, second):
    """matrix of 'apply first, then second'"""
    a1, b1, c1, d1, e1, f1 = first
    a2, b2, c2, d2, e2, f2 = second
    return (
        a2 * a1 + c2 * b1,
        b2 * a1 + d2 * b1,
        a2 * c1 + c2 * d1,
        b2 * c1 + d2 * d1,
        a2 * e1 + c2 * f1 + e2,
        b2 * e1 + d2 * f1 + f2,
    )


def mapply(m, x, y):
    a, b, c, d, e, f = m
    return (a * x + c * y + e, b * x + d * y + f)


def close(u, v, tol=1e-7):
    return abs(u - v) <= tol * max(1.0, abs(u), abs(v))


def mclose(m1, m2):
    return all(close(u, v) for u, v in zip(m1, m2))


# ---------------------------------------------------------------------------------------------------------------
# factories
# ---------------------------------------------------------------------------------------------------------------
def rnum(rng):
    return rng.choice([0, 1, 2, 3, 5, 7.5, -2, -4.25, 10, 12.5])


def rpoint(rng):
    return Point(rnum(rng), rnum(rng))


SIMILARITIES = ["translate(3,4)", "scale(2)", "rotate(90)", "rotate(30)", "translate(1,2) scale(0.5)",
                "rotate(45) scale(3)", "scale(-2)"]
GENERAL = ["scale(2,3)", "skewX(20)", "matrix(1,2,3,4,5,6)", "scale(-1,1)", "rotate(20) scale(1,2)",
           "matrix(2,0,0,0.5,1,1)"]


def rmatrix_text(rng, similarity=False):
    if similarity or rng.random() < 0.5:
        return rng.choice(SIMILARITIES)
    return rng.choice(GENERAL)


def rmatrix(rng, similarity=False):
    return Matrix(rmatrix_text(rng, similarity))


def rcolor(rng):
    return Color(rng.choice(["red", "blue", "#12345680", "lime", "rgb(1,2,3)", "none", "#abc"]))


def rlength(rng):
    return Length(rng.choice(["2mm", "3px", "1in", "50%", "4", "2.5cm", "7pt"]))


def rpaint_kwargs(rng):
    kw = {}
    if rng.random() < 0.6:
        kw["fill"] = rng.choice(["red", "blue", "none", "#12345680", Color("lime")])
    if rng.random() < 0.6:
        kw["stroke"] = rng.choice(["green", "none", "#abc", Color("navy")])
    if rng.random() < 0.5:
        kw["stroke_width"] = rng.choice([2, 0.5, 3.0])
    if rng.random() < 0.5:
        kw["transform"] = rmatrix_text(rng)
    if rng.random() < 0.3:
        kw["id"] = "id%d" % rng.randint(1, 9)
    if rng.random() < 0.2:
        kw["vector-effect"] = "non-scaling-stroke"
    return kw


def rpath_d(rng):
    parts = []
    for _ in range(rng.choice([1, 1, 2, 3])):
        rel = rng.random() < 0.3
        parts.append(("m" if rel and parts else "M") + " %g,%g" % (rnum(rng), rnum(rng)))
        for _ in range(rng.choice([1, 2, 3, 4])):
            c = rng.choice("LLHVCSQTA")
            if rng.random() < 0.3:
                c = c.lower()
            n = {"L": 2, "H": 1, "V": 1, "C": 6, "S": 4, "Q": 4, "T": 2}.get(c.upper())
            if c.upper() == "A":
                parts.append("%s %g,%g %g %d,%d %g,%g" % (c, abs(rnum(rng)) + 1, abs(rnum(rng)) + 1, rng.choice([0, 30, 90]),
                                                          rng.randint(0, 1), rng.randint(0, 1), rnum(rng) + 0.5, rnum(rng) + 20))
            else:
                parts.append(c + " " + ",".join("%g" % rnum(rng) for _ in range(n)))
        if rng.random() < 0.5:
            parts.append(rng.choice("zZ"))
    return " ".join(parts)


def rsegment(rng, kind=None):
    kind = kind or rng.choice(["Move", "Line", "Close", "QuadraticBezier", "CubicBezier", "Arc"])
    if kind == "Move":
        return Move(rpoint(rng), rpoint(rng)) if rng.random() < 0.5 else Move(rpoint(rng))
    if kind == "Line":
        return Line(rpoint(rng), rpoint(rng))
    if kind == "Close":
        return Close(rpoint(rng), rpoint(rng))
    if kind == "QuadraticBezier":
        return QuadraticBezier(rpoint(rng), rpoint(rng), rpoint(rng))
    if kind == "CubicBezier":
        return CubicBezier(rpoint(rng), rpoint(rng), rpoint(rng), rpoint(rng))
    s = Point(rnum(rng), rnum(rng))
    return Arc(s, abs(rnum(rng)) + 1, abs(rnum(rng)) + 1, rng.choice([0, 30, 90]), rng.randint(0, 1), rng.randint(0, 1),
               Point(s.x + 3, s.y + 4))


def rpath(rng):
    kw = rpaint_kwargs(rng)
    r = rng.random()
    if r < 0.7:
        p = Path(rpath_d(rng), **kw)
    elif r < 0.85:
        p = Path(**kw)
        p.move(rpoint(rng))
        for _ in range(rng.randint(1, 4)):
            c = rng.random()
            if c < 0.4:
                p.line(rpoint(rng))
            elif c < 0.6:
                p.quad(rpoint(rng), rpoint(rng))
            elif c < 0.8:
                p.cubic(rpoint(rng), rpoint(rng), rpoint(rng))
            else:
                p.closed()
                p.move(rpoint(rng))
    else:
        p = Path(*[Move(rpoint(rng))] + [rsegment(rng, rng.choice(["Line", "QuadraticBezier", "CubicBezier"]))
                                        for _ in range(rng.randint(1, 3))])
        p.validate_connections()
        for k, v in kw.items():
            if k in ("fill", "stroke"):
                setattr(p, k, Color(v))
            elif k == "stroke_width":
                p.stroke_width = v
            elif k == "transform":
                p.transform = Matrix(v)
    return p


def rshape(rng, kind=None):
    kind = kind or rng.choice(["Rect", "Circle", "Ellipse", "SimpleLine", "Polyline", "Polygon", "Path"])
    kw = rpaint_kwargs(rng)
    if kind == "Path":
        return rpath(rng)
    if kind == "Rect":
        if rng.random() < 0.4:
            kw["rx"] = 1
            kw["ry"] = rng.choice([1, 2])
        return Rect(rnum(rng), rnum(rng), abs(rnum(rng)) + 1, abs(rnum(rng)) + 1, **kw)
    if kind == "Circle":
        return Circle(rnum(rng), rnum(rng), abs(rnum(rng)) + 1, **kw)
    if kind == "Ellipse":
        return Ellipse(rnum(rng), rnum(rng), abs(rnum(rng)) + 1, abs(rnum(rng)) + 2, **kw)
    if kind == "SimpleLine":
        return SimpleLine(rnum(rng), rnum(rng), rnum(rng) + 20, rnum(rng), **kw)
    pts = [rpoint(rng) for _ in range(rng.randint(2, 5))]
    if kind == "Polyline":
        return Polyline(*pts, **kw)
    return Polygon(*pts, **kw)


def rtext(rng):
    kw = rpaint_kwargs(rng)
    t = Text(rng.choice(["hi", "Hello", ""]), x=rnum(rng), y=rnum(rng), **kw)
    if rng.random() < 0.2:
        t.path = Path("M0,0 L5,5 L10,0")  # the documented slot for a text-to-path result
    return t


def rimage(rng):
    kw = rpaint_kwargs(rng)
    if rng.random() < 0.5:
        kw["viewBox"] = "0 0 10 10"
    return Image(href="a.png", x=rnum(rng), y=rnum(rng), width=10, height=5, **kw)


def rgroup(rng, depth=0):
    g = Group()
    if rng.random() < 0.5:
        g.transform = rmatrix(rng)
    if rng.random() < 0.3:
        g.id = "g%d" % rng.randint(1, 9)
    if rng.random() < 0.3:
        g.values["fill"] = "red"
    for _ in range(rng.randint(1, 3)):
        r = rng.random()
        if r < 0.2 and depth < 2:
            g.append(rgroup(rng, depth + 1))
        elif r < 0.3:
            g.append(rtext(rng))
        elif r < 0.35:
            g.append(rimage(rng))
        else:
            g.append(rshape(rng))
    return g


PARSE_DOC = """<svg xmlns="http://www.w3.org/2000/svg" xmlns:xlink="http://www.w3.org/1999/xlink" width="100" height="100" viewBox="0 0 50 50">
<g id="g1" transform="%s" fill="red" stroke="blue" stroke-width="2">
 <rect id="r" x="1" y="2" width="10" height="5" rx="1" class="k" style="fill:lime"/>
 <circle id="c" cx="5" cy="5" r="3" transform="%s"/>
 <ellipse id="e" cx="5" cy="5" rx="3" ry="2"/>
 <line id="l" x1="0" y1="0" x2="5" y2="6"/>
 <polyline id="pl" points="0,0 5,5 10,0"/>
 <polygon id="pg" points="0,0 5,5 10,0"/>
 <path id="p" d="%s" vector-effect="non-scaling-stroke"/>
 <g id="g2" transform="scale(2)"><path id="p2" d="M0,0 L5,5 z"/><text id="t" x="1" y="2">hi</text></g>
 <use id="u" xlink:href="#r" x="3" y="4"/>
 <image id="i" x="1" y="1" width="10" height="10" xlink:href="a.png"/>
</g></svg>"""


def rparsed(rng, want):
    doc = PARSE_DOC % (rmatrix_text(rng), rmatrix_text(rng), rpath_d(rng))
    svg = SVG.parse(io.StringIO(doc), reify=rng.random() < 0.3)
    if want == "SVG":
        return svg
    table = {}
    for e in svg.elements():
        if getattr(e, "id", None) and e.id not in table:
            table[e.id] = e
    return table[want]


KINDS = ["Point", "Matrix", "Color", "Length", "Move", "Line", "Close", "QuadraticBezier", "CubicBezier", "Arc", "Path",
         "Rect", "Circle", "Ellipse", "SimpleLine", "Polyline", "Polygon", "Group", "Text", "Image", "Subpath",
         "ParsedShape", "ParsedGroup", "Use", "SVG", "Viewbox"]


def make(kind, rng):
    if kind == "Point":
        return rpoint(rng)
    if kind == "Matrix":
        return rmatrix(rng)
    if kind == "Color":
        return rcolor(rng)
    if kind == "Length":
        return rlength(rng)
    if kind in ("Move", "Line", "Close", "QuadraticBezier", "CubicBezier", "Arc"):
        return rsegment(rng, kind)
    if kind == "Path":
        return rpath(rng)
    if kind in ("Rect", "Circle", "Ellipse", "SimpleLine", "Polyline", "Polygon"):
        return rshape(rng, kind)
    if kind == "Group":
        return rgroup(rng)
    if kind == "Text":
        return rtext(rng)
    if kind == "Image":
        return rimage(rng)
    if kind == "Subpath":
        p = rpath(rng)
        n = p.count_subpaths()
        if n == 0:
            p = Path("M0,0 L1,1 z M 2,2 L 3,3")
            n = 2
        return p.subpath(rng.randrange(n))
    if kind == "ParsedShape":
        return rparsed(rng, rng.choice(["r", "c", "e", "l", "pl", "pg", "p", "p2", "t", "i"]))
    if kind == "ParsedGroup":
        return rparsed(rng, rng.choice(["g1", "g2"]))
    if kind == "Use":
        return rparsed(rng, "u")
    if kind == "SVG":
        return rparsed(rng, "SVG")
    if kind == "Viewbox":
        return Viewbox("0 0 %g %g" % (abs(rnum(rng)) + 1, abs(rnum(rng)) + 1), rng.choice([None, "xMidYMid slice"]))
    raise AssertionError(kind)


# ---------------------------------------------------------------------------------------------------------------
# derivations:  name -> (applicable(x), needs second operand factory or None, function(x, op2))
# ---------------------------------------------------------------------------------------------------------------
def is_transformable(x):
    return isinstance(x, (Shape, Group, Text, Image, Use))


DERIV = {}


def deriv(name, applicable, op2=None):
    def reg(fn):
        DERIV[name] = (applicable, op2, fn)
        return fn

    return reg


@deriv("copy", lambda x: True)
def _d_copy(x, _):
    return copy(x)


@deriv("ctor", lambda x: isinstance(x, (Point, Matrix, Color, Length, Viewbox, Shape, Group, Text, Image))
       and not isinstance(x, SVG))
def _d_ctor(x, _):
    return type(x)(x)


@deriv("mul_matrix", lambda x: isinstance(x, (Point, Matrix, PathSegment, Subpath)) or is_transformable(x),
       lambda rng, x: rmatrix(rng))
def _d_mul(x, m):
    return x * m


@deriv("mul_str", lambda x: isinstance(x, (Point, PathSegment, Subpath)) or is_transformable(x),
       lambda rng, x: rmatrix_text(rng))
def _d_mulstr(x, m):
    return x * m


RMUL = "--rmul" in sys.argv  # Matrix * element raises AttributeError (Matrix.__mul__ does not return NotImplemented)


@deriv("rmul_matrix", lambda x: RMUL and (isinstance(x, PathSegment) or is_transformable(x)), lambda rng, x: rmatrix(rng))
def _d_rmul(x, m):
    return m * x


@deriv("abs", lambda x: isinstance(x, (Color, Length)) or is_transformable(x))
def _d_abs(x, _):
    return abs(x)


@deriv("invert", lambda x: isinstance(x, Matrix) and abs(x.a * x.d - x.b * x.c) > 1e-9)
def _d_inv(x, _):
    return ~x


@deriv("Path(x)", lambda x: isinstance(x, (Shape, Subpath)))
def _d_path(x, _):
    return Path(x)


@deriv("Path(segment)", lambda x: isinstance(x, PathSegment))
def _d_pathseg(x, _):
    return Path(x)


@deriv("add_path", lambda x: isinstance(x, (Shape, Subpath)), lambda rng, x: rpath(rng))
def _d_addp(x, o):
    return x + o


@deriv("add_shape", lambda x: isinstance(x, Shape), lambda rng, x: rshape(rng))
def _d_adds(x, o):
    return x + o


@deriv("add_str", lambda x: isinstance(x, (Path, Subpath, PathSegment)), lambda rng, x: "L 3,4 Q 1,1 5,5")
def _d_addstr(x, o):
    return x + o


@deriv("radd_str", lambda x: isinstance(x, (Path, Subpath)), lambda rng, x: "M 9,9 L 3,4")
def _d_raddstr(x, o):
    return o + x


@deriv("add_segment", lambda x: isinstance(x, (Path, Subpath, PathSegment)),
       lambda rng, x: rsegment(rng, rng.choice(["Line", "QuadraticBezier", "CubicBezier", "Arc", "Close", "Move"])))
def _d_addseg(x, o):
    return x + o


@deriv("radd_segment", lambda x: isinstance(x, (Path, Subpath)), lambda rng, x: rsegment(rng, "Move"))
def _d_raddseg(x, o):
    return o + x


@deriv("add_subpath", lambda x: isinstance(x, Path), lambda rng, x: make("Subpath", rng))
def _d_addsub(x, o):
    return x + o


@deriv("point_add", lambda x: isinstance(x, Point), lambda rng, x: rpoint(rng))
def _d_padd(x, o):
    return x + o


@deriv("point_sub", lambda x: isinstance(x, Point), lambda rng, x: rpoint(rng))
def _d_psub(x, o):
    return x - o


@deriv("matrix_mul", lambda x: isinstance(x, Matrix), lambda rng, x: rmatrix(rng))
def _d_mm(x, o):
    return x * o


@deriv("matrix_matmul", lambda x: isinstance(x, Matrix), lambda rng, x: rmatrix(rng))
def _d_mmat(x, o):
    return x @ o


@deriv("length_mul", lambda x: isinstance(x, Length), lambda rng, x: rng.choice([2, 0.5]))
def _d_lmul(x, o):
    return x * o


@deriv("length_add", lambda x: isinstance(x, Length) and x.units != "%", lambda rng, x: Length("3" + (x.units or "")))
def _d_ladd(x, o):
    return x + o


@deriv("length_neg", lambda x: isinstance(x, Length))
def _d_lneg(x, _):
    return -x


@deriv("subpath_of", lambda x: isinstance(x, Path) and len(x) > 0, lambda rng, x: rng.random())
def _d_subpath_path(x, r):
    n = x.count_subpaths()
    return Path(x.subpath(int(r * n)))


# ---------------------------------------------------------------------------------------------------------------
# public reachability + mutators
# ---------------------------------------------------------------------------------------------------------------
VALUES_INNER = "--values-inner" in sys.argv  # also mutate mutable objects stored INSIDE a .values dictionary


def public_nodes(root):
    """list of (access path, object) for every mutable object reachable from root through public access"""
    out = []
    seen = set()

    def walk(o, path):
        if o is None or isinstance(o, (bool, int, float, str, complex, bytes)):
            return
        if id(o) in seen:
            return
        seen.add(id(o))
        out.append((path, o))
        if isinstance(o, dict):
            if VALUES_INNER or not path.endswith(".values"):
                for k in list(o):
                    walk(o[k], "%s[%r]" % (path, k))
            return
        if isinstance(o, Subpath):
            for i in range(len(o)):
                walk(o[i], "%s[%d]" % (path, i))
            return
        if hasattr(o, "__dict__"):
            for k in sorted(o.__dict__):
                if k.startswith("_") or k in IGNORED_ATTRS:
                    continue
                walk(o.__dict__[k], "%s.%s" % (path, k))
        if isinstance(o, Path):
            for i in range(len(o)):
                walk(o[i], "%s[%d]" % (path, i))
        elif isinstance(o, (list, tuple)):
            for i, v in enumerate(list(o)):
                walk(v, "%s[%d]" % (path, i))

    walk(root, "")
    return out


def mutators_for(o):
    m = []
    if isinstance(o, Point):
        m += [("x+=1.25", lambda o, r: setattr(o, "x", o.x + 1.25)),
              ("*=Matrix", lambda o, r: o.__imul__(Matrix("scale(2,3) translate(1,1)"))),
              ("+=Point", lambda o, r: o.__iadd__(Point(1, 2))),
              ("matrix_transform", lambda o, r: o.matrix_transform(Matrix("rotate(90)"))),
              ("[1]=7", lambda o, r: o.__setitem__(1, 7.0))]
    elif isinstance(o, Matrix):
        m += [("*=Matrix", lambda o, r: o.__imul__(Matrix("scale(2,3)"))),
              ("post_translate", lambda o, r: o.post_translate(3, 4)),
              ("pre_scale", lambda o, r: o.pre_scale(2)),
              ("reset", lambda o, r: o.reset()),
              ("a=2.5", lambda o, r: setattr(o, "a", 2.5)),
              ("post_rotate", lambda o, r: o.post_rotate(0.5))]
    elif isinstance(o, Color):
        m += [("red=17", lambda o, r: setattr(o, "red", 17) if o.value is not None else setattr(o, "value", 0x11FF)),
              ("opacity=.25", lambda o, r: setattr(o, "opacity", 0.25) if o.value is not None else setattr(o, "value", 0x22FF)),
              ("value=", lambda o, r: setattr(o, "value", 0x01020380))]
    elif isinstance(o, Length):
        m += [("*=2", lambda o, r: o.__imul__(2)),
              ("amount=9", lambda o, r: setattr(o, "amount", 9.0))]
    elif isinstance(o, Viewbox):
        m += [("x=3", lambda o, r: setattr(o, "x", 3.0)),
              ("set_viewbox", lambda o, r: o.set_viewbox("1 1 7 7"))]
    elif isinstance(o, dict):
        m += [("['k']='v'", lambda o, r: o.__setitem__("k", "v")),
              ("['fill']='teal'", lambda o, r: o.__setitem__("fill", "teal"))]
    elif isinstance(o, PathSegment):
        m += [("*=Matrix", lambda o, r: o.__imul__(Matrix("scale(2,3) rotate(10)"))),
              ("end=Point", lambda o, r: setattr(o, "end", Point(9, 9))),
              ("start=Point", lambda o, r: setattr(o, "start", Point(8, 8))),
              ("reverse", lambda o, r: o.reverse()),
              ("relative=", lambda o, r: setattr(o, "relative", not o.relative))]
        if isinstance(o, CubicBezier):
            m += [("control1=Point", lambda o, r: setattr(o, "control1", Point(6, 6)))]
        if isinstance(o, QuadraticBezier):
            m += [("control=Point", lambda o, r: setattr(o, "control", Point(6, 6)))]
    elif isinstance(o, Subpath):
        m += [("*=Matrix", lambda o, r: o.__imul__(Matrix("scale(2,3)"))),
              ("+=str", lambda o, r: o.__iadd__("L 1,1")),
              ("[0]*=Matrix", lambda o, r: o[0].__imul__(Matrix("scale(3)")))]
    elif isinstance(o, (Shape, Group, Text, Image, Use)):
        m += [("*=Matrix", lambda o, r: o.__imul__(Matrix("scale(2,3) translate(5,5)"))),
              ("*=str", lambda o, r: o.__imul__("rotate(30)")),
              ("transform=Matrix", lambda o, r: setattr(o, "transform", Matrix("skewX(10)"))),
              ("reify", lambda o, r: o.reify()),
              ("id=", lambda o, r: setattr(o, "id", "zz")),
              ("set(k,v)", lambda o, r: o.set("opacity", "0.3"))]
        if not isinstance(o, (Group, Use)):
            m += [("fill=Color", lambda o, r: setattr(o, "fill", Color("teal"))),
                  ("stroke=None", lambda o, r: setattr(o, "stroke", None)),
                  ("stroke=Color", lambda o, r: setattr(o, "stroke", Color("olive"))),
                  ("stroke_width=7", lambda o, r: setattr(o, "stroke_width", 7.0))]
        if isinstance(o, Path):
            m += [("del[i]", lambda o, r: o.__delitem__(r.randrange(len(o))) if len(o) else None),
                  ("append(Line)", lambda o, r: o.append(Line(o.current_point, Point(11, 13)))),
                  ("insert(i,Line)", lambda o, r: o.insert(r.randrange(len(o) + 1), Line(Point(1, 1), Point(2, 5)))),
                  ("reverse", lambda o, r: o.reverse()),
                  ("+=str", lambda o, r: o.__iadd__("L 3,4 z")),
                  ("direct_close", lambda o, r: o.direct_close()),
                  ("[i]=Line", lambda o, r: o.__setitem__(r.randrange(len(o)), Line(Point(1, 1), Point(2, 5))) if len(o) else None),
                  ("line()", lambda o, r: o.line(Point(4, 4))),
                  ("closed()", lambda o, r: o.closed()),
                  ("validate_connections", lambda o, r: o.validate_connections()),
                  ("approximate_arcs_with_cubics", lambda o, r: o.approximate_arcs_with_cubics())]
            # approximate_bezier_with_circular_arcs is left out: Curve.as_circular_arcs can recurse without bound on
            # some Beziers (minutes of CPU, 500 MB) - unrelated to C18.
        if isinstance(o, Rect):
            m += [("x=3", lambda o, r: setattr(o, "x", 3.0)), ("width=2", lambda o, r: setattr(o, "width", 2.0)),
                  ("rx=.5", lambda o, r: setattr(o, "rx", 0.5))]
        if isinstance(o, (Circle, Ellipse)):
            m += [("cx=3", lambda o, r: setattr(o, "cx", 3.0)), ("rx=2", lambda o, r: setattr(o, "rx", 2.0))]
        if isinstance(o, SimpleLine):
            m += [("x1=3", lambda o, r: setattr(o, "x1", 3.0)), ("y2=2", lambda o, r: setattr(o, "y2", 2.0))]
        if isinstance(o, (Polyline, Polygon)):
            m += [("points=[]", lambda o, r: setattr(o, "points", [Point(0, 0), Point(1, 5), Point(6, 6)]))]
        if isinstance(o, (Group, Use)):
            m += [("append(Rect)", lambda o, r: o.append(Rect(0, 0, 2, 2))),
                  ("del[i]", lambda o, r: list.__delitem__(o, r.randrange(len(o))) if len(o) else None),
                  ("[i]=Circle", lambda o, r: list.__setitem__(o, r.randrange(len(o)), Circle(1, 1, 1)) if len(o) else None),
                  ("list.reverse", lambda o, r: list.reverse(o))]
        if isinstance(o, Text):
            m += [("text=", lambda o, r: setattr(o, "text", "changed")), ("x=4", lambda o, r: setattr(o, "x", 4.0)),
                  ("font_size=3", lambda o, r: setattr(o, "font_size", 3.0))]
        if isinstance(o, Image):
            m += [("x=4", lambda o, r: setattr(o, "x", 4.0)), ("url=", lambda o, r: setattr(o, "url", "b.png")),
                  ("viewbox=", lambda o, r: setattr(o, "viewbox", Viewbox("0 0 3 3")))]
    elif isinstance(o, list):
        m += [("append(Point)", lambda o, r: o.append(Point(21, 22))),
              ("del[i]", lambda o, r: o.__delitem__(r.randrange(len(o))) if len(o) else None),
              ("[i]=Point", lambda o, r: o.__setitem__(r.randrange(len(o)), Point(31, 32)) if len(o) else None),
              ("reverse", lambda o, r: o.reverse())]
    return m


def apply_mutations(target, case_seed, steps, skip=()):
    """apply the mutation steps (each with its own rng) - returns the log"""
    log = []
    for s in range(steps):
        if s in skip:
            continue
        r = random.Random(case_seed * 7919 + s * 104729 + 13)
        nodes = public_nodes(target)
        cands = [(p, o) for p, o in nodes if mutators_for(o)]
        if not cands:
            break
        # prefer deep nodes a little: pick uniformly over nodes
        p, o = cands[r.randrange(len(cands))]
        ms = mutators_for(o)
        name, fn = ms[r.randrange(len(ms))]
        try:
            fn(o, r)
            log.append("%s{%s} %s" % (p or "<self>", type(o).__name__, name))
        except Exception as e:  # a mutation that raises is not the subject here
            log.append("%s{%s} %s -> raised %s" % (p or "<self>", type(o).__name__, name, type(e).__name__))
    return log


# ---------------------------------------------------------------------------------------------------------------
# value checks
# ---------------------------------------------------------------------------------------------------------------
def paint_tuple(o):
    def c(v):
        return None if v is None else v.value

    return (c(getattr(o, "fill", None)), c(getattr(o, "stroke", None)))


def sample_abs(o, n=4):
    """absolute sample points of a shape: library gives untransformed segments and point(t); the transform is applied
    with the matrix arithmetic above"""
    m = mt(o.transform)
    pts = []
    for seg in Path(o).segments(transformed=False) if not isinstance(o, Path) else o.segments(transformed=False):
        if isinstance(seg, Move):
            if seg.end is not None:
                pts.append(mapply(m, seg.end.x, seg.end.y))
            continue
        if seg.start is None or seg.end is None:
            continue
        for i in range(n + 1):
            p = seg.point(i / float(n))
            pts.append(mapply(m, p.x, p.y))
    return pts


def pts_close(a, b, tol=1e-6):
    if len(a) != len(b):
        return False
    for (x1, y1), (x2, y2) in zip(a, b):
        if not (close(x1, x2, tol) and close(y1, y2, tol)):
            return False
    return True


def is_similarity(m):
    a, b, c, d, e, f = m
    return close(a, d) and close(b, -c) or (close(a, -d) and close(b, c) and False)


def has_round(o):
    if isinstance(o, (Circle, Ellipse, Arc)):
        return True
    if isinstance(o, Rect):
        return bool(o.rx) or bool(o.ry)
    if isinstance(o, Path):
        return any(isinstance(s, Arc) for s in o)
    if isinstance(o, Subpath):
        return any(isinstance(s, Arc) for s in o)
    if isinstance(o, (Group, Use)):
        return any(has_round(c) for c in o)
    return False


def value_check(name, x, op2, y, x_before):
    """returns list of problems (strings). x_before is a deepcopy of x taken before the derivation"""
    probs = []
    x0 = x_before
    if name in ("copy", "ctor"):
        if name == "copy" and type(y) is not type(x0):
            probs.append("type %s -> %s" % (type(x0).__name__, type(y).__name__))
        d = diff(snap(x0), snap(y), 6)
        d = [t for t in d if not t[0].endswith("['pathd_loaded']")]
        if d:
            probs.append("state differs: %s" % d)
        return probs
    if isinstance(x0, (Shape, Text, Image)) and name in ("mul_matrix", "mul_str", "rmul_matrix"):
        m = op2 if isinstance(op2, Matrix) else Matrix(op2)
        exp = mmul(mt(x0.transform), mt(m))
        if not mclose(mt(y.transform), exp):
            probs.append("transform %s expected %s" % (mt(y.transform), exp))
        if paint_tuple(y) != paint_tuple(x0):
            probs.append("paint %s expected %s" % (paint_tuple(y), paint_tuple(x0)))
        yy = deepcopy(y)
        yy.transform = Matrix(x0.transform)
        d = diff(snap(x0), snap(yy), 4)
        if d:
            probs.append("non-transform state differs: %s" % d)
    if isinstance(x0, Shape) and name == "abs":
        general = not is_similarity(mt(x0.transform))
        if not (has_round(x0) and general):
            try:
                a, b = sample_abs(x0), sample_abs(y)
            except Exception as e:  # noqa
                a = b = None
                probs.append("sampling raised %r" % e)
            if a is not None and not pts_close(a, b):
                probs.append("abs geometry differs: first %s vs %s" % (a[:2], b[:2]))
        if paint_tuple(y) != paint_tuple(x0):
            probs.append("paint %s expected %s" % (paint_tuple(y), paint_tuple(x0)))
    if isinstance(x0, (Shape, Subpath)) and name in ("Path(x)", "subpath_of") and name == "Path(x)":
        src = x0 if isinstance(x0, Shape) else x0._path
        if not mclose(mt(y.transform), mt(src.transform)):
            probs.append("transform %s expected %s" % (mt(y.transform), mt(src.transform)))
        if paint_tuple(y) != paint_tuple(src):
            probs.append("paint %s expected %s" % (paint_tuple(y), paint_tuple(src)))
        if y.stroke_width != src.stroke_width:
            probs.append("stroke_width %r expected %r" % (y.stroke_width, src.stroke_width))
        if isinstance(x0, Shape):
            try:
                if not pts_close(sample_abs(x0), sample_abs(y)):
                    probs.append("Path(x) geometry differs")
            except Exception as e:  # noqa
                probs.append("sampling raised %r" % e)
        else:
            segs = [snap(s) for s in x0._path._segments[x0._start:x0._end + 1]]
            if segs != [snap(s) for s in y._segments]:
                probs.append("Path(subpath) segments differ")
    if isinstance(x0, Point) and name in ("mul_matrix", "mul_str"):
        m = op2 if isinstance(op2, Matrix) else Matrix(op2)
        ex, ey = mapply(mt(m), x0.x, x0.y)
        if not (close(y.x, ex) and close(y.y, ey)):
            probs.append("point %s expected %s" % ((y.x, y.y), (ex, ey)))
    if isinstance(x0, Matrix) and name in ("mul_matrix", "matrix_mul"):
        exp = mmul(mt(x0), mt(op2))
        if not mclose(mt(y), exp):
            probs.append("matrix %s expected %s" % (mt(y), exp))
    if isinstance(x0, Matrix) and name == "invert":
        prod = mmul(mt(x0), mt(y))
        if not mclose(prod, (1, 0, 0, 1, 0, 0)):
            probs.append("x * ~x = %s" % (prod,))
    if isinstance(x0, PathSegment) and not isinstance(x0, Arc) and name in ("mul_matrix", "mul_str", "rmul_matrix"):
        m = op2 if isinstance(op2, Matrix) else Matrix(op2)
        for attr in ("start", "end", "control", "control1", "control2"):
            p = getattr(x0, attr, None)
            q = getattr(y, attr, None)
            if p is None:
                if q is not None:
                    probs.append("%s appeared" % attr)
                continue
            ex, ey = mapply(mt(m), p.x, p.y)
            if q is None or not (close(q.x, ex) and close(q.y, ey)):
                probs.append("segment %s %s expected %s" % (attr, q, (ex, ey)))
    if isinstance(x0, (Group,)) and name in ("mul_matrix", "mul_str", "rmul_matrix"):
        m = op2 if isinstance(op2, Matrix) else Matrix(op2)
        exp = mmul(mt(x0.transform), mt(m))
        if not mclose(mt(y.transform), exp):
            probs.append("group transform %s expected %s" % (mt(y.transform), exp))
        if len(y) != len(x0):
            probs.append("group length")
    return probs


# ---------------------------------------------------------------------------------------------------------------
# one case
# ---------------------------------------------------------------------------------------------------------------
def build(case_seed, kinds):
    rng = random.Random(case_seed)
    kind = rng.choice(kinds)
    x = make(kind, rng)
    names = [n for n, (app, _, _) in DERIV.items() if app(x)]
    name = rng.choice(names)
    _, op2f, fn = DERIV[name]
    op2 = op2f(rng, x) if op2f else None
    side = rng.choice(["x", "y", "y", "op2"]) if op2 is not None and not isinstance(op2, (str, int, float)) else rng.choice(["x", "y"])
    steps = rng.randint(1, 6)
    return kind, x, name, op2, fn, side, steps


def run_case(case_seed, kinds, skip=(), want_value=True):
    """returns list of (category, key, detail)"""
    kind, x, name, op2, fn, side, steps = build(case_seed, kinds)
    fails = []
    x_before_obj = deepcopy(x)
    op2_before_obj = deepcopy(op2)
    sx, so = snap(x), snap(op2)
    try:
        y = fn(x, op2)
    except Exception as e:
        tb = traceback.extract_tb(sys.exc_info()[2])[-1]
        return kind, name, [("raise", "%s %s: %s at line %s" % (kind, name, type(e).__name__, tb.lineno), str(e)[:100])]
    dx, do = diff(sx, snap(x)), diff(so, snap(op2))
    if dx:
        fails.append(("operand-modified", "%s %s: left operand" % (type(x).__name__, name), dx))
    if do:
        fails.append(("operand-modified", "%s %s: right operand %s" % (type(x).__name__, name, type(op2).__name__), do))
    if want_value and not dx and not do:
        try:
            probs = value_check(name, x, op2, y, x_before_obj)
        except Exception as e:  # noqa
            probs = ["value check raised %r" % e]
        for p in probs:
            fails.append(("value", "%s %s: %s" % (type(x).__name__, name, p.split(":")[0][:60]), p))
    # aliasing
    parties = {"x": x, "y": y}
    if op2 is not None and not isinstance(op2, (str, int, float)):
        parties["op2"] = op2
    if isinstance(y, (bool, int, float, str)) or y is None:
        return kind, name, fails
    before = {k: snap(v) for k, v in parties.items() if k != side}
    log = apply_mutations(parties[side], case_seed, steps, skip)
    for k, b in before.items():
        if k == "op2" and side == "x" or k == "x" and side == "op2":
            # independent by construction, unless x is a Subpath built over ... no: always independent
            pass
        d = diff(b, snap(parties[k]))
        if d:
            fails.append(("aliasing", "%s %s: mutate %s changes %s" % (type(x).__name__, name, side, k), (log, d)))
    return kind, name, fails


def minimise(case_seed, kinds, category, key):
    kind, x, name, op2, fn, side, steps = build(case_seed, kinds)
    skip = set()
    for s in range(steps):
        trial = skip | {s}
        _, _, fails = run_case(case_seed, kinds, trial, want_value=False)
        if any(c == category and k == key for c, k, _ in fails):
            skip = trial
    _, _, fails = run_case(case_seed, kinds, skip, want_value=False)
    return [f for f in fails if f[0] == category and f[1] == key][0]


def main(argv):
    seed = int(argv[1])
    n = int(argv[2])
    kinds = KINDS
    if "--kinds" in argv:
        kinds = argv[argv.index("--kinds") + 1].split(",")
    buckets = {}
    combos = {}
    for i in range(n):
        cs = seed * 1000003 + i
        try:
            kind, name, fails = run_case(cs, kinds)
        except Exception as e:  # harness problem
            tb = traceback.format_exc().splitlines()[-3:]
            buckets.setdefault(("harness-error", repr(e)[:80]), []).append((cs, tb))
            continue
        combos[(kind, name)] = combos.get((kind, name), 0) + 1
        for cat, key, detail in fails:
            if cat == "aliasing":
                try:
                    cat, key, detail = minimise(cs, kinds, cat, key)
                    log, d = detail
                    detail = ("via " + "; ".join(l for l in log if "raised" not in l), d)
                except Exception:  # noqa
                    pass
            buckets.setdefault((cat, key), []).append((cs, detail))
    print("seed=%d n=%d kinds=%d combos(kind x derivation)=%d" % (seed, n, len(kinds), len(combos)))
    for (cat, key), cases in sorted(buckets.items(), key=lambda kv: (kv[0][0], -len(kv[1]))):
        print("[%s] %s  -- %d cases, first case seed %d" % (cat, key, len(cases), cases[0][0]))
        if "--verbose" in argv:
            print("      detail: %s" % (str(cases[0][1])[:600]))
    return 0


def _generalise(logline):
    import re
    return re.sub(r"\[\d+\]", "[i]", logline)


if __name__ == "__main__":
    sys.exit(main(sys.argv))
