#!/venv/bin/python
"""
Random-input harness for property C12 (Length units / length arithmetic).

    /venv/bin/python harness_C12.py SEED N

Independent oracle: own table of CSS unit ratios (below), own arithmetic on
resolved values.  The library's answers are never used as expected values.
Prints a summary per failure category (k of n) and the first few examples.
"""
import sys, os, random, math, traceback, collections

HERE = os.path.dirname(os.path.abspath(__file__))
sys.path.insert(0, HERE)
from svgelements import Length, Viewbox  # noqa: E402

UNITS = ['', 'px', 'pt', 'pc', 'in', 'cm', 'mm', '%', 'em', 'ex', 'vw', 'vh', 'vmin', 'vmax']
PIX = ('', 'px', 'pt', 'pc')           # fixed ratio to the user unit
INCH = ('in', 'cm', 'mm')              # fixed ratio to each other, ppi to the user unit
# ---- the oracle's own unit table -------------------------------------------------
PIX_RATIO = {'': 1.0, 'px': 1.0, 'pt': 4.0 / 3.0, 'pc': 16.0}
IN_RATIO = {'in': 1.0, 'cm': 1.0 / 2.54, 'mm': 1.0 / 25.4}   # in inches

REL_EXACT = 1e-9
REL_CONST = 2e-6      # library writes 0.393701 / 0.0393701 (6 significant digits)


class Ctx(object):
    """Resolution context.  Fields may be None (information not supplied)."""

    def __init__(self, ppi=None, rel=None, rel_kind='num', fs=None, fh=None, vb=None, vb_kind='str'):
        self.ppi, self.rel, self.rel_kind, self.fs, self.fh, self.vb, self.vb_kind = ppi, rel, rel_kind, fs, fh, vb, vb_kind

    def kwargs(self):
        kw = {}
        if self.ppi is not None:
            kw['ppi'] = self.ppi
        if self.rel is not None:
            amount, unit = self.rel
            if self.rel_kind == 'num':
                kw['relative_length'] = amount          # unit is '' in this case
            elif self.rel_kind == 'str':
                kw['relative_length'] = '%r%s' % (amount, unit)
            else:
                kw['relative_length'] = Length(amount, unit)
        if self.fs is not None:
            kw['font_size'] = self.fs
        if self.fh is not None:
            kw['font_height'] = self.fh
        if self.vb is not None:
            x, y, w, h = self.vb
            if self.vb_kind == 'str':
                kw['viewbox'] = '%r %r %r %r' % (x, y, w, h)
            else:
                kw['viewbox'] = Viewbox('%r %r %r %r' % (x, y, w, h))
        return kw

    def show(self):
        kw = self.kwargs()
        return ', '.join('%s=%r' % (k, kw[k]) for k in sorted(kw))


def resolve(amount, unit, ctx):
    """Oracle: user-unit value of amount+unit in ctx, or None if not resolvable."""
    if unit in PIX_RATIO:
        return amount * PIX_RATIO[unit]
    if unit in IN_RATIO:
        if ctx.ppi is None:
            return None
        return amount * IN_RATIO[unit] * ctx.ppi
    if unit == '%':
        if ctx.rel is None:
            return None
        ra, ru = ctx.rel
        if ru == '%':
            return None
        base = resolve(ra, ru, ctx)
        if base is None:
            return None
        return amount / 100.0 * base
    if unit == 'em':
        return None if ctx.fs is None else amount * ctx.fs
    if unit == 'ex':
        return None if ctx.fh is None else amount * ctx.fh
    if unit in ('vw', 'vh', 'vmin', 'vmax'):
        if ctx.vb is None:
            return None
        x, y, w, h = ctx.vb
        ref = {'vw': w, 'vh': h, 'vmin': min(w, h), 'vmax': max(w, h)}[unit]
        return amount * ref / 100.0
    raise AssertionError(unit)


def family(unit):
    if unit in PIX:
        return 'P'
    if unit in INCH:
        return 'I'
    return unit


def commensurable(ua, ub):
    return family(ua) == family(ub)


def tol_for(ua, ub=None):
    us = {ua, ub} - {None}
    if us & set(INCH):
        return REL_CONST
    return REL_EXACT


def close(a, b, rel, scale=None):
    if scale is None:
        scale = max(abs(a), abs(b))
    return abs(a - b) <= rel * scale + 1e-300


# ---- generators ----------------------------------------------------------------
def gen_amount(rnd, allow_zero=True):
    k = rnd.random()
    if allow_zero and k < 0.10:
        return rnd.choice([0.0, 0.0, -0.0, 0])
    if k < 0.35:
        v = float(rnd.randint(1, 200))
    elif k < 0.55:
        v = rnd.randint(1, 400) / rnd.choice([2.0, 4.0, 8.0, 10.0, 3.0, 7.0])
    elif k < 0.80:
        v = round(rnd.uniform(0.001, 1000.0), rnd.randint(0, 6)) or 1.0
    else:
        v = rnd.uniform(1.0, 10.0) * 10.0 ** rnd.randint(-4, 5)
    if rnd.random() < 0.35:
        v = -v
    return v


def spell(rnd, amount):
    """A CSS spelling of the number that parses back to exactly `amount` (checked)."""
    cands = [repr(float(amount))]
    if float(amount) == int(amount) and abs(amount) < 1e15:
        cands.append('%d' % int(amount))
        cands.append('%d.0' % int(amount))
        cands.append('%de0' % int(amount))
    cands.append('%e' % amount)
    cands.append('%.17g' % amount)
    cands.append('%.17E' % amount)
    if amount > 0 or (amount == 0 and math.copysign(1, amount) > 0):
        cands.append('+' + repr(float(amount)))
    r = repr(float(amount))
    if r.startswith('0.'):
        cands.append(r[1:])
    if r.startswith('-0.'):
        cands.append('-' + r[2:])
    cands = [c for c in cands if float(c) == float(amount)]
    return rnd.choice(cands)


def gen_ctx(rnd, full=False):
    def maybe(v):
        return v if (full or rnd.random() < 0.6) else None
    ppi = maybe(rnd.choice([96.0, 96, 72, 72.0, 90.0, 300, 1000.0, 25.4, 254.0, round(rnd.uniform(10, 1200), 3)]))
    rel_kind = rnd.choice(['num', 'str', 'len'])
    if rel_kind == 'num':
        rel = (rnd.choice([100.0, 1000.0, 640, 480, round(rnd.uniform(1, 2000), 3)]), '')
    else:
        rel = (abs(gen_amount(rnd, allow_zero=False)), rnd.choice(['', 'px', 'pt', 'pc', 'in', 'cm', 'mm']))
    rel = maybe(rel)
    fs = maybe(rnd.choice([16.0, 12.0, 10, round(rnd.uniform(4, 80), 2)]))
    fh = maybe(rnd.choice([8.0, 7.5, 6, round(rnd.uniform(2, 40), 2)]))
    w = round(rnd.uniform(10, 2000), 2)
    h = round(rnd.uniform(10, 2000), 2)
    if rnd.random() < 0.5:
        w, h = min(w, h), max(w, h) + 1
    else:
        w, h = max(w, h) + 1, min(w, h)
    vb = maybe((rnd.choice([0.0, 0.0, 10.0, -50.0]), rnd.choice([0.0, 0.0, 20.0, -5.0]), w, h))
    return Ctx(ppi, rel, rel_kind, fs, fh, vb, rnd.choice(['str', 'obj']))


def make_length(rnd, amount, unit):
    """Return (Length, source text of the constructor call)."""
    k = rnd.random()
    if k < 0.45:
        s = spell(rnd, amount) + unit
        if rnd.random() < 0.15:
            s = ' ' + s + ' '
        return Length(s), 'Length(%r)' % s
    if k < 0.85 or unit != '':
        return Length(amount, unit), 'Length(%r, %r)' % (amount, unit)
    return Length(amount), 'Length(%r)' % (amount,)


def make_operand(rnd, amount, unit):
    """Right operand: Length, string, or (for unitless) a plain number."""
    k = rnd.random()
    if unit == '' and k < 0.3:
        v = amount if rnd.random() < 0.5 or amount != int(amount) else int(amount)
        return v, repr(v)
    if k < 0.55:
        s = spell(rnd, amount) + unit
        return s, repr(s)
    return make_length(rnd, amount, unit)


# ---- bookkeeping ---------------------------------------------------------------
class Tally(object):
    def __init__(self):
        self.n = collections.Counter()         # cases per check
        self.fail = collections.Counter()      # failures per category
        self.examples = collections.defaultdict(list)

    def case(self, check):
        self.n[check] += 1

    def bad(self, check, category, repro, expected, actual):
        key = (check, category)
        self.fail[key] += 1
        if len(self.examples[key]) < 3:
            self.examples[key].append((repro, expected, actual))

    def report(self):
        print('cases per check:')
        for c in sorted(self.n):
            nf = sum(v for (cc, _), v in self.fail.items() if cc == c)
            print('  %-12s n=%-7d failing=%d' % (c, self.n[c], nf))
        print()
        if not self.fail:
            print('NO FAILURES')
            return
        print('failure categories (k of n for that check):')
        for key in sorted(self.fail, key=lambda k: (k[0], -self.fail[k])):
            check, cat = key
            print('  [%s] %s : %d of %d' % (check, cat, self.fail[key], self.n[check]))
            for repro, exp, act in self.examples[key]:
                print('        %s' % repro)
                print('          expected: %s' % (exp,))
                print('          actual  : %s' % (act,))


def snapshot(x):
    if isinstance(x, Length):
        return ('L', x.amount, x.units)
    return ('V', x)


# ---- checks --------------------------------------------------------------------
def check_parse(rnd, T):
    T.case('parse')
    amount = gen_amount(rnd)
    unit = rnd.choice(UNITS)
    s = spell(rnd, amount) + unit
    src = 'Length(%r)' % s
    try:
        L = Length(s)
    except Exception as e:
        T.bad('parse', 'exception', src, '(%r, %r)' % (amount, unit), repr(e))
        return
    if L.units != unit or L.amount != float(amount):
        T.bad('parse', 'unit %r' % unit, src, '(%r, %r)' % (float(amount), unit), '(%r, %r)' % (L.amount, L.units))
    # copy through the constructor keeps the value (12 decimals are printed; keep away from that limit)
    if abs(amount) >= 1e-3 or amount == 0:
        L2 = Length(L)
        if L2.units != unit or not close(L2.amount, float(amount), 1e-9):
            T.bad('parse', 'Length(Length) unit %r' % unit, 'Length(%s)' % src, '(%r, %r)' % (float(amount), unit),
                  '(%r, %r)' % (L2.amount, L2.units))


def check_value(rnd, T):
    T.case('value')
    amount = gen_amount(rnd)
    unit = rnd.choice(UNITS)
    ctx = gen_ctx(rnd)
    L, src = make_length(rnd, amount, unit)
    call = '%s.value(%s)' % (src, ctx.show())
    exp = resolve(float(amount), unit, ctx)
    try:
        got = L.value(**ctx.kwargs())
    except Exception as e:
        T.bad('value', 'exception unit %r (%s)' % (unit, type(e).__name__), call, exp, repr(e))
        return
    relunit = ctx.rel[1] if ctx.rel else None
    if exp is None:
        # must stay symbolic: a Length which the oracle resolves correctly once everything is known
        if not isinstance(got, Length):
            if amount == 0 and got == 0:
                return          # 0 of anything is 0: not a guess
            T.bad('value', 'guessed unit %r' % unit, call, 'symbolic Length', repr(got))
            return
        full = gen_ctx(rnd, full=True)
        # keep the information that WAS given
        for f in ('ppi', 'fs', 'fh', 'vb'):
            if getattr(ctx, f) is not None:
                setattr(full, f, getattr(ctx, f))
        if ctx.rel is not None:
            full.rel, full.rel_kind = ctx.rel, ctx.rel_kind
        e2 = resolve(float(amount), unit, full)
        g2 = resolve(got.amount, got.units, full)
        if e2 is None or g2 is None or not close(e2, g2, tol_for(unit, relunit)):
            T.bad('value', 'symbolic result wrong unit %r' % unit, call + ' then resolved with ' + full.show(), e2, '%r -> %r' % (got, g2))
        return
    if isinstance(got, Length) or got is None:
        T.bad('value', 'not resolved unit %r rel_kind=%s' % (unit, ctx.rel_kind if unit == '%' else '-'), call, exp, repr(got))
        return
    if not close(exp, got, tol_for(unit, relunit)):
        T.bad('value', 'wrong unit %r rel=%s/%r' % (unit, ctx.rel_kind if unit == '%' else '-', relunit if unit == '%' else None), call, exp, got)


def check_binary(rnd, T, ua, ub, op):
    check = op
    T.case(check)
    a = gen_amount(rnd)
    b = gen_amount(rnd)
    if op in ('eq', 'ne', 'lt', 'le', 'gt', 'ge'):
        # make a good share of the pairs equal by construction (within a family)
        if commensurable(ua, ub) and rnd.random() < (0.5 if op in ('eq', 'ne') else 0.2) \
                and not (family(ua) == 'I' and ua != ub and 'in' in (ua, ub)):
            # dyadic base value: every conversion below is exact in binary floating point, so that
            # "equal" does not hinge on rounding (the library compares with an absolute 1e-12)
            t = rnd.randint(-4000, 4000) / 8.0
            if family(ua) == 'P':
                exact = {'pc': t, 'pt': 12.0 * t, 'px': 16.0 * t, '': 16.0 * t}
                a, b = exact[ua], exact[ub]
            elif family(ua) == 'I':
                exact = {'in': t, 'cm': t, 'mm': 10.0 * t}      # in<->metric pairs are not judged below
                a, b = exact[ua], exact[ub]
            else:
                a = b = t
    A, asrc = make_length(rnd, a, ua)
    swap = False
    if op in ('add', 'sub') and rnd.random() < 0.2:
        swap = True                      # reflected operator: (number|string) OP Length
    B, bsrc = make_operand(rnd, b, ub)
    a_f, b_f = float(a), float(b)
    sa, sb = snapshot(A), snapshot(B)
    sym = {'add': '+', 'sub': '-', 'div': '/', 'lt': '<', 'le': '<=', 'gt': '>', 'ge': '>=', 'eq': '==', 'ne': '!=',
           'iadd': '+=', 'isub': '-='}[op]
    if swap and not isinstance(B, Length):
        expr = '%s %s %s' % (bsrc, sym, asrc)
        left_au, right_au = (b_f, ub), (a_f, ua)
        f = {'add': lambda: B + A, 'sub': lambda: B - A}[op]
    else:
        swap = False
        expr = '%s %s %s' % (asrc, sym, bsrc)
        left_au, right_au = (a_f, ua), (b_f, ub)

        def f():
            if op == 'add':
                return A + B
            if op == 'sub':
                return A - B
            if op == 'div':
                return A / B
            if op == 'lt':
                return A < B
            if op == 'le':
                return A <= B
            if op == 'gt':
                return A > B
            if op == 'ge':
                return A >= B
            if op == 'eq':
                return A == B
            if op == 'ne':
                return A != B
            if op == 'iadd':
                x = Length(A.amount, A.units)
                x += B
                return x
            if op == 'isub':
                x = Length(A.amount, A.units)
                x -= B
                return x
    cat = '%r %s %r' % (left_au[1], sym, right_au[1])
    comm = commensurable(ua, ub)
    zero = (a_f == 0 or b_f == 0)
    try:
        got = f()
        exc = None
    except Exception as e:
        got, exc = None, e
    # operands must not be disturbed by a non-inplace operator
    if snapshot(A) != sa or snapshot(B) != sb:
        T.bad(check, 'operand mutated ' + cat, expr, 'operands unchanged', '%r %r' % (A, B))
    tol = tol_for(ua, ub) if ua != ub else REL_EXACT
    la, lu = left_au
    ra, ru = right_au

    if op in ('add', 'sub', 'iadd', 'isub'):
        if exc is not None:
            if isinstance(exc, ValueError) and not comm and not zero:
                return      # refuses to guess: fine
            T.bad(check, 'exception %s: %s' % (type(exc).__name__, cat), expr, 'a Length', repr(exc))
            return
        if not isinstance(got, Length):
            T.bad(check, 'result type: ' + cat, expr, 'a Length', repr(got))
            return
        for _ in range(2):
            ctx = gen_ctx(rnd, full=True)
            x, y = resolve(la, lu, ctx), resolve(ra, ru, ctx)
            e = x + y if op in ('add', 'iadd') else x - y
            g = resolve(got.amount, got.units, ctx)
            if g is None or not close(e, g, tol, scale=max(abs(x), abs(y))):
                kind = 'wrong' if (comm or zero) else 'guessed'
                T.bad(check, '%s: %s' % (kind, cat), expr + '   # resolved with ' + ctx.show(), e, '%r -> %r' % (got, g))
                return
        return

    if op == 'div':
        if ra == 0:
            return      # division by zero: anything goes
        if exc is not None:
            if isinstance(exc, ValueError) and not comm and la != 0:
                return
            T.bad(check, 'exception %s: %s' % (type(exc).__name__, cat), expr, 'a ratio', repr(exc))
            return
        if isinstance(B, (int, float)):
            # Length / plain number is the scaled Length
            if not isinstance(got, Length):
                T.bad(check, 'result type (scalar divisor): ' + cat, expr, 'a Length', repr(got))
                return
            ctx = gen_ctx(rnd, full=True)
            e = resolve(la, lu, ctx) / B
            g = resolve(got.amount, got.units, ctx)
            if not close(e, g, REL_EXACT):
                T.bad(check, 'wrong (scalar divisor): ' + cat, expr, e, repr(got))
            return
        if isinstance(got, Length):
            T.bad(check, 'result type: ' + cat, expr, 'a number', repr(got))
            return
        for _ in range(2):
            ctx = gen_ctx(rnd, full=True)
            x, y = resolve(la, lu, ctx), resolve(ra, ru, ctx)
            e = x / y
            if not close(e, got, tol):
                kind = 'wrong' if (comm or la == 0) else 'guessed'
                T.bad(check, '%s: %s' % (kind, cat), expr + '   # resolved with ' + ctx.show(), e, got)
                return
        return

    if op in ('lt', 'le', 'gt', 'ge'):
        if exc is not None:
            if isinstance(exc, ValueError) and not comm and not zero:
                return
            T.bad(check, 'exception %s: %s' % (type(exc).__name__, cat), expr, 'a bool', repr(exc))
            return
        ctx = gen_ctx(rnd, full=True)
        x, y = resolve(la, lu, ctx), resolve(ra, ru, ctx)
        if not comm and not zero:
            T.bad(check, 'guessed: ' + cat, expr, 'ValueError (not comparable without context)', got)
            return
        if close(x, y, 10 * tol) and x != y:
            return      # too close to call with the library's constants
        e = {'lt': x < y, 'le': x <= y, 'gt': x > y, 'ge': x >= y}[op]
        if bool(got) != e:
            T.bad(check, 'wrong: ' + cat, expr + '   # %r vs %r' % (x, y), e, got)
        return

    if op in ('eq', 'ne'):
        if exc is not None:
            T.bad(check, 'exception %s: %s' % (type(exc).__name__, cat), expr, 'a bool', repr(exc))
            return
        ctx = gen_ctx(rnd, full=True)
        x, y = resolve(la, lu, ctx), resolve(ra, ru, ctx)
        if comm:
            if ua != ub and family(ua) == 'I' and {ua, ub} != {'cm', 'mm'} and close(x, y, 1e-4) :
                return  # in<->metric equality is below the resolution of the library's constants: not judged
            if x == y or (close(x, y, 1e-13) and abs(x - y) < 1e-13):
                e = True
            elif close(x, y, 1e-6):
                return  # neither clearly equal nor clearly different
            else:
                e = False
        else:
            if la == 0 and ra == 0:
                e = True       # 0 of anything is 0
                cat = 'zero vs zero: ' + cat
            else:
                # not decidable without context; the only acceptable guess-free answer is "not equal"
                e = False
        if op == 'ne':
            e = not e
        if bool(got) != e:
            T.bad(check, 'wrong: ' + cat, expr + '   # %r vs %r' % (x, y), e, got)
        return


def check_scalar(rnd, T):
    """Length * k, k * Length, Length / k, -Length, abs(Length)."""
    T.case('scalar')
    a = gen_amount(rnd)
    u = rnd.choice(UNITS)
    k = rnd.choice([2, 3, 0.5, -1, 10, 0.1, gen_amount(rnd, allow_zero=False)])
    A, asrc = make_length(rnd, a, u)
    ctx = gen_ctx(rnd, full=True)
    x = resolve(float(a), u, ctx)
    for name, fn, e in (
        ('%s * %r' % (asrc, k), lambda: A * k, x * k),
        ('%r * %s' % (k, asrc), lambda: k * A, x * k),
        ('%s / %r' % (asrc, k), lambda: A / k, x / k),
        ('-%s' % asrc, lambda: -A, -x),
        ('abs(%s)' % asrc, lambda: abs(A), abs(x)),
    ):
        try:
            got = fn()
        except Exception as ex:
            T.bad('scalar', 'exception %s unit %r' % (type(ex).__name__, u), name, e, repr(ex))
            continue
        if isinstance(got, Length):
            g = resolve(got.amount, got.units, ctx)
        else:
            g = got if (a == 0 or k == 0) else None
        if g is None or not close(e, g, REL_EXACT):
            T.bad('scalar', 'wrong %s unit %r' % (name.replace(asrc, 'L').split()[0:2], u), name, e, repr(got))


def check_convert(rnd, T):
    T.case('convert')
    a = gen_amount(rnd)
    u = rnd.choice(UNITS)
    which = rnd.choice(['to_mm', 'to_cm', 'to_inch'])
    target = {'to_mm': 'mm', 'to_cm': 'cm', 'to_inch': 'in'}[which]
    ctx = gen_ctx(rnd)
    if rnd.random() < 0.5 and ctx.ppi is None:
        ctx.ppi = 96.0
    A, asrc = make_length(rnd, a, u)
    call = '%s.%s(%s)' % (asrc, which, ctx.show())
    eff = Ctx(ctx.ppi if ctx.ppi is not None else 96.0, ctx.rel, ctx.rel_kind, ctx.fs, ctx.fh, ctx.vb, ctx.vb_kind)  # documented default ppi=96
    exp = resolve(float(a), u, eff)
    try:
        got = getattr(A, which)(**ctx.kwargs())
    except Exception as e:
        if exp is None:
            return          # cannot be converted with the information given: refusing is fine
        T.bad('convert', 'exception %s %r->%s' % (type(e).__name__, u, target), call, exp, repr(e))
        return
    if exp is None:
        if a == 0:
            return
        # must remain symbolic in the ORIGINAL sense: same meaning as the input
        if isinstance(got, Length) and got.units == u and got.amount == float(a):
            return
        T.bad('convert', 'guessed %r->%s' % (u, target), call, 'symbolic / refusal', repr(got))
        return
    if not isinstance(got, Length) or got.units != target:
        T.bad('convert', 'result unit %r->%s' % (u, target), call, 'Length in ' + target, repr(got))
        return
    g = resolve(got.amount, got.units, eff)
    # the result is printed with 12 decimals; allow for that
    if not (close(exp, g, REL_CONST) or abs(exp - g) <= 1e-9 * eff.ppi):
        T.bad('convert', 'wrong %r->%s' % (u, target), call, exp, '%r -> %r' % (got, g))


def main():
    seed = int(sys.argv[1]) if len(sys.argv) > 1 else 0
    n = int(sys.argv[2]) if len(sys.argv) > 2 else 20000
    rnd = random.Random(seed)
    T = Tally()
    pairs = [(a, b) for a in UNITS for b in UNITS]
    ops = ['add', 'sub', 'iadd', 'isub', 'div', 'lt', 'le', 'gt', 'ge', 'eq', 'ne']
    i = 0
    while i < n:
        # one sweep: every ordered unit pair x every operator (exhaustive over cells), then the unary checks
        for (ua, ub) in pairs:
            op = rnd.choice(ops)
            try:
                check_binary(rnd, T, ua, ub, op)
            except Exception:
                T.bad(op, 'HARNESS ERROR', traceback.format_exc(), '', '')
            i += 1
            if i % 4 == 0:
                for chk in (check_parse, check_value, check_scalar, check_convert):
                    try:
                        chk(rnd, T)
                    except Exception:
                        T.bad(chk.__name__, 'HARNESS ERROR', traceback.format_exc(), '', '')
                    i += 1
            if i >= n:
                break
    print('seed=%d cases=%d' % (seed, sum(T.n.values())))
    T.report()


if __name__ == '__main__':
    main()
