import sys, io
sys.path.insert(0, '/tmp/dz/C04_C11')
from svgelements import *

def six(m): return [m[i] for i in range(6)]
def show(label, f):
    try:
        print(label, '->', f())
    except Exception as ex:
        print(label, '-> raises', repr(ex))

print("# C04-1 one-argument skew")
show("Matrix('skew(45)')", lambda: six(Matrix('skew(45)')))
show("Matrix('skew(45, 0)')", lambda: six(Matrix('skew(45, 0)')))
print("# C04-2 deferred lengths")
show("Matrix('translate(10) translate(1in)', ppi=96)", lambda: six(Matrix('translate(10) translate(1in)', ppi=96)))
show("Matrix('translate(1in) translate(1em)', ppi=96, font_size=12)", lambda: six(Matrix('translate(1in) translate(1em)', ppi=96, font_size=12)))
show("Matrix('rotate(90) translate(10%, 20)', width=100, height=200)", lambda: six(Matrix('rotate(90) translate(10%, 20)', width=100, height=200)))
show("Matrix('rotate(90) translate(10%, 20%)', width=100, height=200)", lambda: six(Matrix('rotate(90) translate(10%, 20%)', width=100, height=200)))
show("Matrix('translate(10%, 20%)', width=100, height=200) * Matrix('rotate(90)')", lambda: six(Matrix('translate(10%, 20%)', width=100, height=200) * Matrix('rotate(90)')))
print("# C04-3 ex")
show("Matrix('translate(2ex)', font_height=7)", lambda: six(Matrix('translate(2ex)', font_height=7)))
show("Length('2ex').value(font_height=7)", lambda: Length('2ex').value(font_height=7))
print("# C04-4 / C11-4 cm mm")
show("Matrix('translate(254mm, 2.54cm)', ppi=96)", lambda: six(Matrix('translate(254mm, 2.54cm)', ppi=96)))
doc = '<svg xmlns="http://www.w3.org/2000/svg" width="254mm" height="25.4cm" viewBox="0 0 960 960"><rect id="r" width="1" height="1"/></svg>'
show("SVG.parse(254mm x 25.4cm, viewBox 0 0 960 960) rect.transform", lambda: six(SVG.parse(io.StringIO(doc), reify=False, ppi=96).get_element_by_id('r').transform))
print("# C04-5 1.e2")
show("Matrix('translate(1.e2)')", lambda: six(Matrix('translate(1.e2)')))
show("Matrix('translate(1.e2, 7)')", lambda: six(Matrix('translate(1.e2, 7)')))
show("Matrix('scale(2.e0)')", lambda: six(Matrix('scale(2.e0)')))
print("# C11-1 whitespace in preserveAspectRatio")
for par in ['xMinYMin slice', 'xMinYMin  slice', ' xMinYMin slice', 'xMaxYMax ', 'xMaxYMax', 'xMinYMin\tslice']:
    show("viewbox_transform(0,0,300,100, 0,0,100,100, %r)" % par, lambda: repr(Viewbox.viewbox_transform(0, 0, 300, 100, 0, 0, 100, 100, par)))
doc2 = '<svg xmlns="http://www.w3.org/2000/svg" width="300" height="100" viewBox="0 0 100 100" preserveAspectRatio=" xMaxYMax "><rect id="r" width="1" height="1"/></svg>'
show("SVG.parse(preserveAspectRatio=' xMaxYMax ') rect.transform", lambda: six(SVG.parse(io.StringIO(doc2), reify=False).get_element_by_id('r').transform))
print("# C11-2 12 decimals")
show("viewbox_transform(0,0,0.001,0.001, 0,0,700,700, None)", lambda: Viewbox.viewbox_transform(0, 0, 0.001, 0.001, 0, 0, 700, 700, None))
show("exact scale", lambda: 0.001 / 700)
show("viewbox_transform(0,0,1,1, 0,0,3e6,3e6, None)", lambda: Viewbox.viewbox_transform(0, 0, 1, 1, 0, 0, 3e6, 3e6, None))
m = Matrix(Viewbox.viewbox_transform(0, 0, 1, 1, 0, 0, 3e6, 3e6, 'xMinYMin'))
show("image of viewBox corner (3e6,3e6), should be (1,1)", lambda: Point(3e6, 3e6) * m)
print("# C11-3 incomplete viewBox")
ns = 'xmlns="http://www.w3.org/2000/svg"'
for vb in ['', ' viewBox="0 0 10"', ' viewBox=""']:
    d = '<svg %s width="100" height="100"><svg x="7" y="-5" width="10" height="10"%s><rect id="r" width="50%%" height="1"/></svg></svg>' % (ns, vb)
    def f():
        r = SVG.parse(io.StringIO(d), reify=False).get_element_by_id('r')
        return six(r.transform), r.width
    show("nested svg x=7 y=-5%s: rect transform, width" % vb, f)
for vb in ['', ' viewBox="0 0 100"']:
    d = '<svg %s width="200" height="100"%s><rect id="r" width="50%%" height="50%%"/></svg>' % (ns, vb)
    def f():
        r = SVG.parse(io.StringIO(d), reify=False).get_element_by_id('r')
        return r.width, r.height
    show("root svg 200x100%s: rect 50%% x 50%%" % vb, f)
