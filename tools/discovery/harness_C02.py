#!/venv/bin/python
"""
Random-input harness for property C02 (affine maps commute with geometry).

usage: /venv/bin/python harness_C02.py SEED N [-v]

Oracle: the affine image is computed here with plain float arithmetic on
(a,b,c,d,e,f) tuples, Bezier points by the Bernstein formula on the control
points, never by svgelements.Matrix / Point multiplication.  The library is
only asked for X.point(t) of the ORIGINAL object and for the result object.

Inputs stay inside the domain the property quantifies over: invertible
matrices with condition number <= 400 (either determinant sign), coordinates
exactly 0 or of magnitude 1e-3..1e5.

Known-and-excluded behaviour (see task statement): arcs and round shapes are
only exercised under similarity transforms (and, for shapes, axis-aligned
anisotropic scales), paths never begin with a curve/close command.
"""
import sys
import math
import random
import traceback
import re
from collections import Counter, defaultdict

sys.path.insert(0, "/tmp/dz/C02_C06")
# numpy/scipy are not installed in /venv; the library retries `import numpy` inside every point() call and the failing
# import costs ~100 us of sys.path scanning each time.  Registering None makes the very same ImportError immediate.
for _m in ("numpy", "scipy", "scipy.integrate", "scipy.special"):
    try:
        __import__(_m)
    except ImportError:
        sys.modules[_m] = None
from svgelements import *  # noqa
from copy import copy

tau = 2 * math.pi
VERBOSE = "-v" in sys.argv
RMUL = Counter()

# ----------------------------------------------------------------------------
# plain matrices: tuple (a,b,c,d,e,f), x' = a x + c y + e ; y' = b x + d y + f
# ----------------------------------------------------------------------------
I6 = (1.0, 0.0, 0.0, 1.0, 0.0, 0.0)


def mapply(m, p):
    a, b, c, d, e, f = m
    x, y = p
    return (a * x + c * y + e, b * x + d * y + f)


def mcompose(m1, m2):
    """first m1, then m2"""
    a1, b1, c1, d1, e1, f1 = m1
    a2, b2, c2, d2, e2, f2 = m2
    return (
        a2 * a1 + c2 * b1,
        b2 * a1 + d2 * b1,
        a2 * c1 + c2 * d1,
        b2 * c1 + d2 * d1,
        a2 * e1 + c2 * f1 + e2,
        b2 * e1 + d2 * f1 + f2,
    )


def mdet(m):
    return m[0] * m[3] - m[2] * m[1]


def mcond(m):
    a, b, c, d = m[0], m[1], m[2], m[3]
    s = a * a + b * b + c * c + d * d
    det = abs(a * d - b * c)
    if det == 0:
        return float("inf")
    # singular values from frobenius norm and det
    disc = max(s * s - 4 * det * det, 0.0)
    s1 = math.sqrt((s + math.sqrt(disc)) / 2)
    s2 = det / s1
    return s1 / s2


def mnorm(m):
    return math.sqrt(m[0] ** 2 + m[1] ** 2 + m[2] ** 2 + m[3] ** 2)


def m_rot(t):
    return (math.cos(t), math.sin(t), -math.sin(t), math.cos(t), 0.0, 0.0)


def m_scale(sx, sy):
    return (sx, 0.0, 0.0, sy, 0.0, 0.0)


def m_skewx(t):
    return (1.0, 0.0, math.tan(t), 1.0, 0.0, 0.0)


def m_skewy(t):
    return (1.0, math.tan(t), 0.0, 1.0, 0.0, 0.0)


def m_trans(x, y):
    return (1.0, 0.0, 0.0, 1.0, x, y)


def is_similarity(m, eps=1e-12):
    a, b, c, d = m[:4]
    det = a * d - b * c
    if det > 0:
        return abs(a - d) <= eps * (abs(a) + abs(b)) and abs(b + c) <= eps * (abs(a) + abs(b))
    else:
        return abs(a + d) <= eps * (abs(a) + abs(b)) and abs(b - c) <= eps * (abs(a) + abs(b))


def is_axis_aligned(m):
    return m[1] == 0 and m[2] == 0


# ----------------------------------------------------------------------------
# generators
# ----------------------------------------------------------------------------
def coord(rng, nice=False):
    if nice:
        return float(rng.choice([0, 0, 1, 2, 3, 5, 10, -1, -2, -7, 20, 100]))
    r = rng.random()
    if r < 0.12:
        return 0.0
    if r < 0.3:
        return float(rng.randint(-20, 20))
    mag = 10 ** rng.uniform(-3, 5)
    return mag if rng.random() < 0.5 else -mag


def pt(rng, nice=False):
    return (coord(rng, nice), coord(rng, nice))


SPECIAL = [
    ("identity", I6),
    ("swap", (0.0, 1.0, 1.0, 0.0, 0.0, 0.0)),  # reflection in y=x
    ("antiswap", (0.0, -1.0, -1.0, 0.0, 0.0, 0.0)),  # reflection in y=-x
    ("rot90", (0.0, 1.0, -1.0, 0.0, 0.0, 0.0)),
    ("rot270", (0.0, -1.0, 1.0, 0.0, 0.0, 0.0)),
    ("rot180", (-1.0, 0.0, 0.0, -1.0, 0.0, 0.0)),
    ("flipx", (-1.0, 0.0, 0.0, 1.0, 0.0, 0.0)),
    ("flipy", (1.0, 0.0, 0.0, -1.0, 0.0, 0.0)),
    ("swap2", (0.0, 2.0, 2.0, 0.0, 3.0, -4.0)),
    ("rot180s", (-2.5, 0.0, 0.0, -2.5, 7.0, 1.0)),
    ("negscale", (-2.0, 0.0, 0.0, -0.5, 0.0, 0.0)),
]


def gen_similarity(rng):
    r = rng.random()
    if r < 0.25:
        name, m = rng.choice(SPECIAL)
        if not is_similarity(m):
            m = I6
        return m
    theta = rng.choice([0.0, rng.uniform(-tau, tau), rng.uniform(-tau, tau), math.pi / 2, math.pi, -math.pi / 2, math.radians(45)])
    s = rng.choice([1.0, 10 ** rng.uniform(-1.3, 1.3)])
    m = mcompose(m_rot(theta), m_scale(s, s))
    if rng.random() < 0.4:
        m = mcompose(m_scale(1.0, -1.0), m)
    if rng.random() < 0.6:
        m = mcompose(m, m_trans(coord(rng), coord(rng)))
    return m


def gen_axis(rng):
    sx = 10 ** rng.uniform(-1.3, 1.3) * rng.choice([1, 1, -1])
    sy = 10 ** rng.uniform(-1.3, 1.3) * rng.choice([1, 1, -1])
    if rng.random() < 0.3:
        sy = sx * rng.choice([1, -1])
    m = m_scale(sx, sy)
    if mcond(m) > 400:
        return gen_axis(rng)
    if rng.random() < 0.6:
        m = mcompose(m, m_trans(coord(rng), coord(rng)))
    return m


def gen_general(rng):
    while True:
        m = I6
        for _ in range(rng.randint(1, 4)):
            k = rng.randrange(5)
            if k == 0:
                e = m_rot(rng.uniform(-tau, tau))
            elif k == 1:
                e = m_scale(
                    10 ** rng.uniform(-1.3, 1.3) * rng.choice([1, 1, -1]),
                    10 ** rng.uniform(-1.3, 1.3) * rng.choice([1, 1, -1]),
                )
            elif k == 2:
                e = m_skewx(rng.uniform(-1.4, 1.4))
            elif k == 3:
                e = m_skewy(rng.uniform(-1.4, 1.4))
            else:
                e = m_trans(coord(rng), coord(rng))
            m = mcompose(m, e)
        if rng.random() < 0.1:
            m = tuple(rng.uniform(-3, 3) for _ in range(4)) + (coord(rng), coord(rng))
        if mcond(m) <= 400 and 1e-3 < abs(mdet(m)) < 1e3:
            return m


def gen_matrix(rng, kind=None):
    if kind is None:
        kind = rng.choice(["sim", "axis", "gen", "gen", "special"])
    if kind == "sim":
        return gen_similarity(rng)
    if kind == "axis":
        return gen_axis(rng)
    if kind == "special":
        return rng.choice(SPECIAL)[1]
    return gen_general(rng)


def gen_spelled(rng):
    """a transform list in SVG/CSS text form together with its oracle matrix (rightmost item applies first)"""
    while True:
        items = []
        for _ in range(rng.randint(1, 3)):
            k = rng.randrange(9)
            num = lambda v: rng.choice(["%r", "%r", "%.17e"]) % v
            if k == 0:
                deg = rng.choice([0.0, 90.0, -90.0, 180.0, 45.0, 30.0, rng.uniform(-720, 720)])
                unit = rng.choice(["", "", "deg", "rad", "turn", "grad"])
                val = {"": deg, "deg": deg, "rad": math.radians(deg), "turn": deg / 360.0, "grad": deg / 0.9}[unit]
                items.append(("rotate(%s%s)" % (num(val), unit), m_rot(math.radians(deg))))
            elif k == 1:
                deg = rng.choice([90.0, 180.0, 45.0, rng.uniform(-360, 360)])
                cx, cy = coord(rng), coord(rng)
                mm = mcompose(mcompose(m_trans(-cx, -cy), m_rot(math.radians(deg))), m_trans(cx, cy))
                sep = rng.choice([" ", ",", ", "])
                items.append(("rotate(%s%s%s%s%s)" % (num(deg), sep, num(cx), sep, num(cy)), mm))
            elif k == 2:
                sc = 10 ** rng.uniform(-1.3, 1.3) * rng.choice([1, 1, -1])
                items.append(("scale(%s)" % num(sc), m_scale(sc, sc)))
            elif k == 3:
                sx = 10 ** rng.uniform(-1, 1) * rng.choice([1, 1, -1])
                sy = 10 ** rng.uniform(-1, 1) * rng.choice([1, 1, -1])
                items.append(("scale(%s%s%s)" % (num(sx), rng.choice([" ", ","]), num(sy)), m_scale(sx, sy)))
            elif k == 4:
                x = coord(rng)
                items.append((rng.choice(["translate(%s)", "translateX(%s)"]) % num(x), m_trans(x, 0.0)))
            elif k == 5:
                x, y = coord(rng), coord(rng)
                items.append(("translate(%s%s%s)" % (num(x), rng.choice([" ", ",", " , "]), num(y)), m_trans(x, y)))
            elif k == 6:
                deg = rng.uniform(-80, 80)
                items.append(("skewX(%s)" % num(deg), m_skewx(math.radians(deg))))
            elif k == 7:
                deg = rng.uniform(-80, 80)
                items.append(("skewY(%s)" % num(deg), m_skewy(math.radians(deg))))
            else:
                sx = rng.choice([1, -1]) * 10 ** rng.uniform(-1, 1)
                items.append((rng.choice(["scaleX(%s)", "scaleY(%s)"]), None, sx))
                name, _, v = items.pop()
                items.append((name % num(v), m_scale(v, 1.0) if "X" in name else m_scale(1.0, v)))
        total = I6
        for _, mm in reversed(items):
            total = mcompose(total, mm)
        if mcond(total) <= 400 and 1e-3 < abs(mdet(total)) < 1e3:
            return rng.choice([" ", "", ", "]).join(t for t, _ in items), total


def lib_matrix(rng, m):
    """the same matrix in one of the public spellings"""
    r = rng.random()
    if r < 0.6:
        return Matrix(*m)
    if r < 0.8:
        return "matrix(%r %r %r %r %r %r)" % m
    if r < 0.9:
        return "matrix(%r,%r,%r,%r,%r,%r)" % m
    return Matrix(list(m))


# ----------------------------------------------------------------------------
# oracle side description of segments: ("M"/"L"/"Z"/"Q"/"C", [points]) or ("A", lib arc)
# ----------------------------------------------------------------------------
def bez(points, t):
    n = len(points)
    if n == 1:
        return points[0]
    if n == 2:
        (x0, y0), (x1, y1) = points
        return (x0 + (x1 - x0) * t, y0 + (y1 - y0) * t)
    if n == 3:
        (x0, y0), (x1, y1), (x2, y2) = points
        u = 1 - t
        return (u * u * x0 + 2 * u * t * x1 + t * t * x2, u * u * y0 + 2 * u * t * y1 + t * t * y2)
    (x0, y0), (x1, y1), (x2, y2), (x3, y3) = points
    u = 1 - t
    return (
        u * u * u * x0 + 3 * u * u * t * x1 + 3 * u * t * t * x2 + t * t * t * x3,
        u * u * u * y0 + 3 * u * u * t * y1 + 3 * u * t * t * y2 + t * t * t * y3,
    )


def seg_defpoints(seg):
    """defining points of a library segment as tuples (None kept)"""
    if isinstance(seg, Move):
        ps = [seg.start, seg.end]
    elif isinstance(seg, (Line, Close)):
        ps = [seg.start, seg.end]
    elif isinstance(seg, QuadraticBezier):
        ps = [seg.start, seg.control, seg.end]
    elif isinstance(seg, CubicBezier):
        ps = [seg.start, seg.control1, seg.control2, seg.end]
    elif isinstance(seg, Arc):
        ps = [seg.start, seg.end, seg.center]
    else:
        raise TypeError(seg)
    return [None if p is None else (float(p.x), float(p.y)) for p in ps]


def ts_for(rng):
    return [0.0, 1.0, 0.5, 0.25, 1e-9, 1 - 1e-9, rng.random(), rng.random()]


def seg_samples(seg, ts):
    out = []
    for t in ts:
        p = seg.point(t)
        out.append((float(p.x), float(p.y)))
    return out


class Failure(Exception):
    def __init__(self, kind, detail):
        Exception.__init__(self, kind + ": " + detail)
        self.kind = kind
        self.detail = detail


def close_enough(p, q, tol):
    return abs(p[0] - q[0]) <= tol and abs(p[1] - q[1]) <= tol


def image_scale(m, pts):
    s = 0.0
    for p in pts:
        if p is None:
            continue
        q = mapply(m, p)
        s = max(s, abs(q[0]), abs(q[1]))
    return s


def arc_conditioning(arc, scale):
    """allowance for the (inherent) loss of accuracy when the eccentric anomaly of the end points has to be
    recovered from rounded coordinates: angle error ~ ulp(scale)/min radius, magnified by the aspect ratio"""
    try:
        rx, ry = arc.rx, arc.ry
        lo, hi = min(rx, ry), max(rx, ry)
        if lo == 0:
            return 0.0
        return 64 * (2.3e-16 * scale / lo) * (hi / lo) * hi
    except Exception:
        return 0.0


def check_segment_image(kind, orig_def, orig_samples, orig_type, new_seg, m, ts, ctx):
    """new_seg must be the image of the original under m"""
    if type(new_seg) is not orig_type:
        raise Failure(kind + "/type", "%s became %s %s" % (orig_type.__name__, type(new_seg).__name__, ctx))
    new_def = seg_defpoints(new_seg)
    scale = image_scale(m, [p for p in orig_def if p is not None] + orig_samples)
    tol = 1e-9 * scale + 1e-12
    for i, (o, n) in enumerate(zip(orig_def, new_def)):
        if o is None:
            if n is not None:
                raise Failure(kind + "/defpoint-none", "defpoint %d None became %r %s" % (i, n, ctx))
            continue
        e = mapply(m, o)
        if n is None or not close_enough(e, n, tol):
            raise Failure(
                kind + "/defpoint",
                "%s defpoint %d expected %r got %r (tol %g) %s" % (orig_type.__name__, i, e, n, tol, ctx),
            )
    if orig_def[0] is None and not isinstance(new_seg, Move):
        return
    new_samples = seg_samples(new_seg, ts)
    ptol = tol
    if orig_type is Arc:
        ptol = 10 * tol + arc_conditioning(new_seg, scale)
    for t, o, n in zip(ts, orig_samples, new_samples):
        e = mapply(m, o)
        if not close_enough(e, n, ptol):
            raise Failure(
                kind + "/point",
                "%s point(%r) expected %r got %r (tol %g) %s" % (orig_type.__name__, t, e, n, tol, ctx),
            )
    # independent Bernstein evaluation for the polynomial kinds
    if orig_type in (Line, Close, QuadraticBezier, CubicBezier):
        img = [mapply(m, p) for p in orig_def]
        for t, n in zip(ts, new_samples):
            e = bez(img, t)
            if not close_enough(e, n, tol):
                raise Failure(
                    kind + "/bernstein",
                    "%s point(%r) expected %r got %r (tol %g) %s" % (orig_type.__name__, t, e, n, tol, ctx),
                )


# ---------------------------------------------------------------------------
# segment generation
# ---------------------------------------------------------------------------
def gen_segment(rng, allow_arc):
    nice = rng.random() < 0.25
    kinds = ["move", "move2", "line", "close", "quad", "cubic"]
    if allow_arc:
        kinds += ["arc", "arc", "arc"]
    k = rng.choice(kinds)
    a, b, c, d = pt(rng, nice), pt(rng, nice), pt(rng, nice), pt(rng, nice)
    deg = rng.random()
    if k == "move":
        return Move(a)
    if k == "move2":
        return Move(a, b)
    if k == "line":
        if deg < 0.15:
            b = a
        return Line(a, b)
    if k == "close":
        if deg < 0.15:
            b = a
        return Close(a, b)
    if k == "quad":
        if deg < 0.1:
            b = a
        elif deg < 0.2:
            b = c
        elif deg < 0.25:
            b = c = a
        elif deg < 0.3:
            c = a
        elif deg < 0.4:
            b = ((a[0] + c[0]) / 2, (a[1] + c[1]) / 2)
        return QuadraticBezier(a, b, c)
    if k == "cubic":
        if deg < 0.1:
            b = a
        elif deg < 0.2:
            c = d
        elif deg < 0.25:
            b = c
        elif deg < 0.3:
            b = c = d = a
        elif deg < 0.35:
            d = a
        elif deg < 0.4:
            b, c = c, b
        return CubicBezier(a, b, c, d)
    return gen_arc(rng, nice)


def gen_arc(rng, nice=False):
    """arcs of all kinds, constructed through several public spellings"""
    start = pt(rng, nice)
    how = rng.random()
    scale = 10 ** rng.uniform(-2, 4)
    if how < 0.45:
        # SVG parameterisation
        rx = scale * rng.uniform(0.2, 2)
        ry = rx if rng.random() < 0.4 else scale * rng.uniform(0.2, 2)
        rot = rng.choice([0, 0, 90, 45, rng.uniform(-360, 360)])
        end = (start[0] + scale * rng.uniform(-2, 2), start[1] + scale * rng.uniform(-2, 2))
        d = rng.random()
        if d < 0.1:
            # exactly a half turn on a circle
            ry = rx
            end = (start[0] + 2 * rx, start[1])
        elif d < 0.15:
            end = start  # omitted segment
        elif d < 0.2:
            rx = 0.0  # straight line
        large = rng.randint(0, 1)
        sweep = rng.randint(0, 1)
        if rng.random() < 0.5:
            return Arc(start, rx, ry, rot, large, sweep, end)
        return Arc(start=start, radius=complex(rx, ry), rotation=rot, arc_flag=large, sweep_flag=sweep, end=end)
    # centre parameterisation
    center = (start[0] + scale * rng.uniform(-1, 1), start[1] + scale * rng.uniform(-1, 1))
    if center == start:
        center = (start[0] + scale, start[1])
    r = math.hypot(start[0] - center[0], start[1] - center[1])
    sweep = rng.choice([tau / 2, -tau / 2, tau, -tau, tau / 4, -tau / 4, rng.uniform(-tau, tau), rng.uniform(-tau, tau), 1e-3])
    a0 = math.atan2(start[1] - center[1], start[0] - center[0])
    end = (center[0] + r * math.cos(a0 + sweep), center[1] + r * math.sin(a0 + sweep))
    if abs(abs(sweep) - tau) < 1e-15:
        end = start
    if how < 0.7:
        return Arc(
            start,
            end,
            center,
            (center[0] + r, center[1]),
            (center[0], center[1] + r),
            sweep,
        )
    if how < 0.85:
        return Arc(start=start, end=end, center=center, sweep=sweep)
    return Arc(start=start, end=end, center=center, ccw=(sweep < 0)) if abs(sweep) < tau else Arc(start, end, center, (center[0] + r, center[1]), (center[0], center[1] + r), sweep)


# ---------------------------------------------------------------------------
# path generation (d strings and builder API)
# ---------------------------------------------------------------------------
def fmt(v):
    return repr(float(v))


def gen_path_d(rng, allow_arc, nseg=None):
    nice = rng.random() < 0.3
    if nseg is None:
        nseg = rng.randint(1, 8)
    parts = ["M %s,%s" % tuple(map(fmt, pt(rng, nice)))]
    cmds = "LlHhVvQqTtCcSsZzMm" + "dd"  # d: degenerate arc (zero radius = straight line, coincident ends = nothing)
    if allow_arc:
        cmds += "AaAa"
    for _ in range(nseg):
        c = rng.choice(cmds)
        if c in "Ll":
            p = pt(rng, nice)
            parts.append("%s %s,%s" % (c, fmt(p[0]), fmt(p[1])))
        elif c in "HhVv":
            parts.append("%s %s" % (c, fmt(coord(rng, nice))))
        elif c in "Qq":
            p, q = pt(rng, nice), pt(rng, nice)
            if rng.random() < 0.15:
                q = p
            parts.append("%s %s,%s %s,%s" % (c, fmt(p[0]), fmt(p[1]), fmt(q[0]), fmt(q[1])))
        elif c in "Tt":
            p = pt(rng, nice)
            parts.append("%s %s,%s" % (c, fmt(p[0]), fmt(p[1])))
        elif c in "Cc":
            p, q, r = pt(rng, nice), pt(rng, nice), pt(rng, nice)
            if rng.random() < 0.15:
                q = p
            parts.append("%s %s,%s %s,%s %s,%s" % (c, fmt(p[0]), fmt(p[1]), fmt(q[0]), fmt(q[1]), fmt(r[0]), fmt(r[1])))
        elif c in "Ss":
            p, q = pt(rng, nice), pt(rng, nice)
            parts.append("%s %s,%s %s,%s" % (c, fmt(p[0]), fmt(p[1]), fmt(q[0]), fmt(q[1])))
        elif c in "Zz":
            parts.append(c)
        elif c in "Mm":
            p = pt(rng, nice)
            parts.append("%s %s,%s" % (c, fmt(p[0]), fmt(p[1])))
        elif c == "d":
            p = pt(rng, nice)
            if rng.random() < 0.5:
                parts.append("a 0,%s 30 %d,%d %s,%s" % (fmt(abs(coord(rng)) + 1), rng.randint(0, 1), rng.randint(0, 1), fmt(p[0]), fmt(p[1])))
            else:
                parts.append("a %s,%s 30 %d,%d 0,0" % (fmt(abs(coord(rng)) + 1), fmt(abs(coord(rng)) + 1), rng.randint(0, 1), rng.randint(0, 1)))
        elif c in "Aa":
            s = 10 ** rng.uniform(-2, 4)
            rx = s * rng.uniform(0.2, 2)
            ry = rx if rng.random() < 0.4 else s * rng.uniform(0.2, 2)
            rot = rng.choice([0, 0, 90, 45, rng.uniform(-360, 360)])
            # relative form keeps the arc well conditioned, absolute form also used
            ex, ey = s * rng.uniform(-2, 2), s * rng.uniform(-2, 2)
            parts.append("a %s,%s %s %d,%d %s,%s" % (fmt(rx), fmt(ry), fmt(rot), rng.randint(0, 1), rng.randint(0, 1), fmt(ex), fmt(ey)))
    return " ".join(parts)


def snapshot(segs, ts):
    """oracle-side snapshot of a list of library segments"""
    out = []
    for s in segs:
        d = seg_defpoints(s)
        if d[0] is None and not isinstance(s, Move):
            smp = []
        else:
            smp = seg_samples(s, ts)
        out.append((type(s), d, smp))
    return out


def check_segments_image(kind, snap, new_segs, m, ts, ctx):
    if len(snap) != len(new_segs):
        raise Failure(kind + "/count", "expected %d segments got %d %s" % (len(snap), len(new_segs), ctx))
    for i, ((typ, d, smp), ns) in enumerate(zip(snap, new_segs)):
        check_segment_image(kind, d, smp, typ, ns, m, ts, ctx + " seg#%d" % i)


def snap_equal(kind, s1, s2, ctx):
    """two snapshots must be identical objects geometrically (used for 'original not mutated')"""
    if len(s1) != len(s2):
        raise Failure(kind + "/count", ctx)
    for (t1, d1, p1), (t2, d2, p2) in zip(s1, s2):
        if t1 is not t2 or d1 != d2 or p1 != p2:
            raise Failure(kind, "%r vs %r %s" % ((t1.__name__, d1), (t2.__name__, d2), ctx))


# ---------------------------------------------------------------------------
# test cases
# ---------------------------------------------------------------------------
def case_segment(rng):
    mk = rng.choice(["sim", "gen", "axis", "special"])
    m = gen_matrix(rng, mk)
    allow_arc = is_similarity(m)
    seg = gen_segment(rng, allow_arc)
    ts = ts_for(rng)
    ctx = "seg=%r m=%r" % (seg, m)
    before = snapshot([seg], ts)
    lm = lib_matrix(rng, m)
    # copying operator
    new = seg * lm
    check_segments_image("segment*M", before, [new], m, ts, ctx)
    snap_equal("segment*M/mutated-original", before, snapshot([seg], ts), ctx)
    # reflected operator
    if isinstance(lm, str):
        new = lm * seg
        check_segments_image("str*segment", before, [new], m, ts, ctx)
    else:
        try:
            new = lm * seg
            check_segments_image("M*segment", before, [new], m, ts, ctx)
        except AttributeError:
            RMUL["Matrix*segment raises AttributeError"] += 1
    # in place
    c = copy(seg)
    c *= lm
    check_segments_image("segment*=M", before, [c], m, ts, ctx)
    # composition
    m2 = gen_matrix(rng, "sim" if isinstance(seg, Arc) else None)
    both = mcompose(m, m2)
    if mcond(both) <= 400:
        left = (seg * Matrix(*m)) * Matrix(*m2)
        right = seg * (Matrix(*m) * Matrix(*m2))
        check_segments_image("(X*A)*B", before, [left], both, ts, ctx + " m2=%r" % (m2,))
        check_segments_image("X*(A*B)", before, [right], both, ts, ctx + " m2=%r" % (m2,))


def case_path(rng):
    mk = rng.choice(["sim", "gen", "axis", "special"])
    m = gen_matrix(rng, mk)
    has_t = rng.random() < 0.4
    t = gen_matrix(rng, "sim" if is_similarity(m) and rng.random() < 0.7 else None) if has_t else I6
    total = mcompose(t, m)
    if mcond(total) > 400:
        return
    allow_arc = is_similarity(m) and is_similarity(t)
    d = gen_path_d(rng, allow_arc)
    ts = ts_for(rng)
    ctx = "d=%r t=%r m=%r" % (d, t, m)
    if has_t:
        p = Path(d, transform=lib_matrix(rng, t))
    else:
        p = Path(d)
    raw = snapshot(p.segments(transformed=False), ts)
    # the path's own transform: segments(True) and abs() are the T image
    check_segments_image("path.segments(T)", raw, p.segments(transformed=True), t, ts, ctx)
    a = abs(p)
    check_segments_image("abs(path)", raw, a.segments(transformed=False), t, ts, ctx)
    if not a.transform.is_identity():
        raise Failure("abs(path)/transform-left", ctx)
    snap_equal("abs(path)/mutated-original", raw, snapshot(p.segments(transformed=False), ts), ctx)
    # multiply
    lm = lib_matrix(rng, m)
    q = p * lm
    snap_equal("path*M/mutated-original", raw, snapshot(p.segments(transformed=False), ts), ctx)
    check_segments_image("path*M segments(T)", raw, q.segments(transformed=True), total, ts, ctx)
    qa = abs(q)
    check_segments_image("abs(path*M)", raw, qa.segments(transformed=False), total, ts, ctx)
    q2 = copy(p)
    q2 *= lm
    q2.reify()
    check_segments_image("path*=M;reify", raw, q2.segments(transformed=True), total, ts, ctx)
    if not q2.transform.is_identity():
        raise Failure("path.reify/transform-left", ctx)
    if isinstance(lm, str):
        q3 = lm * p
        check_segments_image("str*path", raw, q3.segments(transformed=True), total, ts, ctx)
    else:
        try:
            q3 = lm * p
            check_segments_image("M*path", raw, q3.segments(transformed=True), total, ts, ctx)
        except AttributeError:
            RMUL["Matrix*path raises AttributeError"] += 1
    q4 = p @ Matrix(*m)
    check_segments_image("path@M", raw, q4.segments(transformed=False), total, ts, ctx)
    # re-parse of d() of the transformed path (12 significant digits in the text)
    if not allow_arc or True:
        txt = q.d()
        rp = Path(txt)
        try:
            check_reparse("Path((path*M).d())", raw, rp.segments(), total, ts, ctx + " txt=%r" % txt)
        except Failure as f:
            if re.search(r"E[-+][0-9](?![0-9])", txt):  # %G never prints a one-digit exponent
                raise Failure(f.kind + "[one-digit exponent in text]", f.detail)
            raise
    # composition
    m2 = gen_matrix(rng, "sim" if allow_arc else None)
    both = mcompose(total, m2)
    if mcond(both) <= 400:
        left = (p * Matrix(*m)) * Matrix(*m2)
        right = p * (Matrix(*m) * Matrix(*m2))
        check_segments_image("(P*A)*B", raw, left.segments(True), both, ts, ctx + " m2=%r" % (m2,))
        check_segments_image("P*(A*B)", raw, right.segments(True), both, ts, ctx + " m2=%r" % (m2,))
    # subpaths
    subs = list(p.as_subpaths())
    idx = 0
    for sp in subs:
        n = len(sp)
        sraw = raw[sp._start : sp._end + 1]
        sp2 = sp * lm
        snap_equal("subpath*M/mutated-original", raw, snapshot(p.segments(transformed=False), ts), ctx)
        if not has_t:
            check_segments_image("subpath*M", sraw, list(sp2), m, ts, ctx)
        check_segments_image("subpath*M segments(T)", sraw, sp2.segments(transformed=True), total, ts, ctx)
    if subs:
        # in place on a copy of the path
        pc = copy(p)
        k = rng.randrange(len(subs))
        spc = list(pc.as_subpaths())[k]
        spc *= lm
        got = pc.segments(transformed=True)
        lo, hi = spc._start, spc._end
        for i, ((typ, dd, smp), ns) in enumerate(zip(raw, got)):
            mm = total if lo <= i <= hi else t
            try:
                check_segment_image("subpath*=M", dd, smp, typ, ns, mm, ts, ctx + " seg#%d sub=%d" % (i, k))
            except Failure as f:
                if not has_t:
                    raise
                raise Failure("subpath*=M(with path transform)" + f.kind[len("subpath*=M"):], f.detail)


def check_reparse(kind, snap, new_segs, m, ts, ctx):
    """the text form is limited to 12 significant digits (6 for arc radii: known), so compare loosely and skip arcs' interior"""
    if len(snap) != len(new_segs):
        raise Failure(kind + "/count", "expected %d segments got %d %s" % (len(snap), len(new_segs), ctx))
    for i, ((typ, d, smp), ns) in enumerate(zip(snap, new_segs)):
        if type(ns) is not typ:
            raise Failure(kind + "/type", "%s became %s %s seg#%d" % (typ.__name__, type(ns).__name__, ctx, i))
        pts = [p for p in d if p is not None]
        scale = image_scale(m, pts)
        tol = 1e-10 * scale * 10 + 1e-12
        nd = seg_defpoints(ns)
        lim = 2 if typ is Arc else len(d)
        for j in range(lim):
            if d[j] is None:
                continue
            e = mapply(m, d[j])
            if nd[j] is None or not close_enough(e, nd[j], tol):
                raise Failure(kind + "/defpoint", "%s defpoint %d expected %r got %r %s seg#%d" % (typ.__name__, j, e, nd[j], ctx, i))


def case_path_api(rng):
    """paths assembled from segment objects / builder calls rather than text"""
    m = gen_matrix(rng)
    allow_arc = is_similarity(m)
    ts = ts_for(rng)
    p = Path()
    cur = pt(rng)
    p.move(cur)
    for _ in range(rng.randint(1, 6)):
        k = rng.choice(["line", "quad", "cubic", "close", "move", "arc" if allow_arc else "line", "sq", "sc"])
        a, b, c = pt(rng), pt(rng), pt(rng)
        if k == "line":
            p.line(a)
        elif k == "quad":
            p.quad(a, b)
        elif k == "cubic":
            p.cubic(a, b, c)
        elif k == "close":
            p.closed()
        elif k == "move":
            p.move(a)
        elif k == "sq":
            p.smooth_quad(a)
        elif k == "sc":
            p.smooth_cubic(a, b)
        elif k == "arc":
            s = 10 ** rng.uniform(-2, 3)
            cp = p.current_point
            p.arc(s, s * rng.uniform(0.5, 2), rng.uniform(0, 360), rng.randint(0, 1), rng.randint(0, 1), (cp.x + s * rng.uniform(-2, 2), cp.y + s * rng.uniform(-2, 2)))
    ctx = "api path=%r m=%r" % (p, m)
    raw = snapshot(p.segments(False), ts)
    q = p * Matrix(*m)
    check_segments_image("apipath*M", raw, q.segments(True), m, ts, ctx)
    check_segments_image("abs(apipath*M)", raw, abs(q).segments(False), m, ts, ctx)
    snap_equal("apipath*M/mutated-original", raw, snapshot(p.segments(False), ts), ctx)
    # Path built from a tuple of (copied) segments
    p2 = Path(*[copy(s) for s in p])
    p2 *= Matrix(*m)
    p2.reify()
    check_segments_image("Path(*segs)*=M", raw, p2.segments(True), m, ts, ctx)


# ---- shapes -----------------------------------------------------------------
def gen_shape(rng, roundish_ok):
    nice = rng.random() < 0.3
    kinds = ["rect", "rrect", "line", "polyline", "polygon"]
    if roundish_ok:
        kinds += ["circle", "ellipse", "circle", "ellipse"]
    k = rng.choice(kinds)
    size = lambda: abs(coord(rng, nice)) or 1.0
    if k == "rect":
        return Rect(coord(rng, nice), coord(rng, nice), size(), size())
    if k == "rrect":
        w, h = size(), size()
        return Rect(coord(rng, nice), coord(rng, nice), w, h, w * rng.uniform(0.01, 0.7), h * rng.uniform(0.01, 0.7))
    if k == "line":
        return SimpleLine(coord(rng, nice), coord(rng, nice), coord(rng, nice), coord(rng, nice))
    if k in ("polyline", "polygon"):
        n = rng.randint(1, 6)
        pts = [pt(rng, nice) for _ in range(n)]
        if n > 1 and rng.random() < 0.3:
            pts[rng.randrange(n)] = pts[rng.randrange(n)]
        return (Polyline if k == "polyline" else Polygon)(*pts)
    if k == "circle":
        return Circle(coord(rng, nice), coord(rng, nice), size())
    return Ellipse(coord(rng, nice), coord(rng, nice), size(), size())


def case_shape(rng):
    mk = rng.choice(["sim", "gen", "axis", "special", "sim"])
    m = gen_matrix(rng, mk)
    has_t = rng.random() < 0.4
    t = gen_matrix(rng) if has_t else I6
    total = mcompose(t, m)
    if mcond(total) > 400:
        return
    round_ok = is_similarity(total) or is_axis_aligned(total)
    shape = gen_shape(rng, round_ok)
    if has_t:
        shape = type(shape)(shape)
        shape.transform = Matrix(*t)
    ts = ts_for(rng)
    ctx = "shape=%r t=%r m=%r" % (shape, t, m)
    raw_segs = shape.segments(transformed=False)
    raw = snapshot(raw_segs, ts)
    has_arc = any(ty is Arc for ty, _, _ in raw)
    if has_arc and not round_ok:
        # rounded rect under shear etc: arcs are known to be inexact, test only the straight parts/end points
        raw = [(ty, d[:2] if ty is Arc else d, [] if ty is Arc else smp) for ty, d, smp in raw]

    def tag(mm):
        """classify the matrix so that distinct root causes end up in distinct buckets"""
        tags = []
        if has_arc:
            if mm[0] * mm[3] == 0 and mdet(mm) < 0:
                tags.append("diag-reflection(a*d==0,det<0)")
            if mm[1] == 0 and mm[2] == 0 and mm[0] < 0 and mm[3] < 0:
                tags.append("scale(-,-)")
        return "[" + ",".join(tags) + "]" if tags else ""

    def chk(kind, segs, mm):
        try:
            _chk(kind, segs, mm)
        except Failure as f:
            tg = tag(mm)
            if not tg and kind.startswith("abs(shape*A)*B"):
                tg = tag(total)
            raise Failure(f.kind + tg, f.detail)

    def _chk(kind, segs, mm):
        if has_arc and not round_ok:
            if len(segs) != len(raw):
                raise Failure(kind + "/count", ctx)
            for i, ((ty, d, smp), ns) in enumerate(zip(raw, segs)):
                if ty is Arc:
                    nd = seg_defpoints(ns)[:2]
                    scale = image_scale(mm, d)
                    for o, n in zip(d, nd):
                        if not close_enough(mapply(mm, o), n, 1e-9 * scale + 1e-12):
                            raise Failure(kind + "/arc-endpoint", "expected %r got %r %s" % (mapply(mm, o), n, ctx))
                else:
                    check_segment_image(kind, d, smp, ty, ns, mm, ts, ctx + " seg#%d" % i)
        else:
            check_segments_image(kind, raw, list(segs), mm, ts, ctx)

    chk("shape.segments(T)", shape.segments(True), t)
    lm = lib_matrix(rng, m)
    q = shape * lm
    if type(q) is not type(shape):
        raise Failure("shape*M/type", ctx)
    snap_equal("shape*M/mutated-original", snapshot(raw_segs, ts), snapshot(shape.segments(False), ts), ctx)
    chk("shape*M segments(T)", q.segments(True), total)
    chk("Path(shape*M) segments(T)", Path(q).segments(True), total)
    # reify
    r = abs(q)
    chk("abs(shape*M) segments(T)", r.segments(True), total)
    rc = copy(r)
    chk("copy(abs(shape*M)) segments(T)", rc.segments(True), total)
    r2 = copy(shape)
    r2 *= lm
    r2.reify()
    chk("shape*=M;reify", r2.segments(True), total)
    r2.reify()
    chk("shape*=M;reify;reify", r2.segments(True), total)
    # reify of Path(shape)
    pr = abs(Path(q))
    chk("abs(Path(shape*M))", pr.segments(False), total)
    # further multiplication after reify (composition through a reified intermediate)
    m2 = gen_matrix(rng, "sim")
    both = mcompose(total, m2)
    ctx += " m2=%r" % (m2,)
    if mcond(both) <= 400 and (not has_arc or is_similarity(both) or is_axis_aligned(both) or not round_ok):
        rb = r * Matrix(*m2)
        chk("abs(shape*A)*B", rb.segments(True), both) if (round_ok and (is_similarity(both) or is_axis_aligned(both))) or not has_arc else None
        left = (shape * Matrix(*m)) * Matrix(*m2)
        right = shape * (Matrix(*m) * Matrix(*m2))
        if (round_ok and (is_similarity(both) or is_axis_aligned(both))) or not has_arc:
            chk("(S*A)*B", left.segments(True), both)
            chk("S*(A*B)", right.segments(True), both)


def case_spelled(rng):
    """matrices given as transform-list text ('unusual but legal spellings')"""
    txt, m = gen_spelled(rng)
    allow_arc = is_similarity(m)
    ts = ts_for(rng)
    if rng.random() < 0.5:
        seg = gen_segment(rng, allow_arc)
        ctx = "seg=%r txt=%r m=%r" % (seg, txt, m)
        before = snapshot([seg], ts)
        check_segments_image("segment*text", before, [seg * txt], m, ts, ctx)
        c = copy(seg)
        c *= txt
        check_segments_image("segment*=text", before, [c], m, ts, ctx)
    else:
        d = gen_path_d(rng, allow_arc)
        ctx = "d=%r txt=%r m=%r" % (d, txt, m)
        p = Path(d)
        raw = snapshot(p.segments(False), ts)
        check_segments_image("path*text", raw, (p * txt).segments(True), m, ts, ctx)
        p2 = Path(d, transform=txt)
        check_segments_image("Path(d, transform=text)", raw, abs(p2).segments(False), m, ts, ctx)
        round_ok = is_similarity(m) or is_axis_aligned(m)
        shape = gen_shape(rng, round_ok)
        sraw = snapshot(shape.segments(False), ts)
        if round_ok or not any(t is Arc for t, _, _ in sraw):
            q = shape * txt
            ctx = "shape=%r txt=%r m=%r" % (shape, txt, m)
            tg = ""
            if any(t is Arc for t, _, _ in sraw):
                if m[0] * m[3] == 0 and mdet(m) < 0:
                    tg = "[diag-reflection(a*d==0,det<0)]"
                elif m[1] == 0 and m[2] == 0 and m[0] < 0 and m[3] < 0:
                    tg = "[scale(-,-)]"
            try:
                check_segments_image("shape*text", sraw, q.segments(True), m, ts, ctx)
                check_segments_image("abs(shape*text)", sraw, abs(q).segments(True), m, ts, ctx)
            except Failure as f:
                raise Failure(f.kind + tg, f.detail)


CASES = [
    ("spelled", case_spelled, 2),
    ("segment", case_segment, 4),
    ("path", case_path, 3),
    ("path_api", case_path_api, 1),
    ("shape", case_shape, 4),
]


def main():
    seed = int(sys.argv[1]) if len(sys.argv) > 1 else 0
    n = int(sys.argv[2]) if len(sys.argv) > 2 else 1000
    weights = [w for _, _, w in CASES]
    counts = Counter()
    fails = defaultdict(list)
    errors = defaultdict(list)
    master = random.Random(seed)
    for i in range(n):
        cs = master.randrange(1 << 62)
        rng = random.Random(cs)
        name, fn, _ = master.choices(CASES, weights)[0]
        counts[name] += 1
        try:
            fn(rng)
        except Failure as f:
            fails[(name, f.kind)].append((cs, f.detail))
            if VERBOSE:
                print("FAIL", name, cs, f.kind, f.detail[:600])
        except RecursionError:
            errors[(name, "RecursionError")].append((cs, ""))
        except Exception as e:
            tb = traceback.extract_tb(sys.exc_info()[2])
            where = "%s:%d" % (tb[-1].name, tb[-1].lineno)
            errors[(name, type(e).__name__ + "@" + where)].append((cs, repr(e)))
            if VERBOSE:
                traceback.print_exc()
    print("seed", seed, "cases", dict(counts))
    print("== property failures ==")
    for (name, kind), lst in sorted(fails.items()):
        print("%-10s %-45s %5d of %d   first: case-seed %d" % (name, kind, len(lst), counts[name], lst[0][0]))
        print("      ", lst[0][1][:700])
    print("== reflected operator (reported once, not a geometry failure) ==", dict(RMUL))
    print("== exceptions ==")
    for (name, kind), lst in sorted(errors.items()):
        print("%-10s %-45s %5d of %d   first: case-seed %d %s" % (name, kind, len(lst), counts[name], lst[0][0], lst[0][1][:300]))


def replay(case_name, case_seed):
    fn = dict((n, f) for n, f, _ in CASES)[case_name]
    fn(random.Random(case_seed))


if __name__ == "__main__":
    if len(sys.argv) > 1 and sys.argv[1] == "replay":
        replay(sys.argv[2], int(sys.argv[3]))
    else:
        main()
