#!/venv/bin/python
"""
Random-input harness for property C15 (lengths are true arc lengths, isometry-invariant, and drive point(t)).

usage:  /venv/bin/python harness_C15.py SEED N [family ...]

Oracle (independent of the library): every piece of geometry is described by this file's own
spec (Bezier control points / ellipse centre parameters, see harness_C08.py) and its arc length is
obtained by adaptive 16-point Gauss-Legendre quadrature of |derivative| (own derivative formulae,
interval split where a derivative component changes sign so that cusps are integrated exactly).
The quadrature is cross-checked against a 20 000-chord polyline in selftest().

Checks
  seg-length     |seg.length(error=e) - L_true| <= e + 1e-9*scale          e in {1e-4, 1e-6, 1e-9}
  seg-invariance length unchanged under rotation / translation / reflection / reversal, |s|*L under uniform scale
  seg-split      length(left) + length(right) == length(whole)              (own de Casteljau split)
  path-length    path.length(error=e) == sum of true segment lengths (moves 0) within (number of segments)*e
  path-point     point(t) == own walk by cumulative true length, t in {0, 1, nextafter(1,0), interval midpoints, random}
  path-reverse   length unchanged by Path.reverse()
  shape-*        the same for Rect / rounded Rect / Circle / Ellipse / SimpleLine / Polyline / Polygon
  cache          length(error=1e-4) followed by length(error=1e-9) must honour the second error
Failures are printed as JSON lines on stdout, a summary on stderr.
"""
import sys, os, math, random, json

sys.path.insert(0, os.path.dirname(os.path.abspath(__file__)))
from svgelements import *  # noqa
import harness_C08 as G

TAU = 2 * math.pi

# ----------------------------------------------------------------------------- quadrature oracle
_GL16_X = [
    0.0950125098376374, 0.2816035507792589, 0.4580167776572274, 0.6178762444026438,
    0.7554044083550030, 0.8656312023878318, 0.9445750230732326, 0.9894009349916499,
]
_GL16_W = [
    0.1894506104550685, 0.1826034150449236, 0.1691565193950025, 0.1495959888165767,
    0.1246289712555339, 0.0951585116824928, 0.0622535239386479, 0.0271524594117541,
]


def gl16(f, a, b):
    c, h = (a + b) / 2, (b - a) / 2
    s = 0.0
    for x, w in zip(_GL16_X, _GL16_W):
        s += w * (f(c - h * x) + f(c + h * x))
    return s * h


def adaptive(f, a, b, whole=None, depth=0, scale=1.0):
    if whole is None:
        whole = gl16(f, a, b)
    m = (a + b) / 2
    l, r = gl16(f, a, m), gl16(f, m, b)
    if abs(l + r - whole) <= 1e-15 * scale or depth > 30:
        return l + r
    return adaptive(f, a, m, l, depth + 1, scale) + adaptive(f, m, b, r, depth + 1, scale)


def poly_roots_in01(coefs):
    """real roots in (0,1) of c0 + c1 t + c2 t^2"""
    c0, c1, c2 = (list(coefs) + [0.0, 0.0])[:3]
    out = []
    if abs(c2) < 1e-300:
        if c1 != 0:
            out.append(-c0 / c1)
    else:
        d = c1 * c1 - 4 * c2 * c0
        if d >= 0:
            sq = math.sqrt(d)
            q = -(c1 + math.copysign(sq, c1)) / 2
            if q != 0:
                out.append(c0 / q)
            out.append(q / c2)
    return [t for t in out if 0 < t < 1]


def bezier_length(ps):
    n = len(ps) - 1
    if n == 1:
        return math.hypot(ps[1][0] - ps[0][0], ps[1][1] - ps[0][1])
    d = [(n * (ps[i + 1][0] - ps[i][0]), n * (ps[i + 1][1] - ps[i][1])) for i in range(n)]

    def der(t):
        q = d
        while len(q) > 1:
            q = [((1 - t) * a[0] + t * b[0], (1 - t) * a[1] + t * b[1]) for a, b in zip(q, q[1:])]
        return math.hypot(q[0][0], q[0][1])

    cuts = [0.0, 1.0]
    for ax in (0, 1):
        v = [p[ax] for p in d]
        if len(v) == 2:  # linear derivative  v0 (1-t) + v1 t
            cuts += poly_roots_in01([v[0], v[1] - v[0]])
        else:  # quadratic derivative in Bernstein form
            cuts += poly_roots_in01([v[0], 2 * (v[1] - v[0]), v[0] - 2 * v[1] + v[2]])
    cuts = sorted(set(cuts))
    scale = max(max(abs(a), abs(b)) for a, b in d) or 1.0
    return sum(adaptive(der, a, b, scale=scale) for a, b in zip(cuts, cuts[1:]))


def ellipse_length(rx, ry, t0, dt):
    if dt == 0:
        return 0.0
    if rx == ry:
        return abs(rx * dt)

    def f(t):
        s, c = math.sin(t), math.cos(t)
        return math.sqrt(rx * rx * s * s + ry * ry * c * c)

    a, b = (t0, t0 + dt) if dt > 0 else (t0 + dt, t0)
    cuts = [a]
    k = math.ceil(a / (TAU / 4))
    while k * TAU / 4 < b:
        if k * TAU / 4 > a:
            cuts.append(k * TAU / 4)
        k += 1
    cuts.append(b)
    return sum(adaptive(f, u, v, scale=max(rx, ry)) for u, v in zip(cuts, cuts[1:]))


def spec_length(spec):
    if spec[0] == "B":
        return bezier_length(spec[1])
    if spec[0] == "E":
        _, cx, cy, rx, ry, phi, t0, dt = spec
        return ellipse_length(rx, ry, t0, dt)
    if spec[0] == "M":
        m, inner = spec[1], spec[2]
        if inner[0] == "B":
            a, b, c, d, e, f = m
            return bezier_length([(a * x + c * y + e, b * x + d * y + f) for x, y in inner[1]])
        s = math.sqrt(abs(m[0] * m[3] - m[1] * m[2]))  # similarity only
        return s * spec_length(inner)
    raise ValueError(spec)


def polyline_length(fn, n=20000):
    pts = [fn(i / n) for i in range(n + 1)]
    return sum(math.hypot(b[0] - a[0], b[1] - a[1]) for a, b in zip(pts, pts[1:]))


def split_bezier(ps, t):
    rows = [ps]
    while len(rows[-1]) > 1:
        q = rows[-1]
        rows.append([((1 - t) * a[0] + t * b[0], (1 - t) * a[1] + t * b[1]) for a, b in zip(q, q[1:])])
    left = [r[0] for r in rows]
    right = [r[-1] for r in rows][::-1]
    return left, right


def bez_expr(ps):
    name = {2: "Line", 3: "QuadraticBezier", 4: "CubicBezier"}[len(ps)]
    return "%s(%s)" % (name, ", ".join(G.pexpr(p) for p in ps))


# ----------------------------------------------------------------------------- bookkeeping
FAILS = []
COUNTS = {}
ERRORS = (1e-4, 1e-6, 1e-9)


def count(fam, kind):
    COUNTS[(fam, kind)] = COUNTS.get((fam, kind), 0) + 1


def record(fam, kind, expr, msg, err, tol, extra=None):
    rec = {"family": fam, "kind": kind, "expr": expr, "msg": msg, "err": err, "tol": tol}
    if extra:
        rec.update(extra)
    FAILS.append(rec)
    print(json.dumps(rec))
    sys.stdout.flush()


def guarded(fam, kind, expr, fn):
    try:
        return fn()
    except RecursionError:
        count(fam, kind)
        record(fam, kind, expr, "EXCEPTION RecursionError", 1.0, 0.0)
    except Exception as ex:
        count(fam, kind)
        record(fam, kind, expr, "EXCEPTION %s: %s" % (type(ex).__name__, ex), 1.0, 0.0)


def piece_scale(piece):
    pts = [piece(i / 16) for i in range(17)]
    return max(max(abs(x), abs(y)) for x, y in pts)


def cmp_len(fam, kind, expr, got, true, e, scale, note, loose=False, nseg=1):
    count(fam, kind)
    tol = nseg * e + 1e-9 * max(scale, true)
    if loose:
        tol += 1e-6 * max(scale, true)
    if got is None or isinstance(got, complex) or math.isnan(got) or abs(got - true) > tol:
        d = abs(got - true) if isinstance(got, (int, float)) and not math.isnan(got) else float("inf")
        record(fam, kind, expr, "%s: got %r expected %r (requested error %g)" % (note, got, true, e), d, tol,
               {"true": true, "requested": e, "ratio": d / e if e else None})
        return False
    return True


# ----------------------------------------------------------------------------- families
def fam_segment(R):
    F = G.Frame(R)
    kind = R.choice(("line", "quad", "cubic", "cubic", "arc_svg", "arc_native", "arc_control"))
    expr, piece, _ = G.SEG_GENS[kind](R, F)
    loose = getattr(piece, "loose", False)
    spec = piece.spec
    true = spec_length(spec)
    scale = piece_scale(piece)

    def run():
        for e in ERRORS:
            seg = eval(expr)
            cmp_len("seg-length", kind, expr, seg.length(error=e), true, e, scale, "length(error=%g)" % e, loose)
        e = 1e-6
        base = eval(expr).length(error=e)
        # isometries + uniform scale
        th = R.choice((TAU / 4, TAU / 2, R.uniform(-TAU, TAU)))
        tx, ty = G.rcoord(R), G.rcoord(R)
        s = R.choice((-1, 1)) * 10 ** R.uniform(-1.5, 1.5)
        if scale * abs(s) > 1e5:
            s = 1e5 / scale * 0.5
        mats = {
            "rotate": (math.cos(th), math.sin(th), -math.sin(th), math.cos(th), 0.0, 0.0),
            "translate": (1.0, 0.0, 0.0, 1.0, tx, ty),
            "reflect": (math.cos(th), math.sin(th), math.sin(th), -math.cos(th), 0.0, 0.0),
            "scale": (s, 0.0, 0.0, s, 0.0, 0.0),
        }
        for nm, m in mats.items():
            e2 = "(%s * %s)" % (expr, G.mexpr(m))
            seg2 = eval(e2)
            f = abs(s) if nm == "scale" else 1.0
            sc2 = piece_scale(G.amap(m, piece))
            cmp_len("seg-invariance", kind, e2, seg2.length(error=e), f * true, e, max(scale * f, sc2) if nm != "translate" else scale, "%s: length" % nm, loose, nseg=2)
        seg = eval(expr)
        seg.reverse()
        cmp_len("seg-invariance", kind, expr + " ; .reverse()", seg.length(error=e), true, e, scale, "reversed: length", loose, nseg=2)
        # split additivity (Beziers; own subdivision)
        if spec[0] == "B" and len(spec[1]) > 2:
            t = R.choice((0.5, R.uniform(0.05, 0.95)))
            l, r = split_bezier(spec[1], t)
            el, er = bez_expr(l), bez_expr(r)
            tot = eval(el).length(error=e) + eval(er).length(error=e)
            count("seg-split", kind)
            tol = 3 * e + 1e-9 * max(scale, true)
            if abs(tot - base) > tol:
                record("seg-split", kind, "%s -> %s + %s" % (expr, el, er), "split at %r: parts %r whole %r true %r" % (t, tot, base, true), abs(tot - base), tol)
        # point(0)/point(1)
        seg = eval(expr)
        count("seg-endpoints", kind)
        p0, p1 = seg.point(0), seg.point(1)
        a, b = piece(0.0), piece(1.0)
        tolp = 1e-9 * scale + (1e-6 * scale if loose else 0)
        if math.hypot(p0.x - a[0], p0.y - a[1]) > tolp or math.hypot(p1.x - b[0], p1.y - b[1]) > tolp:
            record("seg-endpoints", kind, expr, "point(0)=%r point(1)=%r expected %r %r" % (p0, p1, a, b), 1.0, tolp)

    guarded("seg-length", kind, expr, run)


def walk(pieces_with_len, t):
    """own implementation of the property: pieces_with_len = [(piece or None for a move, L)], t in [0,1]"""
    total = sum(L for _, L in pieces_with_len)
    target = t * total
    acc = 0.0
    last = None
    for piece, L in pieces_with_len:
        if L > 0 and acc + L >= target:
            return piece((target - acc) / L), piece
        acc += L
        if L > 0:
            last = piece
    return last(1.0), last


def check_points(fam, kind, expr, obj, plist, R, scale, loose, err=None, liblens=None):
    """plist: [(piece, true length)] in order (moves excluded).  compares obj.point(t) with the own walk.

    Two oracles for the cumulative intervals:
      fam            -- the TRUE segment lengths (quadrature)
      fam + "-lib"   -- the library's own per-segment lengths (liblens, same error setting): isolates the walking
                        logic of Shape.point from the accuracy of the lengths ("in proportion to those lengths")
    """
    total = sum(L for _, L in plist)
    if total <= 0:
        return
    if err is None:
        err = min(1e-8, max(1e-12, 1e-10 * scale))
    ts = [0.0, 1.0, math.nextafter(1.0, 0.0), 1e-12, 0.5]
    acc = 0.0
    for _, L in plist:
        ts.append((acc + L / 2) / total)
        acc += L
    ts += [R.random() for _ in range(6)]
    tolp = 1e-6 * scale + 1000 * err + (1e-5 * scale if loose else 0)
    first = plist[0][0](0.0)
    lastp = plist[-1][0](1.0)
    modes = [(fam, plist)]
    if liblens is not None:
        modes.append((fam + "-lib", [(f, l) for (f, _), l in zip(plist, liblens(err))]))
    for t in ts:
        got = obj.point(t, error=err)
        for fname, pl in modes:
            count(fname, kind)
            if t == 0.0:
                exp = first
            elif t == 1.0:
                exp = lastp
            else:
                exp, _ = walk(pl, t)
            d = math.hypot(got[0] - exp[0], got[1] - exp[1])
            if d > tolp:
                # tolerate a t that sits on a discontinuity (cumulative boundary next to a move) within rounding
                alt1, _ = walk(pl, min(1.0, t + 1e-9))
                alt0, _ = walk(pl, max(0.0, t - 1e-9))
                if t not in (0.0, 1.0) and min(math.hypot(got[0] - q[0], got[1] - q[1]) for q in (alt0, alt1)) <= tolp:
                    continue
                record(fname, kind, expr, "point(%r, error=%g): got (%r, %r) expected (%r, %r)" % (t, err, got[0], got[1], exp[0], exp[1]), d, tolp, {"t": t})


def fam_path(R):
    F = G.Frame(R)
    allow_arcs = R.random() < 0.5
    segs, subs = G.build_path(R, F, allow_arcs)
    if R.random() < 0.15:
        segs.append("Move(None, %s)" % G.pexpr(F.pt()))  # trailing move: contributes nothing
    allp = [p for s in subs for p in s]
    kind = "arcs" if allow_arcs else "noarcs"
    expr = "Path(%s)" % ", ".join(segs)
    loose = any(getattr(p, "loose", False) for p in allp)
    lens = [spec_length(p.spec) for p in allp]
    true = sum(lens)
    scale = max(piece_scale(p) for p in allp)
    plist = list(zip(allp, lens))

    def run():
        for e in ERRORS:
            p = eval(expr)
            cmp_len("path-length", kind, expr, p.length(error=e), true, e, scale, "Path.length(error=%g)" % e, loose, nseg=len(allp))
        # sum of segments
        p = eval(expr)
        e = 1e-6
        ssum = sum(s.length(error=e) for s in p)
        count("path-sum", kind)
        if abs(ssum - p.length(error=e)) > 1e-9 * max(scale, true):
            record("path-sum", kind, expr, "sum of segment lengths %r != path length %r" % (ssum, p.length(error=e)), abs(ssum - p.length(error=e)), 1e-9 * scale)
        # point(t)
        p = eval(expr)
        trailing_move = segs[-1].startswith("Move")
        if not trailing_move:
            def liblens(err):
                return [sg.length(error=err) for sg in eval(expr) if not isinstance(sg, Move)]
            check_points("path-point", kind, expr, p, plist, R, scale, loose, liblens=liblens)
        # reverse
        p = eval(expr)
        p.reverse()
        cmp_len("path-reverse", kind, expr + " ; .reverse()", p.length(error=e), true, e, scale, "reversed Path.length", loose, nseg=len(allp))
        # reify under similarity: scales by |s|
        m = G.rmatrix(R, similarity=True, maxabs=scale)
        s = math.sqrt(abs(m[0] * m[3] - m[1] * m[2]))
        e2 = "abs(%s * %s)" % (expr, G.mexpr(m))
        q = eval(e2)
        cmp_len("path-similarity", kind, e2, q.length(error=e), s * true, e, max(scale * s, scale), "reified similarity image: length", loose, nseg=len(allp))
        # cache must honour a tighter second request
        p = eval(expr)
        l1 = p.length(error=1e-4)
        l2 = p.length(error=1e-9)
        cmp_len("cache", kind, expr + " ; .length(error=1e-4); .length(error=1e-9)", l2, true, 1e-9, scale, "second call length(error=1e-9) after length(error=1e-4)=%r" % l1, loose, nseg=len(allp))

    guarded("path-length", kind, expr, run)


def fam_shape(R):
    F = G.Frame(R)
    kind, head, pcs0, sim = G.gen_shape(R, F)
    expr = head + ")"
    lens = [spec_length(p.spec) for p in pcs0]
    true = sum(lens)
    scale = max(piece_scale(p) for p in pcs0)
    plist = list(zip(pcs0, lens))
    if kind in ("circle", "ellipse"):
        # four quarter arcs
        _, cx, cy, rx, ry, phi, t0, dt = pcs0[0].spec
        q = [G.ell(cx, cy, rx, ry, 0, i * TAU / 4, TAU / 4) for i in range(4)]
        plist = [(f, spec_length(f.spec)) for f in q]

    def run():
        for e in ERRORS:
            s = eval(expr)
            cmp_len("shape-length", kind, expr, s.length(error=e), true, e, scale, "length(error=%g)" % e, False, nseg=len(plist))
        s = eval(expr)

        def liblens(err):
            return [sg.length(error=err) for sg in eval(expr).segments(False) if not isinstance(sg, Move)]

        check_points("shape-point", kind, expr, s, plist, R, scale, False, liblens=liblens)
        # the same through Path(shape)
        p = Path(eval(expr))
        cmp_len("shape-length", kind, "Path(%s)" % expr, p.length(error=1e-6), true, 1e-6, scale, "Path(shape).length(error=1e-6)", False, nseg=len(plist))
        check_points("shape-point", kind, "Path(%s)" % expr, p, plist, R, scale, False)
        # similarity, reified
        m = G.rmatrix(R, similarity=True, maxabs=scale)
        sc = math.sqrt(abs(m[0] * m[3] - m[1] * m[2]))
        e2 = "abs(Path(%s) * %s)" % (expr, G.mexpr(m))
        q = eval(e2)
        cmp_len("shape-similarity", kind, e2, q.length(error=1e-6), sc * true, 1e-6, max(scale, scale * sc), "reified similarity image of Path(shape): length(error=1e-6)", False, nseg=len(plist))
        plistT = [(G.amap(m, f), L * sc) for f, L in plist]
        scT = max(piece_scale(f) for f, _ in plistT)
        check_points("shape-similarity-point", kind, e2, q, plistT, R, max(scT, scale * sc), False)

    guarded("shape-length", kind, expr, run)


FAMILIES = {"segment": fam_segment, "path": fam_path, "shape": fam_shape}


def selftest():
    """quadrature oracle against a dense polyline (refinement converges from below, O(1/n^2))"""
    R = random.Random(5)
    worst = 0.0
    for i in range(60):
        F = G.Frame(R)
        kind = R.choice(("quad", "cubic", "arc_svg", "arc_native"))
        expr, piece, _ = G.SEG_GENS[kind](R, F)
        a = spec_length(piece.spec)
        b = polyline_length(piece, 20000)
        b2 = polyline_length(piece, 40000)
        rich = b2 + (b2 - b) / 3
        rel = abs(a - rich) / max(a, 1e-6 * piece_scale(piece), 1e-300)
        worst = max(worst, rel)
        if rel > 1e-7:
            print("ORACLE DISAGREES", kind, expr, a, rich, rel)
    print("selftest: worst relative difference quadrature vs extrapolated polyline: %.3g" % worst)


def main():
    if len(sys.argv) > 1 and sys.argv[1] == "selftest":
        return selftest()
    seed = int(sys.argv[1]) if len(sys.argv) > 1 else 1
    n = int(sys.argv[2]) if len(sys.argv) > 2 else 100
    fams = sys.argv[3:] or list(FAMILIES)
    for fam in fams:
        for i in range(n):
            R = random.Random("%s/%d/%d" % (fam, seed, i))
            FAMILIES[fam](R)
    sys.stderr.write("checks performed:\n")
    for k in sorted(COUNTS):
        nf = sum(1 for f in FAILS if (f["family"], f["kind"]) == k)
        sys.stderr.write("  %-24s %-12s %7d checks %6d failure records\n" % (k[0], k[1], COUNTS[k], nf))
    sys.stderr.write("total failure records: %d\n" % len(FAILS))


if __name__ == "__main__":
    main()
