"""Shared, library-independent geometry oracle for harness_C07.py / harness_C16.py.

Nothing in here calls a geometric method of svgelements (no .point(), .reverse(),
.d(), .bbox(), ==).  Segments are *snapshotted* into plain tuples of floats by reading
their defining attributes and are evaluated with the formulas below.
"""
import math
import sys

sys.path.insert(0, "/tmp/dz/C07_C16")
from svgelements import (  # noqa: E402
    Arc,
    Close,
    CubicBezier,
    Line,
    Move,
    QuadraticBezier,
)

TS = (0.0, 0.13, 0.25, 0.5, 0.77, 1.0)


def xy(p):
    return None if p is None else (float(p.x), float(p.y))


def snap(seg):
    """Plain-data copy of one segment: (kind, fields...)"""
    if isinstance(seg, Move):
        return ("Move", xy(seg.start), xy(seg.end))
    if isinstance(seg, Close):
        return ("Close", xy(seg.start), xy(seg.end))
    if isinstance(seg, Line):
        return ("Line", xy(seg.start), xy(seg.end))
    if isinstance(seg, QuadraticBezier):
        return ("QuadraticBezier", xy(seg.start), xy(seg.control), xy(seg.end))
    if isinstance(seg, CubicBezier):
        return (
            "CubicBezier",
            xy(seg.start),
            xy(seg.control1),
            xy(seg.control2),
            xy(seg.end),
        )
    if isinstance(seg, Arc):
        return (
            "Arc",
            xy(seg.start),
            xy(seg.end),
            xy(seg.center),
            xy(seg.prx),
            xy(seg.pry),
            float(seg.sweep),
        )
    raise TypeError(type(seg))


def snapshot(segments):
    return [snap(s) for s in segments]


def lerp(a, b, t):
    return (a[0] + (b[0] - a[0]) * t, a[1] + (b[1] - a[1]) * t)


def arc_params(s):
    """-> (cx, cy, a, b, phi, t0, sweep) or None when the arc is degenerate (a straight line)."""
    _, start, end, center, prx, pry, sweep = s
    ux, uy = prx[0] - center[0], prx[1] - center[1]
    vx, vy = pry[0] - center[0], pry[1] - center[1]
    a = math.hypot(ux, uy)
    b = math.hypot(vx, vy)
    if sweep == 0 or a == 0 or b == 0:
        return None
    phi = math.atan2(uy, ux)
    cp, sp = math.cos(phi), math.sin(phi)
    dx, dy = start[0] - center[0], start[1] - center[1]
    X = dx * cp + dy * sp
    Y = -dx * sp + dy * cp
    t0 = math.atan2(Y / b, X / a)
    return center[0], center[1], a, b, phi, t0, sweep


def sample(s, t):
    """Point of snapshot segment s at parameter t (own formulas)."""
    k = s[0]
    if k == "Move":
        return s[2]
    if k in ("Line", "Close"):
        return lerp(s[1], s[2], t)
    if k == "QuadraticBezier":
        p0, p1, p2 = s[1], s[2], s[3]
        u = 1 - t
        return (
            u * u * p0[0] + 2 * u * t * p1[0] + t * t * p2[0],
            u * u * p0[1] + 2 * u * t * p1[1] + t * t * p2[1],
        )
    if k == "CubicBezier":
        p0, p1, p2, p3 = s[1], s[2], s[3], s[4]
        u = 1 - t
        return (
            u * u * u * p0[0] + 3 * u * u * t * p1[0] + 3 * u * t * t * p2[0] + t * t * t * p3[0],
            u * u * u * p0[1] + 3 * u * u * t * p1[1] + 3 * u * t * t * p2[1] + t * t * t * p3[1],
        )
    if k == "Arc":
        ap = arc_params(s)
        if ap is None:
            return lerp(s[1], s[2], t)
        cx, cy, a, b, phi, t0, sweep = ap
        th = t0 + sweep * t
        cp, sp = math.cos(phi), math.sin(phi)
        return (
            cx + a * math.cos(th) * cp - b * math.sin(th) * sp,
            cy + a * math.cos(th) * sp + b * math.sin(th) * cp,
        )
    raise TypeError(k)


def start_of(s):
    return s[1]


def end_of(s):
    return s[2] if s[0] in ("Move", "Close", "Line", "Arc") else s[-1]


def dist(p, q):
    return math.hypot(p[0] - q[0], p[1] - q[1])


def all_points(snaps):
    for s in snaps:
        for f in s[1:]:
            if isinstance(f, tuple):
                yield f


def scale_of(snaps):
    m = 0.0
    for p in all_points(snaps):
        m = max(m, abs(p[0]), abs(p[1]))
    return m


def arc_tolerance(s, tol):
    """Tolerance for comparing an arc that went through endpoint/radius perturbations of size tol.

    The SVG endpoint parameterisation is ill-conditioned near a half turn with barely
    sufficient radii (centre offset ~ sqrt(r^2-h^2)); allow for that amplification.
    """
    ap = arc_params(s)
    if ap is None:
        return tol
    cx, cy, a, b, phi, t0, sweep = ap
    _, start, end = s[0], s[1], s[2]
    cp, sp = math.cos(phi), math.sin(phi)

    def unit(p):
        dx, dy = p[0] - cx, p[1] - cy
        return ((dx * cp + dy * sp) / a, (-dx * sp + dy * cp) / b)

    s1, e1 = unit(start), unit(end)
    h = dist(s1, e1) / 2.0
    c = math.sqrt(max(0.0, 1.0 - h * h))
    rmin, rmax = min(a, b), max(a, b)
    eps_n = tol / rmin
    cond = 1.0 / max(c, math.sqrt(eps_n), 1e-300)
    # a tiny chord fixes the centre direction only to within tol/chord radians
    chord = dist(start, end)
    tiny = rmax / chord if chord > 0 else 1.0
    return 4.0 * tol * (1.0 + cond + tiny) * (rmax / rmin)


def arc_end_consistency(s):
    """|sample(1) - end| for an arc snapshot: the stored point form must be self-consistent."""
    return dist(sample(s, 1.0), s[2])


# ---------------------------------------------------------------- number generation


def round_sig(x, n):
    if x == 0:
        return 0.0
    return float("%.*e" % (n - 1, x))


def rnd_value(rng, lo_exp=-3.0, hi_exp=5.0, digits=None, signed=True):
    """A number with |x| in [10^lo_exp, 10^hi_exp] and at most `digits` significant digits."""
    if digits is None:
        digits = rng.choice((1, 2, 3, 4, 6, 9, 12))
    for _ in range(100):
        m = 10 ** rng.uniform(lo_exp, hi_exp)
        v = round_sig(m, digits)
        if 10 ** lo_exp <= v <= 10 ** hi_exp:
            break
    else:
        v = 10 ** lo_exp
    if signed and rng.random() < 0.4:
        v = -v
    return v


def fmt_num(rng, v, plain=False):
    """A legal SVG spelling of the float v that reads back exactly (<= 12 sig. digits are
    always reproduced by %.12g; otherwise fall back to repr)."""
    s = "%.12g" % v
    if float(s) != v:
        s = repr(v)
    if plain:
        return s
    r = rng.random()
    if r < 0.05 and "e" not in s and "." in s and s.lstrip("-").startswith("0."):
        s = s.replace("0.", ".", 1)  # .5 spelling
    elif r < 0.10 and not s.startswith("-"):
        s = "+" + s
    elif r < 0.15:
        s = s.replace("e", "E")
    return s
