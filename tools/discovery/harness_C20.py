# -*- coding: utf-8 -*-
"""
C20 discovery harness:  /venv/bin/python harness_C20.py SEED N [profile]

Two sources of trees
  (a) parsed   : a random document of docgen.py (the C03 generator) parsed by the library (reify True/False)
  (b) built    : a tree built through the constructors (SVG / Group / every shape kind, transforms of both
                 orientations, viewBox present or absent, lengths with units)
For each tree x:   t1 = write(x)  (string_xml, write_xml plain, write_xml svgz)
                   well-formedness of t1 is checked with xml.etree
                   y  = parse(t1)        must have the same rendered shapes / order / absolute geometry / paint / ids
                   t2 = write(y); z = parse(t2)     z must equal y geometrically  (stability from 2nd generation)
Reference for (a): the tree x itself (absolute geometry = segments(transformed=True) of every shape of x).
Reference for (b): the docgen oracle (own decomposition + own matrix), not the library.
"""
import gzip
import io
import math
import os
import random
import sys
import tempfile
import traceback
import xml.etree.ElementTree as ET

HERE = os.path.dirname(os.path.abspath(__file__))
sys.path.insert(0, HERE)

from svgelements import *  # noqa
import svgelements as _se

assert os.path.dirname(os.path.abspath(_se.__file__)).startswith(HERE), _se.__file__

from docgen import *  # noqa
import harness_C03 as H3

PROFILES = H3.PROFILES
PROFILES["c20"] = {"use_units": False, "rrect_units": False}
PROFILES["c20_nopaint"] = {"use_units": False, "rrect_units": False, "paint": False}
PROFILES["c20_plain"] = {"use_units": False, "rrect_units": False, "p_pct": 0.0, "p_unit": 0.0}


def shapes_of(svg):
    return [e for e in svg.elements() if isinstance(e, Shape)]


def vt_scale_of(svg):
    """product of viewport scales above each shape (for the tolerance only)"""
    out = {}

    def walk(node, s):
        if isinstance(node, SVG):
            try:
                vt = node.viewbox_transform
                if vt:
                    m = Matrix(vt)
                    s = s * max(abs(m.a), abs(m.d), 1.0)
            except Exception:
                pass
        if isinstance(node, (Group, Use)):
            for c in node:
                walk(c, s)
        else:
            out[id(node)] = s

    walk(svg, 1.0)
    return out


def geom(shape):
    return H3.actual_segments(shape)


def cmp_geom(ga, gb, tol):
    ka = "".join(s[0] for s in ga)
    kb = "".join(s[0] for s in gb)
    if ka != kb:
        return "structure:%s!=%s" % (kb, ka)
    for i, (a, b) in enumerate(zip(ga, gb)):
        if a[0] == "A":
            if not H3.pt_close(a[1], b[1], tol) or not H3.pt_close(a[2], b[2], tol):
                return "arc-endpoints"
            for t in (0.25, 0.5, 0.75):
                if not H3.pt_close(a[3].point(t), b[3].point(t), tol * 20):
                    return "arc-interior"
        else:
            for p, q in zip(a[1:], b[1:]):
                if p is None or q is None:
                    if p is not q:
                        return "point-none"
                    continue
                if not H3.pt_close(p, q, tol):
                    return "point:%s%d" % (a[0], i)
    return None


def maxabs(g):
    m = 0.0
    for s in g:
        for p in s[1:]:
            try:
                m = max(m, abs(p[0]), abs(p[1]))
            except Exception:
                pass
    return m


def color_sig(c):
    if c is None:
        return None
    if c.value is None:
        return "none"
    return (c.red, c.green, c.blue, c.alpha)


def paint_equal(ca, cb):
    a, b = color_sig(ca), color_sig(cb)
    if a == b:
        return True
    # a missing paint and paint 'none' render identically only for stroke; keep strict but treat None==none
    if a in (None, "none") and b in (None, "none"):
        return True
    return False


def compare_trees(x, y, label):
    """x reference tree, y re-read tree.  returns signature or None"""
    sx, sy = shapes_of(x), shapes_of(y)
    if len(sx) != len(sy):
        return "%s:count:%+d" % (label, len(sy) - len(sx))
    scales = vt_scale_of(x)
    for i, (a, b) in enumerate(zip(sx, sy)):
        if type(a) is not type(b):
            return "%s:kind:%s->%s" % (label, type(a).__name__, type(b).__name__)
        try:
            ga = geom(a)
        except Exception as e:
            return None  # reference itself unusable (not C20's business)
        try:
            gb = geom(b)
        except Exception as e:
            return "%s:geom-raise:%s:%s" % (label, type(e).__name__, type(a).__name__)
        try:
            user = maxabs(H3.actual_segments_untransformed(a))
        except Exception:
            user = 0.0
        tol = 4e-6 * (1.0 + maxabs(ga) + user) * scales.get(id(a), 1.0)
        r = cmp_geom(ga, gb, tol)
        if r is not None:
            neg = ""
            for o in (a, b):
                for nm in ("width", "height", "rx", "ry"):
                    v = getattr(o, nm, None)
                    if isinstance(v, (int, float)) and v < 0:
                        neg = ":NEGDIMS"
            if isinstance(a, Circle) and (abs(a.rx - a.ry) > 1e-9 or abs(b.rx - b.ry) > 1e-9):
                neg += ":CIRCLE-ELLIPTIC"
            if isinstance(a, (Circle, Ellipse)):
                for o in (a, b):
                    m = o.transform
                    n = max(abs(m.a), abs(m.b), abs(m.c), abs(m.d))
                    if abs(m.a) < 1e-6 * n or abs(m.d) < 1e-6 * n:
                        neg += ":ADZERO"
                        break
                    if abs(m.a * m.c + m.b * m.d) > 1e-9 * n * n:
                        neg += ":SHEAR"
                        break
            return "%s:%s:%s%s" % (label, type(a).__name__, r, neg)
        if not paint_equal(a.fill, b.fill):
            return "%s:fill:%s" % (label, type(a).__name__)
        if not paint_equal(a.stroke, b.stroke):
            return "%s:stroke:%s" % (label, type(a).__name__)
        try:
            wa, wb = a.implicit_stroke_width, b.implicit_stroke_width
            sc = scales.get(id(a), 1.0)
            if (wa is None) != (wb is None) or (wa is not None and abs(float(wa) - float(wb)) > (1e-5 + 4e-6 * sc) * (1 + abs(float(wa)))):
                return "%s:stroke-width:%s" % (label, type(a).__name__)
        except Exception as e:
            return "%s:stroke-width-raise:%s" % (label, type(e).__name__)
        if a.id != b.id:
            return "%s:id:%s" % (label, type(a).__name__)
    return None


def _untransformed(shape):
    out = []
    for s in shape.segments(transformed=False):
        if isinstance(s, Move):
            out.append(("M", s.end))
        elif isinstance(s, (Line, Close)):
            out.append(("L", s.start, s.end))
        elif isinstance(s, QuadraticBezier):
            out.append(("Q", s.start, s.control, s.end))
        elif isinstance(s, CubicBezier):
            out.append(("C", s.start, s.control1, s.control2, s.end))
        elif isinstance(s, Arc):
            out.append(("A", s.start, s.end))
    return out


H3.actual_segments_untransformed = _untransformed


def write_variants(tree, rnd):
    """returns list of (label, text)"""
    out = []
    how = rnd.choice(["string", "string", "file", "svgz", "file_nopretty"])
    if how == "string":
        out.append(("string_xml", tree.string_xml()))
    else:
        os.makedirs(os.path.join(HERE, "tmp"), exist_ok=True)
        d = tempfile.mkdtemp(prefix="c20_", dir=os.path.join(HERE, "tmp"))
        if how == "svgz":
            fn = os.path.join(d, "out.svgz")
            tree.write_xml(fn)
            import gc
            gc.collect()
            with gzip.open(fn, "rb") as f:
                data = f.read()
        else:
            fn = os.path.join(d, "out.svg")
            if how == "file_nopretty":
                tree.write_xml(fn, pretty=False)
            else:
                tree.write_xml(fn)
            with open(fn, "rb") as f:
                data = f.read()
        os.remove(fn)
        os.rmdir(d)
        out.append((how, data.decode("utf-8")))
    return out


def roundtrip(x, ppi, cw_arg, ch_arg, reify2, rnd, reference_check=None):
    """x: tree. returns list of signatures"""
    sigs = []
    try:
        variants = write_variants(x, rnd)
    except Exception as e:
        tb = traceback.extract_tb(sys.exc_info()[2])
        return ["write-raise:%s:%s@%d" % (type(e).__name__, str(e)[:30], tb[-1].lineno)]
    for label, t1 in variants:
        try:
            ET.fromstring(t1.encode("utf-8"))
        except ET.ParseError as e:
            sigs.append("%s:not-wellformed:%s" % (label, str(e)[:30]))
            continue
        try:
            y = SVG.parse(io.BytesIO(t1.encode("utf-8")), reify=reify2, ppi=ppi, width=cw_arg, height=ch_arg)
        except Exception as e:
            tb = traceback.extract_tb(sys.exc_info()[2])
            sigs.append("%s:reparse-raise:%s@%d" % (label, type(e).__name__, tb[-1].lineno))
            continue
        if reference_check is not None:
            r = reference_check(y)
        else:
            r = compare_trees(x, y, "gen1")
        if r is not None:
            sigs.append(r)
            continue
        # second generation stability
        try:
            t2 = y.string_xml()
            z = SVG.parse(io.BytesIO(t2.encode("utf-8")), reify=reify2, ppi=ppi, width=cw_arg, height=ch_arg)
        except Exception as e:
            tb = traceback.extract_tb(sys.exc_info()[2])
            sigs.append("gen2-raise:%s@%d" % (type(e).__name__, tb[-1].lineno))
            continue
        r = compare_trees(y, z, "gen2")
        if r is not None:
            sigs.append(r)
    return sigs, variants


# ------------------------------------------------------------------------------------------- (a) parsed documents

def run_parsed(case_seed, profile, verbose=False):
    case = H3.gen_case(case_seed, profile)
    return check_parsed(case, case_seed, verbose)


def check_parsed(case, case_seed, verbose=False):
    root, text, ppi, (cw, ch), (cw_arg, ch_arg), ct_text, ct = case
    text = to_xml(root)
    rnd = random.Random(case_seed ^ 0x5A5A)
    reify = rnd.choice([True, False])
    reify2 = reify if rnd.random() < 0.7 else (not reify)
    try:
        x = SVG.parse(io.BytesIO(text.encode("utf-8")), reify=reify, ppi=ppi, width=cw_arg, height=ch_arg,
                      transform=ct_text)
    except Exception as e:
        return [], text, None  # C03's business
    res = roundtrip(x, ppi, cw_arg, ch_arg, reify2, rnd)
    if isinstance(res, list):
        sigs, variants = res, []
    else:
        sigs, variants = res
    sigs = ["r%d%d:" % (reify, reify2) + s for s in sigs]
    if verbose:
        print(text)
        print("ppi", ppi, "caller", cw_arg, ch_arg, "transform", ct_text, "reify", reify, reify2)
        for l, t in variants:
            print("---", l)
            print(t)
        print(sigs)
    return sigs, text, (ppi, cw_arg, ch_arg, ct_text, reify, reify2, variants)


# ------------------------------------------------------------------------------------------- (b) built trees

BUILT_COLORS = ["red", "blue", "#00ff00", "#123456", "none", "black", None, "#12345678", "rgba(255,0,0,0.5)"]


def build_shape(rnd, n, how):
    """instantiate the docgen Node n through the constructors. returns shape"""
    kw = {}
    g = n.geom
    txt = dict(n.attrs)
    tr = txt.get("transform")
    stroke = rnd.choice(BUILT_COLORS)
    fill = rnd.choice(BUILT_COLORS)
    sw = rnd.choice([None, 1, 2.5, 0.5, 3])
    n.built_paint = (stroke, fill, sw)

    def L(name):
        v = g[name]
        if v.unit == "":
            return v.num if how != "str" else v.text
        return v.text

    if how == "kw" or n.tag in ("polyline", "polygon", "path"):
        for name in g:
            if isinstance(g[name], Len):
                kw[name] = L(name)
        if tr is not None:
            kw["transform"] = tr if rnd.random() < 0.5 else Matrix(tr)
        if stroke is not None:
            kw["stroke"] = stroke
        if fill is not None:
            kw["fill"] = fill
        if sw is not None:
            kw["stroke_width"] = sw
        if n.id is not None:
            kw["id"] = n.id
        if n.tag == "rect":
            return Rect(**kw)
        if n.tag == "circle":
            return Circle(**kw)
        if n.tag == "ellipse":
            return Ellipse(**kw)
        if n.tag == "line":
            return SimpleLine(**kw)
        if n.tag == "polyline":
            if rnd.random() < 0.5:
                return Polyline(*[p for p in g["points"]], **kw)
            return Polyline(points=txt["points"], **kw)
        if n.tag == "polygon":
            if rnd.random() < 0.5:
                return Polygon(*[p for p in g["points"]], **kw)
            return Polygon(points=txt["points"], **kw)
        if n.tag == "path":
            return Path(txt["d"], **kw)
    # positional
    m = Matrix(tr) if tr is not None else None
    D = lambda name, d=0: (L(name) if name in g else d)
    if n.tag == "rect":
        s = Rect(D("x"), D("y"), D("width"), D("height"), D("rx", None) if "rx" in g or "ry" not in g else D("ry"),
                 D("ry", None) if "ry" in g or "rx" not in g else D("rx"), m, stroke, fill)
    elif n.tag == "circle":
        s = Circle(D("cx"), D("cy"), D("r"), D("r"), m, stroke, fill)
    elif n.tag == "ellipse":
        s = Ellipse(D("cx"), D("cy"), D("rx"), D("ry"), m, stroke, fill)
    elif n.tag == "line":
        s = SimpleLine(D("x1"), D("y1"), D("x2"), D("y2"), m, stroke, fill)
    else:
        raise ValueError(n.tag)
    if sw is not None:
        s.stroke_width = sw
    else:
        n.built_paint = (stroke, fill, None)
    if n.id is not None:
        s.id = n.id
    return s


def run_built(case_seed, verbose=False):
    rnd = random.Random(case_seed)
    cfg = {"p_pct": 0.0, "p_unit": 0.2, "paint": False, "p_display_none": 0.0, "degenerate": 0.0,
           "p_transform": 0.7, "rrect_units": False}
    gen = Gen(rnd, cfg)
    nodes = []
    ppi = 96.0
    svg = SVG()
    vb = None
    if rnd.random() < 0.6:
        svg.width = float(rnd.randint(50, 500))
        svg.height = float(rnd.randint(50, 500))
        svg.x = 0
        svg.y = 0
        if rnd.random() < 0.7:
            vb = [float(rnd.randint(-20, 20)), float(rnd.randint(-20, 20)), float(rnd.randint(20, 400)),
                  float(rnd.randint(20, 400))]
            svg.viewbox = Viewbox("%s %s %s %s" % tuple(vb))
    containers = [svg]
    for i in range(rnd.randint(1, 3)):
        if rnd.random() < 0.4:
            grp = Group()
            rnd.choice(containers).append(grp)
            containers.append(grp)
    for i in range(rnd.randint(1, 6)):
        n = gen.shape()
        how = rnd.choice(["kw", "pos", "str"])
        s = build_shape(rnd, n, how)
        rnd.choice(containers).append(s)
        nodes.append((n, s))
    # document order = tree order
    order = {id(s): i for i, s in enumerate(shapes_of(svg))}
    nodes.sort(key=lambda ns: order[id(ns[1])])
    expected = []
    for n, s in nodes:
        segs = shape_segments(n, ppi, 1.0, 1.0)
        expected.append((n, Expected(n.tag, n.id, n.matrix, segs) if segs is not None else None))
    expected = [(n, e) for n, e in expected if e is not None]
    reify2 = rnd.choice([True, False])

    def reference_check(y):
        sy = shapes_of(y)
        if len(sy) != len(expected):
            return "built:count:%+d" % (len(sy) - len(expected))
        for (n, e), b in zip(expected, sy):
            vts = 1.0
            r = H3.compare_shape(e, b, tolscale=2e-5)
            if r is not None:
                return "built:" + r
            stroke, fill, sw = n.built_paint
            if not paint_equal(Color(fill) if fill is not None else None, b.fill):
                # an unset fill becomes the parser default black on re-reading; that is the reader's default: skip None
                if fill is not None:
                    return "built:fill:%s" % n.tag
            if not paint_equal(Color(stroke) if stroke is not None else None, b.stroke):
                return "built:stroke:%s" % n.tag
            if sw is not None and stroke not in (None,):
                det = abs(n.matrix[0] * n.matrix[3] - n.matrix[1] * n.matrix[2])
                want = sw * math.sqrt(det)
                got = b.implicit_stroke_width
                if got is None or abs(float(got) - want) > 1e-4 * (1 + want):
                    return "built:stroke-width:%s" % n.tag
            if n.id != b.id:
                return "built:id:%s" % n.tag
        return None

    res = roundtrip(svg, ppi, None, None, reify2, rnd, reference_check=reference_check)
    if isinstance(res, list):
        sigs, variants = res, []
    else:
        sigs, variants = res
    if verbose:
        for n, s in nodes:
            print(repr(s), n.built_paint)
        print("root", svg.width, svg.height, svg.viewbox)
        for l, t in variants:
            print("---", l)
            print(t)
        print(sigs)
    return sigs, "\n".join(repr(s) for n, s in nodes), (vb, variants)


def main():
    seed = int(sys.argv[1])
    n = int(sys.argv[2])
    profile = sys.argv[3] if len(sys.argv) > 3 else "c20"
    os.makedirs(os.path.join(HERE, "fails_C20"), exist_ok=True)
    os.makedirs(os.path.join(HERE, "tmp"), exist_ok=True)
    fails = 0
    sigs = {}
    for i in range(n):
        case_seed = seed * 1000003 + i
        try:
            if profile == "built":
                results, text, params = run_built(case_seed)
            else:
                results, text, params = run_parsed(case_seed, profile)
        except Exception as e:
            traceback.print_exc()
            print("HARNESS-ERROR", case_seed)
            continue
        if results:
            fails += 1
            key = ";".join(results)
            sigs.setdefault(key, []).append(case_seed)
            print("FAIL", case_seed, profile, key)
    print("=== %d cases, %d failing (profile %s)" % (n, fails, profile))
    for k, v in sorted(sigs.items(), key=lambda kv: -len(kv[1])):
        print("%5d  %s   e.g. %s" % (len(v), k, v[:3]))


if __name__ == "__main__":
    main()
