import io, random, sys, traceback, collections
sys.path.insert(0, '/repo')
from svgelements import *
random.seed(int(sys.argv[1]))
BAD = ["", " ", "abc", "10px 5", "1e999", "-1e999", "nan", "inf", "1,,2", "%", "10%", "-10%", "1em", "2ex", "3vw", "1e", ".", "-", "+", "0", "-0", "1 2 3", "0 0 10", "0 0 0 0", "0 0 -1 -1", "#", "#12", "#gggggg", "rgb(", "rgb(1,2)", "rgb(300,-1,2%)", "hsl(1,2,3,4,5)", "url(#x)", "url(#", "currentColor", "none", "rotate(", "rotate()", "rotate(1,2)", "matrix(1 2 3)", "scale(0)", "translate(1em, 2%)", "translate(10%)", "skewX(90)", "M", "M 0", "M 0,0 L", "M0,0 A 1 1 0 2 2 1 1", "Z", "L 1 1 Z M", "m1e999,1", "é", "\x0c", "1 2 3 4 5", "1,2,3", "xMidYMid slice", "none", "bogus meet", "xMinYMax", "meet", "slice", "100", "0.0001", "1e-300", "-5", "5cm", "5in", "5mm", "5pt", "5pc", "5Q", "1e5px", "10 %", "10 px"]
SHAPES0 = {"rect": ["x","y","width","height","rx","ry"], "circle": ["cx","cy","r"], "ellipse": ["cx","cy","rx","ry"], "line": ["x1","y1","x2","y2"], "polyline": ["points"], "polygon": ["points"], "path": ["d"], "image": ["x","y","width","height","href","preserveAspectRatio"], "text": ["x","y","dx","dy","font-size","font"], "use": ["x","y","href","width","height"]}
SHAPES = dict(SHAPES0); SHAPES["use"] = ["x","y","href","xlink:href","width","height"]
COMMON = ["transform","fill","stroke","stroke-width","style","fill-opacity","stroke-opacity","opacity","display","class","id","vector-effect","color","visibility","fill-rule", "font-size"]
GOODD = ["M0,0 L10,10 Z", "M0,0 h5 v5 a5,5 0 1 0 2,2", "M 1 1 q 1 1 2 2 t 3 3", "M1,1 C 1 2 3 4 5 6 S 7 8 9 10 z m 1 1 l 2 2", "M 10 10 A 5 5 30 1 1 20 20 Z"]
def mutate(t):
    t = list(t)
    for _ in range(random.randint(1, 3)):
        if not t: break
        i = random.randrange(len(t)); r = random.random()
        if r < 0.3: del t[i]
        elif r < 0.6: t.insert(i, random.choice("MmLlZzAaCcSsQqTtHhVv0123456789.,-+eE %#()x\t"))
        elif r < 0.8: t[i] = random.choice("MmLlZzAa0.,-eE ")
        else: t = t[:i]
    return "".join(t)
def val(name):
    r = random.random()
    if r < 0.2 and name in ("d", "points", "transform", "viewBox", "style", "font"):
        base = {"d": random.choice(GOODD), "points": "0,0 10,0 10,10 5,5", "transform": "rotate(30 1 1) scale(2,3) translate(1,1) skewX(3) matrix(1,0,0,1,5,5)", "viewBox": "0 0 100 50", "style": "fill:red;stroke:blue;stroke-width:2", "font": "italic bold 12px/30px Georgia, serif"}[name]
        return mutate(base)
    if r < 0.55: return random.choice(BAD)
    if name in ("d",): return random.choice(["M0,0 L10,10 Z", "M0,0 h5 v5 a5,5 0 1 0 2,2", "M 1 1 q 1 1 2 2 t 3 3"])
    if name == "points": return random.choice(["0,0 10,0 10,10", "1 2 3", "0,0"])
    if name == "transform": return random.choice(["rotate(30)", "scale(2,3) translate(1,1)", "matrix(1,0,0,1,5,5)", "skewX(10)"])
    if name in ("fill","stroke","color"): return random.choice(["red","#123","none","currentColor","rgb(1,2,3)"])
    if name in ("href", "xlink:href"): return random.choice(["#a","#b","#r","#zz", "a", "#", "url(#a)"])
    if name == "id": return random.choice(["a","b","r"])
    if name == "class": return random.choice(["a","a b"," ",""])
    if name == "style": return random.choice(["fill:red;stroke:blue", "stroke-width:%s" % random.choice(BAD), "fill:%s" % random.choice(BAD), "transform:%s"%random.choice(BAD), ";;;:", "a:b:c"])
    return random.choice(["0","1","10","50%","2.5","1e1","3cm"])
def elem(depth):
    r = random.random()
    if depth < 3 and r < 0.3:
        tag = random.choice(["g","svg","defs","g","symbol","clipPath","pattern","a","switch"])
        attrs = {}
        names = COMMON + (["x","y","width","height","viewBox","preserveAspectRatio"] if tag in ("svg","symbol","pattern") else [])
        for n in random.sample(names, random.randint(0, 4)): attrs[n] = val(n)
        inner = "".join(elem(depth+1) for _ in range(random.randint(0,3)))
        return "<%s %s>%s</%s>" % (tag, " ".join('%s="%s"' % (k, esc(v)) for k,v in attrs.items()), inner, tag)
    if random.random() < 0.08:
        css = random.choice(["rect{fill:red}", ".a{stroke:blue;stroke-width:%s}" % random.choice(BAD), "#r{fill:%s}" % random.choice(BAD), "rect.a, circle{transform:%s}" % random.choice(BAD), "/* c */ *{fill:none} /* unterminated", "{}", "a{b", "}}{{", "rect{x:%s;width:%s}" % (random.choice(BAD), random.choice(BAD))])
        return "<style>%s</style>" % esc(css)
    if random.random() < 0.06:
        return '<linearGradient id="%s"><stop offset="%s" stop-color="%s" stop-opacity="%s"/></linearGradient>' % (random.choice("abr"), esc(random.choice(BAD)), esc(random.choice(BAD)), esc(random.choice(BAD)))
    tag = random.choice(list(SHAPES))
    attrs = {}
    for n in SHAPES[tag]:
        if random.random() < 0.8: attrs[n] = val(n)
    for n in random.sample(COMMON, random.randint(0, 3)): attrs[n] = val(n)
    if tag == "text": return "<text %s>hi<tspan %s>x</tspan></text>" % (" ".join('%s="%s"' % (k, esc(v)) for k,v in attrs.items()), 'dx="%s"' % esc(val("dx")))
    return "<%s %s/>" % (tag, " ".join('%s="%s"' % (k, esc(v)) for k,v in attrs.items()))
def esc(v): return v.replace("&","&amp;").replace('"',"&quot;").replace("<","&lt;").replace("\x0c"," ")
seen = collections.Counter(); ex = {}
for i in range(int(sys.argv[2])):
    rootattrs = {}
    for n in random.sample(["width","height","viewBox","preserveAspectRatio","transform","x","y","stroke-width","style", "font-size"], random.randint(0,4)): rootattrs[n] = val(n)
    doc = '<svg xmlns="http://www.w3.org/2000/svg" xmlns:xlink="http://www.w3.org/1999/xlink" %s>%s</svg>' % (" ".join('%s="%s"' % (k, esc(v)) for k,v in rootattrs.items()), "".join(elem(0) for _ in range(random.randint(1,4))))
    for reify in (True, False):
        try:
            kw = {}
            if random.random() < 0.3: kw["width"] = random.choice(BAD + [100, 0, None, "10in"])
            if random.random() < 0.3: kw["height"] = random.choice(BAD + [100, 0, None, "10in"])
            if random.random() < 0.2: kw["ppi"] = random.choice([96, 72, 0, 1e-9])
            if random.random() < 0.2: kw["color"] = random.choice(["red", "currentColor", "bogus"])
            if random.random() < 0.2: kw["transform"] = random.choice(["scale(2)", "rotate(", "translate(1em,2%)", ""])
            s = SVG.parse(io.StringIO(doc), reify=reify, **kw)
        except Exception as e:
            if type(e).__name__ == "ParseError": continue
            tb = traceback.extract_tb(e.__traceback__)
            key = (type(e).__name__, tuple((f.lineno) for f in tb[-3:]))
            seen[key] += 1
            if key not in ex: ex[key] = (doc, reify, "".join(traceback.format_exception_only(type(e), e)).strip()[:200], [(f.name, f.lineno) for f in tb[-8:]])
for k, c in seen.most_common():
    print(c, k, ex[k][2]); print("   ", ex[k][3]); print("   ", ex[k][0][:600], ex[k][1])
print("done", sum(seen.values()))
